"""C14 -- A snippet alias expands exactly like its definition, and resolution ends."""
import copy
import json
import os
import random
import re
import signal
import sys

import attr_util as au
import snippet_util as su
from common import enc_str, VERIF, Reader
from markup_util import enc_config, decode_expand, impl_expand, NotModelled, canon_cfg

PLAIN = ['div', 'p', 'span', 'x-y', 'custom', 'em']      # not snippet keys
USER_KEYS = ['s1', 's2', 's3', 's4', 's5', 's6']
ODD_KEYS = ['a:b', 'k-1', '!x', 'u_v', 'T9', '-z']          # the other characters of a key text (`:` `-` `!` `_`, digit/dash first)
KEY_TEXT_RE = re.compile(r'[A-Za-z0-9_:!-]+\Z')             # = proofs/SnippetAliasParse.key_text


COLLIDING_ALIAS_ATTRIBUTES = True      # generator class: attributes written on the alias that the definition has as well
TIME_LIMIT = 10.0        # seconds per expansion; generated tables expand in milliseconds


class Timeout(BaseException):
    pass


class TooDeep(BaseException):
    pass


# ---------------------------------------------------------------- every implementation call under the per-call limit
# "Resolution terminates" is part of the statement: a call that does not return is an OUTCOME the oracle judges, never a
# state of the check.  Every route into the implementation (expand along all call routes, markup.parse for the final
# trees, resolve_snippets for the resolver oracle, also the calls the GENERATORS make to find out where a decoration can be
# written) runs under common.time_limit (CPU time) and with a bound on the address space of the process, so that a
# resolution that keeps growing its node list is stopped by MemoryError (judged like a hang) before the machine is.
# After HANG_BUDGET calls that hit a limit no further implementation calls are made for generated cases (outcome
# ('skipped',): no judgement); the inputs that hit the limit are reported with their replay.
HANG_BUDGET = 3
RECURSION_BUDGET = 40      # the same for calls that end in RecursionError / beyond the nesting bound (each costs up to 0.5 s)
TREE_LIMIT_S = 10.0
ADDRESS_SPACE_HEADROOM = 1536 * 1024 * 1024      # bytes a single implementation call may add to the process
_HANGS = {'n': 0, 'rec': 0, 'pending': []}
NO_RESULT = ('hang', 'timeout', 'memory', 'too-deep', 'recursion', 'skipped')


def budget_left():
    return _HANGS['n'] < HANG_BUDGET and _HANGS['rec'] < RECURSION_BUDGET


def note_hang(abbr, cfg, where):
    _HANGS['n'] += 1
    _HANGS['pending'].append((abbr, copy.deepcopy(cfg), where))


class hard_time_limit:
    """common.time_limit (CPU time of this process, ITIMER_PROF) that fires a BaseException: neither the library nor a
    harness helper that catches Exception around the implementation call (attr_util.impl_tree does) can swallow it."""

    def __new__(cls, seconds):
        from common import time_limit

        class _Limit(time_limit):
            def _fire(self, signum, frame):
                raise Timeout()
        return _Limit(seconds)


_AS_BASE = []


class address_space_limit:
    """RLIMIT_AS lowered to (size of the process at the first limited call + headroom) for the duration of one
    implementation call."""

    def __enter__(self):
        import resource
        self.res = resource
        try:
            self.old = resource.getrlimit(resource.RLIMIT_AS)
            if not _AS_BASE:
                with open('/proc/self/statm') as f:
                    _AS_BASE.append(int(f.read().split()[0]) * resource.getpagesize())
            new = _AS_BASE[0] + ADDRESS_SPACE_HEADROOM
            if self.old[0] != resource.RLIM_INFINITY:
                new = min(new, self.old[0])
            resource.setrlimit(resource.RLIMIT_AS, (new, self.old[1]))
        except Exception:  # noqa: no /proc, no permission: the CPU-time limit alone
            self.old = None
        return self

    def __exit__(self, *a):
        if self.old is not None:
            try:
                self.res.setrlimit(self.res.RLIMIT_AS, self.old)
            except Exception:  # noqa
                pass
        return False


def guarded(fn, abbr, cfg, where):
    """fn() (one implementation call for abbr under cfg) under both limits: its result, ('hang', s), ('memory',) or, when
    the budget of hanging calls is used up, ('skipped',)."""
    import gc
    if not budget_left():
        return ('skipped',)
    try:
        with address_space_limit():
            with hard_time_limit(TREE_LIMIT_S):
                r = fn()
    except Timeout:
        r = ('hang', TREE_LIMIT_S)
    except MemoryError:
        r = ('memory',)
    if r[0] == 'internal' and r[1:] == ('MemoryError',):
        r = ('memory',)
    if r[0] in ('hang', 'memory'):
        gc.collect()          # the abandoned node lists (parent/child cycles) go before the next call
    if r[0] in ('hang', 'memory'):
        note_hang(abbr, cfg, where)
    elif r[0] == 'recursion':
        _HANGS['rec'] += 1
        if len(_HANGS['pending']) < 5:
            _HANGS['pending'].append((abbr, copy.deepcopy(cfg), where))
    return r


def tree_of(abbr, cfg):
    """au.impl_tree (markup.parse: the final tree) under the limits."""
    return guarded(lambda: au.impl_tree(abbr, cfg), abbr, cfg, 'markup.parse')


# ---------------------------------------------------------------- observer: nesting depth of resolve()
def expand_with_depth(abbr, cfg, call=None):
    """(result, deepest nesting of snippets.resolve() seen while a definition was parsed).
    call: the call route (route_runner) when it is not the plain emmet.expand(abbr, dict)."""
    import emmet.markup  # noqa
    ms = sys.modules['emmet.markup.snippets']
    orig = ms.parse
    maxd = [0]

    def wrapped(snippet, config):
        d = 0
        f = sys._getframe(1)
        while f is not None:
            if f.f_code.co_name == 'resolve' and f.f_globals.get('__name__') == 'emmet.markup.snippets':
                d += 1
            f = f.f_back
        maxd[0] = max(maxd[0], d)
        if d > len(set(config.snippets.values())):
            raise TooDeep()          # deeper than the number of (distinct) snippets: the statement's bound is broken
        return orig(snippet, config)
    if not budget_left():
        return ('skipped',), 0
    ms.parse = wrapped

    def on_alarm(signum, frame):
        raise Timeout()
    old = signal.signal(signal.SIGPROF, on_alarm)
    signal.setitimer(signal.ITIMER_PROF, TIME_LIMIT)
    try:
        with address_space_limit():
            r = impl_expand(abbr, cfg) if call is None else route_call(call, abbr)
    except Timeout:
        r = ('timeout',)
    except TooDeep:
        r = ('too-deep',)
    except MemoryError:
        r = ('memory',)
    finally:
        signal.setitimer(signal.ITIMER_PROF, 0)
        signal.signal(signal.SIGPROF, old)
        ms.parse = orig
    if r[0] == 'internal' and r[1:] == ('MemoryError',):
        r = ('memory',)
    if r[0] in ('hang', 'timeout', 'memory'):
        _HANGS['n'] += 1          # reported by the caller (check_case) with this input as replay
        import gc
        gc.collect()
    elif r[0] in ('recursion', 'too-deep'):
        _HANGS['rec'] += 1
    return r, maxd[0]


# ---------------------------------------------------------------- call routes x wrapped text
# "Expanding" an abbreviation under a configuration can be written in several ways with the names the package exports
# (emmet/__init__.py: expand, Config, markup_abbreviation, stringify_markup, parse_markup_abbreviation, expand_markup).
# The property speaks about expanding, not about one entry point: the alias and its definition written in place must
# agree along every route, also when the configuration carries text to wrap ("wrap with abbreviation": config['text'],
# a string or a list of lines).
WRAP_TEXT_AND_ROUTES = True          # generator class: every call route x wrapped text x alias that is not the text target
EMPTY_WRAP_TEXT = True              # ... including text that is given but false ('' / []): on since repair ce85773 (the texts were left visible to snippet resolution)

ROUTES = [
    'expand',                            # emmet.expand(abbr, dict)
    'config-object',                     # emmet.expand(abbr, Config(dict))
    'expand-markup',                     # emmet.expand_markup(abbr, Config(dict))
    'resolve+stringify',                 # stringify_markup(markup_abbreviation(abbr, config), config)
    'parsed-tree',                       # tree = parse_markup_abbreviation(abbr, parser options of the config);
                                         # stringify_markup(markup_abbreviation(tree, config), config)      (two-step use)
    'shared-config',                     # ONE Config object for both forms: alias first, then the definition
    'shared-config-definition-first',    # ... the definition first, then the alias
    'shared-config-parsed-tree',         # ... one Config object, both forms parsed first (two-step), alias first
    'global-type',                       # the user's snippet table given in global_config[type], not in the user config
    'global-syntax',                     # ... in global_config[syntax]
]
SHARED_ROUTES = ('shared-config', 'shared-config-definition-first', 'shared-config-parsed-tree')
DEFINITION_FIRST = ('shared-config-definition-first',)


def abbreviation_params(config):
    """The options of the abbreviation parser that belong to a configuration (two-step use: the editor parses the
    abbreviation first and resolves / outputs the tree later with the same configuration)."""
    return {'text': config.get('text'), 'variables': config.variables, 'options': config.options,
            'max_repeat': config.get('maxRepeat') or config.get('max_repeat'),
            'jsx': bool(config.options.get('jsx.enabled')), 'href': config.options.get('markup.href')}


def route_runner(route, cfg):
    """call(abbr) -> output string, along the named route, for the user configuration cfg (a dict)."""
    import emmet
    shared = []

    def config():
        if route in SHARED_ROUTES:
            if not shared:
                shared.append(emmet.Config(copy.deepcopy(cfg)))
            return shared[0]
        return emmet.Config(copy.deepcopy(cfg))

    def call(abbr):
        if route == 'expand':
            return emmet.expand(abbr, copy.deepcopy(cfg))
        if route in ('config-object', 'shared-config', 'shared-config-definition-first'):
            return emmet.expand(abbr, config())
        if route == 'expand-markup':
            return emmet.expand_markup(abbr, config())
        if route == 'resolve+stringify':
            c = config()
            return emmet.stringify_markup(emmet.markup_abbreviation(abbr, c), c)
        if route in ('parsed-tree', 'shared-config-parsed-tree'):
            c = config()
            tree = emmet.parse_markup_abbreviation(abbr, abbreviation_params(c))
            tree = emmet.markup_abbreviation(tree, c)
            return emmet.stringify_markup(tree, c)
        if route in ('global-type', 'global-syntax'):
            uc = copy.deepcopy(cfg)
            table = uc.pop('snippets', None)
            layer = uc.get('type', 'markup') if route == 'global-type' else uc.get('syntax', 'html')
            return emmet.expand(abbr, uc, {layer: {'snippets': table}} if table is not None else {})
        raise ValueError('unknown route %r' % (route,))
    return call


def route_call(call, abbr):
    from common import Hang
    from markup_util import _limited_call, classify_exc, CALL_LIMIT_S
    if not budget_left():
        return ('skipped',)
    try:
        with address_space_limit():
            return ('ok', _limited_call(lambda: call(abbr)))
    except Hang:
        _HANGS['n'] += 1
        return ('hang', CALL_LIMIT_S)
    except MemoryError:
        _HANGS['n'] += 1
        return ('memory',)
    except Exception as e:  # noqa
        return classify_exc(e)


# Wrapped text goes into the deepest last element of the abbreviation (or into every copy of an element repeated with a
# bare `*`).  When that element is the alias, the text is "text written on the alias" and goes to the top-level elements
# of the definition (the statement), which has no in-place spelling in general; in the shapes below the element that
# receives the text is a plain element next to / above / below the alias, so "the definition in its place" is simply
# the definition in parentheses.
TEXT_SHAPES = [('before-target', '%s+p'), ('inside-before-target', 'ul>%s+li'), ('climb-to-target', 'div>%s^span'),
               ('repeated-before-target', '%s*2+em'), ('before-link-target', '%s+a'), ('before-repeated-target', 'ul>%s+li*'),
               ('after-repeated-target', 'q*+%s'), ('between', 'i+%s+b>u')]
WRAP_TEXTS = [None, 'hello', 'two words', 'www.emmet.io', 'me@emmet.io', 'line 1\nline 2', ' padded ', '${1:x} $# [a]{b}',
              ['one', 'two'], ['one', '', '  three '], ['only'], ['www.emmet.io', 'http://a.b/c'], ['', ' ']]
EMPTY_TEXTS = ['', []]          # text that is given but false in Python
REPEATED_TARGET_SHAPES = ('before-repeated-target', 'after-repeated-target')
_BARE_STAR = re.compile(r'\*(?![0-9])')


def wrap_pairs(key, d):
    """[(shape, abbreviation with the alias, the same with the definition in its place)]: the alias is not the text target."""
    if '$#' in d or _BARE_STAR.search(re.sub(r'\[[^\]]*\]|\{[^}]*\}', '', d)):
        return []          # a definition that asks for the wrapped text itself reads differently inside the table
    out = [(nm, fmt % key, fmt % ('(%s)' % d)) for nm, fmt in TEXT_SHAPES]
    if su.ends_with_element(d):
        out.append(('child-is-target', key + '>b', d + '>b'))
    return out


_FIXED = random.Random(1400)          # the built-in tables get the same draws in every run


def wrap_route_cases(key, d, cfg, kind, rng=None, n=1, **extra):
    """n cases for one key: a shape, a wrapped text and a call route each, drawn independently (from rng for the
    generated tables, from a fixed stream for the built-in ones)."""
    pairs = wrap_pairs(key, d)
    if not pairs:
        return []
    rng = rng or _FIXED
    texts = WRAP_TEXTS + (EMPTY_TEXTS if EMPTY_WRAP_TEXT else [])
    out = []
    for _ in range(n):
        shape, a, b = rng.choice(pairs)
        text, route = rng.choice(texts), rng.choice(ROUTES)
        if isinstance(text, list) and not any(l.strip() for l in text) and shape in REPEATED_TARGET_SHAPES:
            # no line to wrap: the element repeated with a bare `*` has no copy at all, the text target is the alias again
            shape, a, b = pairs[0]
        c = copy.deepcopy(cfg)
        if text is not None:
            c['text'] = copy.deepcopy(text)
        tk = 'none' if text is None else 'given-but-false' if not text else 'blank-lines-only' if not ''.join(text).strip() else 'list' if isinstance(text, list) else 'string'
        out.append(dict(extra, kind='%s:wrap:%s' % (kind, shape), a=a, b=b, config=c, route=route, text_kind=tk))
    return out


# ---------------------------------------------------------------- random user tables
def rand_element(rng, names, depth=0):
    s = rng.choice(names)
    if rng.random() < 0.45:
        s += '.' + rng.choice(['a', 'b', 'c'])
    if rng.random() < 0.2:
        s += '#' + rng.choice(['i', 'j'])
    if rng.random() < 0.35:
        s += '[%s=%s]' % (rng.choice(['t', 'u', 'class', 'title']), rng.choice(['1', '2', "'x y'"]))
    if rng.random() < 0.15:
        s += '{%s}' % rng.choice(['hi', 'T'])
    elif rng.random() < 0.1:
        s += '/'
    if rng.random() < 0.12:
        s += '*2'
    return s


def rand_definition(rng, names):
    n_top = rng.choice([1, 1, 1, 2, 2, 3])
    tops = []
    for _ in range(n_top):
        s = rand_element(rng, names)
        k = rng.random()
        if k < 0.3:
            s += '>' + rand_element(rng, names)
            if rng.random() < 0.4:
                s += '+' + rand_element(rng, names)
        tops.append(s)
    d = tops[0]
    for t in tops[1:]:
        # back to the top level before the next top-level element
        d += ('^' * d.count('>') + t) if '>' in d else ('+' + t)
    return d


def rand_table(rng):
    n = rng.randint(1, 6)
    keys = (USER_KEYS if rng.random() < 0.7 else ODD_KEYS)[:n]
    cyclic_ok = rng.random() < 0.6
    table = {}
    for i, k in enumerate(keys):
        # without cycles a definition only mentions later keys
        names = PLAIN + (keys if cyclic_ok else keys[i + 1:]) * 2
        table[k] = rand_definition(rng, names)
    return table


def referenced(defn, keys):
    out = set()
    chunks = su.top_level_segments(defn) or []
    for seg, _ in chunks:
        nm = su.NAME_RE.match(seg).group(0)
        if nm in keys:
            out.add(nm)
    return out


def reaches_cycle(table, start):
    """Does resolution starting at key `start` meet a key that is already being resolved?"""
    keys = set(table)
    state = {}

    def visit(k):
        if state.get(k) == 1:
            return True
        if state.get(k) == 2:
            return False
        state[k] = 1
        for r in referenced(table[k], keys):
            if visit(r):
                return True
        state[k] = 2
        return False
    return visit(start)


# ---------------------------------------------------------------- the hypothesis of C14_alias_eq_definition
_MENTIONS = {}      # id(cfg) -> (cfg, prepared Config, {definition text: mentions})


def impl_mentions(defn, cfg):
    """Definitions the text `defn` refers to: every node (any depth) of the definition, read by the
    implementation's own parser the way resolve() reads it, whose name is a key with a non-empty value."""
    from emmet.config import Config
    from emmet.abbreviation import parse as abbreviation
    ent = _MENTIONS.get(id(cfg))
    if ent is None or ent[0] is not cfg:
        config = Config(copy.deepcopy(cfg))
        if config.get('text'):
            config.user_config['text'] = None
        if len(_MENTIONS) > 64:
            _MENTIONS.clear()
        ent = _MENTIONS[id(cfg)] = (cfg, config, {})
    _, config, memo = ent
    if defn in memo:
        return memo[defn]
    out = []
    try:
        tree = abbreviation(defn, config)
    except Exception:  # noqa: a definition that does not parse mentions nothing (expansion fails anyway)
        tree = None

    def walk(n):
        s = config.snippets.get(n.name) if n.name else None
        if s:
            out.append(s)
        for c in n.children:
            walk(c)
    if tree is not None:
        for c in tree.children:
            walk(c)
    memo[defn] = out
    return out


def parser_cycle(cfg, d, memo):
    """Does following impl_mentions from the definition text d meet a text that is on the current path?
    (depth-first on the implementation's parser; memo: text -> True (reaches a cycle) / False)."""
    path = []

    def visit(x):
        if x in path:
            return True
        if x in memo:
            return memo[x]
        path.append(x)
        r = any(visit(y) for y in impl_mentions(x, cfg))
        path.pop()
        memo[x] = r
        return r
    return visit(d)


def parser_reaches_itself(cfg, d):
    """Is the definition text d reachable from itself along impl_mentions (breadth-first closure)?"""
    seen, todo = set(), list(impl_mentions(d, cfg))
    while todo:
        x = todo.pop()
        if x == d:
            return True
        if x not in seen:
            seen.add(x)
            todo.extend(impl_mentions(x, cfg))
    return False


def text_reaches_itself(table, k):
    """The same on the generated table with the harness' textual reader (by definition TEXT, as the guard is)."""
    d = table[k]
    keys = set(table)
    seen, todo = set(), [table[x] for x in referenced(d, keys)]
    while todo:
        x = todo.pop()
        if x == d:
            return True
        if x not in seen:
            seen.add(x)
            for y in keys:
                if table[y] == x:
                    todo.extend(table[z] for z in referenced(table[y], keys))
                    break
    return False


def impl_key_is_one_node(k):
    """The abbreviation `k` alone is one bare element named k (C14_key_is_one_node)."""
    from emmet.abbreviation import parse as abbreviation
    try:
        t = abbreviation(k, {})
    except Exception:  # noqa
        return False
    if len(t.children) != 1:
        return False
    n = t.children[0]
    return (n.name == k and n.value is None and not n.attributes and n.repeat is None and not n.children
            and not n.self_closing)


def acyclicity_tie(ctx, tables):
    """tables: [(cfg, table)].  The decidable predicates of the theorem (extracted: acyclic_from, acyclic_table,
    mentions, def_of, key_text) against the harness' own textual walk (reaches_cycle / referenced) and against
    the implementation's parser (impl_mentions, impl_key_is_one_node)."""
    snip = ctx.model('snip')
    if snip is None:
        return
    wires, meta = [], []
    n_tab = 0
    for cfg, table in tables:
        try:
            ec = enc_config(cfg)
        except NotModelled:
            ctx.cover('C14:tie-not-modelled')
            continue
        n_tab += 1
        if n_tab <= 300 or 'snippets' not in cfg:      # the whole-table predicate walks all built-in snippets as well: a sample
            wires.append([2] + ec)
            meta.append(('table', cfg, table, None))
        for k, d in table.items():
            wires.append([1] + ec + enc_str(d))
            meta.append(('from', cfg, table, k))
            wires.append([3] + ec + enc_str(d))
            meta.append(('mentions', cfg, table, k))
            wires.append([4] + ec + enc_str(k))
            meta.append(('def', cfg, table, k))
            wires.append([5] + enc_str(k))
            meta.append(('key', cfg, table, k))
            wires.append([6] + ec + enc_str(d))
            meta.append(('self', cfg, table, k))
    dis = 0
    n = 0
    for (kind, cfg, table, k), w in zip(meta, snip.run(wires)):
        r = Reader(w)
        n += 1
        user = 'snippets' in cfg          # a generated table (no groups, no built-in names): the textual reader applies
        if kind == 'table':
            # the configuration's table = the user's snippets over the built-in ones of the syntax
            from emmet.config import Config
            got = r.bool()
            memo = {}
            want = not any(parser_cycle(cfg, x, memo) for x in Config(copy.deepcopy(cfg)).snippets.values() if x)
            ctx.cover('C14:tie-table-%s' % ('acyclic' if got else 'cyclic'))
        elif kind == 'from':
            got = r.bool()
            want = not parser_cycle(cfg, table[k], {})
            if user and want != (not reaches_cycle(table, k)):
                want = ('parser walk', want, 'textual walk', not want)
            ctx.cover('C14:tie-key-%s' % ('acyclic' if got else 'cyclic'))
        elif kind == 'self':
            got = r.bool()
            want = not parser_reaches_itself(cfg, table[k])
            if user and want != (not text_reaches_itself(table, k)):
                want = ('parser walk', want, 'textual walk', not want)
            ctx.cover('C14:tie-key-%s' % ('self-free' if got else 'reaches-itself'))
        elif kind == 'mentions':
            got = r.list(r.str)
            want = impl_mentions(table[k], cfg)
            textual = sorted(set(table[x] for x in referenced(table[k], set(table))))
            if user and sorted(set(want)) != textual:
                got = ('model', got, 'textual', textual)          # the harness' textual reader disagrees with the parser
        elif kind == 'def':
            got = r.opt(r.str)
            want = table[k] or None
        else:
            got = r.bool()
            want = bool(KEY_TEXT_RE.match(k))
            if got and not impl_key_is_one_node(k):
                want = ('impl: not one bare node',)
        if got != want:
            dis += 1
            if dis <= 5:
                ctx.say('DISAGREE C14 acyclicity tie (%s) key=%r table=%r cfg=%s\n  theorem predicate %r\n  harness/impl      %r'
                        % (kind, k, table, canon_cfg(cfg), got, want))
                ctx.broken.append({'kind': 'correspondence', 'file': 'snip-C14-' + kind, 'input': k, 'table': table,
                                   'config': canon_cfg(cfg), 'model': repr(got)[:300], 'impl': repr(want)[:300]})
    ctx.cov['correspondence']['snip_C14_acyclicity'] = {'cases': n, 'disagreements': dis}


# ---------------------------------------------------------------- the theorems about walk_resolve, on the implementation
_RESOLVED_CFG = {}


def impl_resolved(abbr, cfg):
    """_impl_resolved under the per-call limits (a resolve_snippets that does not return is ('hang', s))."""
    return guarded(lambda: _impl_resolved(abbr, cfg), abbr, cfg, 'resolve_snippets')


def _impl_resolved(abbr, cfg):
    """The abbreviation parsed the way markup.parse does and run through resolve_snippets ONLY (before the
    transform pass): ('ok', nested forest) with nodes [name, value, repeat, attrs, self_closing, children]."""
    from emmet.config import Config
    from emmet.abbreviation import parse as abbreviation
    from emmet.markup.snippets import resolve_snippets
    from emmet.abbreviation.tokenizer.tokens import Field
    from markup_util import classify_exc
    vts = {'raw': 0, 'singleQuote': 1, 'doubleQuote': 2, 'expression': 3}

    def val(v):
        if v is None:
            return None
        return [('s', t) if isinstance(t, str) else ('f', t.index, t.name) if isinstance(t, Field) else ('?', repr(t)) for t in v]

    def attrs(l):
        if l is None:
            return None
        return [(a.name, val(a.value), vts.get(a.value_type, a.value_type), bool(a.boolean), bool(a.implied), bool(a.multiple))
                for a in l]

    def nest(n):
        rp = n.repeat
        return [n.name, val(n.value), None if rp is None else (rp.count, rp.value, bool(rp.implicit)), attrs(n.attributes),
                bool(n.self_closing), [nest(c) for c in n.children]]
    ent = _RESOLVED_CFG.get(id(cfg))
    if ent is None or ent[0] is not cfg:
        if len(_RESOLVED_CFG) > 16:
            _RESOLVED_CFG.clear()
        ent = _RESOLVED_CFG[id(cfg)] = (cfg, Config(copy.deepcopy(cfg)))      # resolve_snippets only reads the Config
    config = ent[1]
    text = config.get('text')
    try:
        tree = abbreviation(abbr, {'text': text, 'variables': config.variables, 'options': config.options,
                                   'max_repeat': config.get('maxRepeat') or config.get('max_repeat'),
                                   'jsx': bool(config.options.get('jsx.enabled')), 'href': config.options.get('markup.href')})
        if text:
            config.user_config['text'] = None
        try:
            resolve_snippets(tree, config)
        finally:
            if text:
                config.user_config['text'] = text
    except Exception as e:  # noqa
        return classify_exc(e)
    return ('ok', [nest(c) for c in tree.children])


def flatten(forest, d=0):
    out = []
    for n in forest:
        out.append((d, n[0], n[1], n[2], n[3], n[4]))
        out += flatten(n[5], d + 1)
    return out


def attach_deepest_py(forest, kids):
    """find_deepest: below the end of the last-child chain of the last top-level node."""
    forest = copy.deepcopy(forest)
    n = forest[-1]
    while n[5]:
        n = n[5][-1]
    n[5] = n[5] + copy.deepcopy(kids)
    return forest


def on_tops(forest, f):
    out = copy.deepcopy(forest)
    for n in out:
        f(n)
    return out


FRESH = 'zzq'          # a name that is no snippet key: carries the decoration alone


def resolved_forms(k, cfg, reverse, combos=()):
    """[(form, abbreviation, expected resolved forest)] for the decorated alias k, computed from the resolved
    forest of the bare alias and of the decoration written on a name that is no alias.  These are
    C14_alias_attributes / _children / _repeat / _text / _self_closing (alias_merge: for ALL tables, cyclic or not)."""
    base = impl_resolved(k, cfg)
    if base[0] != 'ok':
        return base, []
    base = base[1]
    deco = impl_resolved(FRESH + '.extra[t=v]', cfg)
    kid = impl_resolved(FRESH, cfg)
    if deco[0] != 'ok' or kid[0] != 'ok' or len(deco[1]) != 1 or deco[1][0][0] != FRESH:
        return ('ok', base), []
    extra = deco[1][0][3]

    def add(n):
        n[3] = (extra + (n[3] or [])) if reverse else ((n[3] or []) + extra)
    forms = [('attributes', k + '.extra[t=v]', on_tops(base, add)),
             ('children', k + '>' + FRESH, attach_deepest_py(base, kid[1]) if base else []),
             ('text', k + '{T}', on_tops(base, lambda n: n.__setitem__(1, [('s', 'T')]))),
             ('self-closing', k + '/', on_tops(base, lambda n: n.__setitem__(4, True)))]
    rep = []
    for i in range(3):
        rep += on_tops(base, lambda n, i=i: n.__setitem__(2, (3, i, False)))
    forms.append(('repeat', FRESH + '>' + k + '*3', [[FRESH, None, None, None, False, rep]]))
    # several kinds at once (COMBINED_ALIAS_DATA): the theorems composed -- children first (below find_deepest of the
    # definition), then attributes / text / mark / repeater on every top-level node
    for combo in combos:
        if not base:
            break
        abbr = k + ('.extra[t=v]' if 'attributes' in combo else '') + ('{T}' if 'text' in combo else '') + ('/' if 'self-closing' in combo else '')

        def deco(n, i=None, combo=combo):
            if 'attributes' in combo:
                add(n)
            if 'text' in combo:
                n[1] = [('s', 'T')]
            if 'self-closing' in combo:
                n[4] = True
            if i is not None:
                n[2] = (3, i, False)
        body = attach_deepest_py(base, kid[1]) if 'children' in combo else base
        if 'repeater' in combo:
            abbr = FRESH + '>' + abbr + '*3' + ('>' + FRESH if 'children' in combo else '')
            rep = []
            for i in range(3):
                rep += on_tops(body, lambda n, i=i: deco(n, i))
            want = [[FRESH, None, None, None, False, rep]]
        else:
            abbr += '>' + FRESH if 'children' in combo else ''
            want = on_tops(body, deco)
        forms.append((combo_name(combo), abbr, want))
    return ('ok', base), forms


def resolved_case(k, d, cfg, reverse, self_free, combos=()):
    """Oracle on the resolver of the implementation.  Returns (failures, [(abbr, impl result)] for the model tie)."""
    fails, seen = [], []
    base, forms = resolved_forms(k, cfg, reverse, combos)
    seen.append((k, base))
    if base[0] in ('hang', 'memory'):
        fails.append(('alone', k, 'resolve_snippets(%r) does not terminate: %r' % (k, base)))
    for form, abbr, want in forms:
        got = impl_resolved(abbr, cfg)
        if got[0] == 'skipped':
            continue
        seen.append((abbr, got))
        if got != ('ok', want):
            fails.append((form, abbr, 'resolve_snippets(%r) is not the resolved definition of %r with the %s of the alias applied: got %r, '
                          'expected %r' % (abbr, k, form, str(flatten(got[1]) if got[0] == 'ok' else got)[:260], str(flatten(want))[:260])))
    if self_free and base[0] == 'ok':
        rd = impl_resolved(d, cfg)
        if rd[0] == 'skipped':
            return fails, seen
        seen.append((d, rd))
        if rd != base:
            fails.append(('alone', k, 'resolve_snippets(%r) differs from resolve_snippets of its definition %r (which does not reach itself): '
                          '%r against %r' % (k, d, str(flatten(base[1]))[:260], str(flatten(rd[1]) if rd[0] == 'ok' else rd)[:260])))
    return fails, seen


def plain_reading(cfg):
    """jsx off, no wrap text, no maxRepeat: the definition reads the same in the abbreviation as in the table."""
    return cfg.get('syntax') not in ('jsx',) and not cfg.get('text') and 'maxRepeat' not in cfg and 'max_repeat' not in cfg \
        and not (cfg.get('options') or {}).get('jsx.enabled')


def tok_ext_holds(d, c='zzq'):
    """The tokenizer hypothesis of C14_child_reads_below_flat on the implementation: `d>c` is tokenized as the tokens of d,
    the operator `>` and the literal c.  None when d does not tokenize."""
    from emmet.abbreviation.tokenizer import tokenize

    def sig(t):
        return (type(t).__name__, tuple((k, repr(getattr(t, k))) for k in sorted(dir(t)) if not k.startswith('_') and not callable(getattr(t, k))))
    try:
        a = tokenize(d)
    except Exception:  # noqa
        return None
    try:
        b = tokenize(d + '>' + c)
    except Exception:  # noqa
        return False
    if len(b) != len(a) + 2 or [sig(t) for t in b[:len(a)]] != [sig(t) for t in a]:
        return False
    gt, ct = b[-2], b[-1]
    return type(gt).__name__ == 'Operator' and getattr(gt, 'operator', None) == 'child' \
        and type(ct).__name__ == 'Literal' and ct.value == c


def resolved_tie(ctx, tables):
    """Every key of every generated table (and of the built-in tables): the decorated-alias theorems as an oracle on
    resolve_snippets, and the same resolved trees through the extracted model (SnipRun 7)."""
    snip = ctx.model('snip')
    wires, impl = [], []
    for cfg, table in tables:
        user = 'snippets' in cfg
        reverse = bool((cfg.get('options') or {}).get('output.reverseAttributes'))
        try:
            ec = enc_config(cfg)
        except NotModelled:
            ec = None
        for k, d in table.items():
            if mentions_lorem_text(k + d):
                continue
            if user:
                sf = not text_reaches_itself(table, k)
            else:
                sf = not parser_reaches_itself(cfg, d)
            te = tok_ext_holds(d)
            ctx.cover('C14:tok-ext:%s' % ('holds' if te else 'not-tokenized' if te is None else 'fails'))
            if te is False:
                ctx.sample({'tok_ext_fails_for_definition': d})
            combos = tuple(next_combos(1)) if COMBINED_ALIAS_DATA else ()
            for combo in combos:
                ctx.cover('C14:resolved:combined:' + combo_name(combo))
            fails, seen = resolved_case(k, d, cfg, reverse, sf and plain_reading(cfg), combos)
            ctx.count_eval(len(seen))
            ctx.cover('C14:resolved:%s' % ('self-free' if sf else 'reaches-itself'))
            for form, abbr, why in fails:
                ctx.property_failure('C14:resolved:%s|%s' % (abbr, canon_cfg(cfg)), 'C14 ' + why,
                                     {'component': 'C14-resolved', 'key': k, 'definition': d, 'config': cfg, 'reverse': reverse,
                                      'self_free': sf and plain_reading(cfg), 'form': form, 'why': why,
                                      'combos': [list(x) for x in combos]})
            if ec is not None:
                for abbr, r in seen:
                    wires.append([7] + ec + enc_str(abbr))
                    impl.append((abbr, cfg, r))
    dis = 0
    if os.environ.get('C14_TIMING'):
        import time as _t
        ctx.say('TIMING   resolved tie: implementation side done at %s' % _t.strftime('%X'))
    if snip is not None and wires:
        outs = snip.run(wires)
        if os.environ.get('C14_TIMING'):
            ctx.say('TIMING   resolved tie: model side done at %s' % _t.strftime('%X'))
        for (abbr, cfg, r), w in zip(impl, outs):
            mo = au.decode_tree(w)
            im = ('ok', flatten(r[1])) if r[0] == 'ok' else r
            if im[0] in NO_RESULT:
                continue
            if mo != im:
                dis += 1
                if dis <= 5:
                    ctx.say('DISAGREE C14 resolved tree %r cfg=%s\n  impl  %r\n  model %r' % (abbr, canon_cfg(cfg), str(im)[:300], str(mo)[:300]))
                    ctx.broken.append({'kind': 'correspondence', 'file': 'snip-C14-resolved', 'input': abbr, 'config': canon_cfg(cfg),
                                       'impl': repr(im)[:300], 'model': repr(mo)[:300]})
    ctx.cov['correspondence']['snip_C14_resolved_tree'] = {'cases': len(wires), 'disagreements': dis}



# ---------------------------------------------------------------- alias attributes that COLLIDE with the definition's own
# An attribute written on the alias whose name the definition already gives to a top-level element: "attributes
# written on the alias are applied to the top-level elements of the definition" = every top-level element then
# carries the value WRITTEN ON THE ALIAS (also when that value is explicitly empty, or absent), at the place the
# statement's "definition in its place" reading gives it (position of the definition's attribute; first, in
# written order, under output.reverseAttributes).  Shapes of the value written on the alias:
EMPTY_SHAPES = [('empty-dq', '[%s=""]'), ('empty-sq', "[%s='']"), ('no-value', '[%s]'), ('boolean-no-value', '[%s.]'),
                ('empty-expr', '[%s={}]'), ('empty-dq+fresh', '[%s="" zq=1]')]
FULL_SHAPES = [('raw', '[%s=nv]'), ('quoted', '[%s="n v"]'), ('single-quoted', "[%s='q']"), ('fresh+raw', '[zq=1 %s=nv]'),
               ('expr', '[%s={e}]')]
# transform steps documented to DROP an attribute afterwards (emmet docs / addon sources: `label` with an input inside
# loses an empty `for`, xsl:variable / xsl:with-param with content lose `select`): not part of this property
ADDON_DROPS = {('label', 'for'), ('xsl:variable', 'select'), ('xsl:with-param', 'select')}
_rot = [0]


def top_attr_names(key, cfg):
    """Names the bare alias gives its top-level elements (generator side only: WHERE a collision can be written).
    None when the alias does not expand to named top-level elements."""
    t = tree_of(key, cfg)
    if t[0] != 'ok':
        return None
    tops = [n for n in t[1] if n[0] == 0]
    if not tops or any(n[1] is None for n in tops):
        return None
    names = []
    for n in tops:
        for a in n[4] or []:
            if a[0] and a[0] not in names and (n[1], a[0]) not in ADDON_DROPS and re.match(r'[A-Za-z][A-Za-z0-9:_-]*\Z', a[0]):
                names.append(a[0])
    return names


def override_decos(names, rng=None, per_name=2):
    """[(shape, attribute name, decoration text)]: for every colliding name one value of the empty family and one of
    the non-empty family (rotating through the shapes, or drawn from rng), `#nid` for id, one more class word for class."""
    out = []
    for nm in names:
        if nm == 'class':
            out.append(('class-word', nm, '[class=nv]'))          # class values are joined, not replaced
            continue
        _rot[0] += 1
        fams = [EMPTY_SHAPES, FULL_SHAPES + ([('id-shorthand', '#nid')] if nm == 'id' else [])]
        if per_name == 1:
            r = rng.randrange(3) if rng else _rot[0] % 3
            fams = [fams[1] if r == 0 else fams[0]]          # 2/3 from the empty family
        for fam in fams:
            shape, fmt = rng.choice(fam) if rng else fam[_rot[0] % len(fam)]
            out.append((shape, nm, fmt % nm if '%s' in fmt else fmt))
    return out


def _norm_val(v):
    # a value that is absent and a value that is written but empty are not told apart (both are output as an empty value)
    if not v:
        return None
    out = []
    for t in v:
        if t[0] == 's' and out and out[-1][0] == 's':
            out[-1] = ('s', out[-1][1] + t[1])
        elif t != ('s', ''):
            out.append(tuple(t))
    return out or None


def _norm_attrs(attrs):
    """(name, value, boolean, implied) of each attribute: what the statement speaks about (not the quote style)."""
    return [(a[0], _norm_val(a[1]), bool(a[3]), bool(a[4])) for a in (attrs or [])]


def apply_alias_attrs(base_attrs, deco_attrs, reverse):
    """The property, stated directly: attributes of a top-level element of the definition (base_attrs, merged) once the
    attributes written on the alias (deco_attrs, distinct names) are applied.  The alias' value replaces the
    definition's (class: both, joined by one space, in attribute order); boolean / implied marks of either stay."""
    base = _norm_attrs(base_attrs)
    deco = _norm_attrs(deco_attrs)

    def join(x, y):          # x written before y
        if x[0] == 'class':
            if x[1] is None or y[1] is None:
                v = x[1] if y[1] is None else y[1]
            else:
                v = _norm_val(list(x[1]) + [('s', ' ')] + list(y[1]))
            return (x[0], v, x[2], x[3])
        return None
    dnames = [a[0] for a in deco]
    bnames = [a[0] for a in base]
    out = []
    if reverse:
        for a in deco:
            if a[0] in bnames:
                b = base[bnames.index(a[0])]
                out.append(join(a, b) or (a[0], a[1], a[2] or b[2], a[3] or b[3]))
            else:
                out.append(a)
        out += [b for b in base if b[0] not in dnames]
    else:
        for b in base:
            if b[0] in dnames:
                a = deco[dnames.index(b[0])]
                out.append(join(b, a) or (b[0], a[1], a[2] or b[2], a[3] or b[3]))
            else:
                out.append(b)
        out += [a for a in deco if a[0] not in bnames]
    return out


def override_oracle(key, deco, cfg):
    """Final tree (markup.parse) of KEY<deco> = final tree of KEY with the attributes of <deco> (read off the plain element
    zzq<deco>, which is no alias) applied to every top-level node.  Returns why it fails, or None."""
    reverse = bool((cfg.get('options') or {}).get('output.reverseAttributes'))
    base = tree_of(key, cfg)
    plain = tree_of(FRESH + deco, cfg)
    if base[0] != 'ok' or plain[0] != 'ok' or len(plain[1]) != 1 or plain[1][0][1] != FRESH:
        return None
    dattrs = [a for a in (plain[1][0][4] or [])]
    if not dattrs or any(not a[0] for a in dattrs) or len(set(a[0] for a in dattrs)) != len(dattrs):
        return None
    if any(n[0] == 0 and (n[1] is None or any((n[1], a[0]) in ADDON_DROPS for a in dattrs)) for n in base[1]):
        return None
    got = tree_of(key + deco, cfg)
    if got[0] == 'skipped':
        return None
    if got[0] != 'ok':
        return 'markup.parse(%r) gives %r although %r and %r parse' % (key + deco, got, key, FRESH + deco)
    if len(got[1]) != len(base[1]):
        return 'the tree of %r has %d nodes, the tree of %r has %d' % (key + deco, len(got[1]), key, len(base[1]))
    for g, b in zip(got[1], base[1]):
        want = apply_alias_attrs(b[4], dattrs, reverse) if b[0] == 0 else _norm_attrs(b[4])
        have = _norm_attrs(g[4])
        if (g[0], g[1], g[2], g[3], g[5]) != (b[0], b[1], b[2], b[3], b[5]) or have != want:
            return ('node <%s> (depth %d) of %r: attributes %r, expected %r = those of the definition %r with the attributes written on '
                    'the alias %r applied%s' % (g[1], g[0], key + deco, have, want, _norm_attrs(b[4]), _norm_attrs(dattrs),
                                                 '' if (g[1], g[2], g[3], g[5]) == (b[1], b[2], b[3], b[5]) else '; name/text/repeat/self-closing differ too'))
    return None


def override_pairs(key, d, cfg, rev, rng=None, per_name=2):
    """[(kind, alias form, definition-in-place form or None, decoration)] for the colliding decorations of one key."""
    names = top_attr_names(key, cfg)
    if not names:
        return []
    out = []
    if rng is not None:
        # user tables: one name per key; `class` (half of the generated elements have one) one time in five
        names = [n for n in rng.sample(names, len(names)) if n != 'class' or rng.random() < 0.2][:1]
    for shape, nm, deco in override_decos(names, rng, per_name):
        b = su.decorate_tops(d, deco, after_name=rev)
        out.append(('override:' + shape, key + deco, b, deco))
    return out

def mentions_lorem_text(s):
    return 'lorem' in s.lower()


# ---------------------------------------------------------------- SEVERAL kinds of alias data at once
# The statement lists five kinds of data written on the alias -- attributes, text, a repeater, the self-closing mark,
# children -- and says where each goes.  It says so for an alias that carries any of them, so also for an alias that carries
# SEVERAL AT ONCE (`bq.extra{T x}/`, `ul>KEY[t=v]{T x}*2>b`): every subset of two or more kinds is a generator class of its
# own (26 subsets), judged three ways:
#  * expand(alias form) = expand(definition with the same data written in its place): attributes / text / mark on every
#    top-level element by the textual reader (snippet_util.decorate_tops_combined: text written on the alias stands in place
#    of the element's own), the repeater on the definition in parentheses, the child below the textually last element;
#  * directly on the final tree (markup.parse) for the kinds that sit ON the top-level elements: every top-level node of
#    KEY<data> has the text / the mark / the attributes written on the alias, everything else as in the tree of the bare KEY
#    (this judges an alias whose definition starts with its own name -- `a: a[href]` -- where the in-place form goes through
#    the alias again);
#  * on resolve_snippets (resolved_forms: the decorated-alias theorems composed).
COMBINED_ALIAS_DATA = True          # generator class: two or more kinds of data on one alias
DATA_KINDS = ('attributes', 'text', 'self-closing', 'repeater', 'children')
COMBOS = [tuple(k for i, k in enumerate(DATA_KINDS) if m >> i & 1) for m in range(32) if bin(m).count('1') >= 2]
ALIAS_TEXTS = ['T x', 'T', 'a.b', '${1:f} y']
_combo_rot = [0]


def combo_name(combo):
    return '+'.join(combo)


def next_combos(n, rng=None):
    """n of the 26 subsets: drawn from rng (user tables) or by rotation (built-in tables: the same in every run)."""
    out = []
    for _ in range(n):
        if rng is not None:
            out.append(rng.choice(COMBOS))
        else:
            _combo_rot[0] += 1
            out.append(COMBOS[(_combo_rot[0] * 7) % len(COMBOS)])
    return out


def combined_pair(key, d, rev, combo, text):
    """(alias form, definition-in-place form or None, the data that sits on the top-level elements as written on the alias)"""
    attrs = '.extra[t=v]' if 'attributes' in combo else ''
    on_top = attrs + ('{%s}' % text if 'text' in combo else '') + ('/' if 'self-closing' in combo else '')
    a = key + on_top
    b = su.decorate_tops_combined(d, attrs, text if 'text' in combo else None, 'self-closing' in combo, after_name=rev)
    if 'children' in combo:
        if b is not None and not su.ends_with_element(d):
            b = None
        if b is not None:
            b += '>b'
    if 'repeater' in combo:
        a = 'ul>' + a + '*2'
        if b is not None:
            b = 'ul>(' + b + ')*2'
    if 'children' in combo:
        a += '>b'
    return a, b, on_top


def combined_cases(key, d, cfg, rev, kind, combos, rng=None, **extra):
    out = []
    for combo in combos:
        text = (rng or _FIXED).choice(ALIAS_TEXTS)
        a, b, on_top = combined_pair(key, d, rev, combo, text)
        c = dict(extra, kind='%s:combined:%s%s' % (kind, combo_name(combo), ':reversed' if rev else ''), a=a, b=b, config=cfg, key=key,
                 combined=list(combo), on_top=on_top)
        c['equal'] = bool(extra.get('equal', True)) and b is not None
        out.append(c)
    return out


def _drop_addon(name, attrs):
    return [a for a in attrs if (name, a[0]) not in ADDON_DROPS]


_TREE_MEMO = {}


def _memo_tree(abbr, cfg):
    """tree_of for the two reference trees of combined_oracle (bare alias, plain element with the data): the same for all
    cases of one configuration object."""
    ent = _TREE_MEMO.get(id(cfg))
    if ent is None or ent[0] is not cfg:
        if len(_TREE_MEMO) > 32:
            _TREE_MEMO.clear()
        ent = _TREE_MEMO[id(cfg)] = (cfg, {})
    if abbr not in ent[1]:
        ent[1][abbr] = tree_of(abbr, cfg)
    return ent[1][abbr]


def combined_oracle(key, on_top, cfg):
    """Final tree (markup.parse) of KEY<on_top> against the final tree of the bare KEY: on every top-level node the text and
    the self-closing mark written on the alias, its attributes applied (read off the plain element zzq<on_top>); all other
    nodes, and everything else of the top-level nodes, unchanged.  Why it fails, or None."""
    reverse = bool((cfg.get('options') or {}).get('output.reverseAttributes'))
    base = _memo_tree(key, cfg)
    plain = _memo_tree(FRESH + on_top, cfg)
    if base[0] != 'ok' or plain[0] != 'ok' or len(plain[1]) != 1 or plain[1][0][1] != FRESH:
        return None
    _, _, pval, _, pattrs, pclose = plain[1][0][:6]
    dattrs = list(pattrs or [])
    if any(not a[0] for a in dattrs) or len(set(a[0] for a in dattrs)) != len(dattrs):
        return None
    got = tree_of(key + on_top, cfg)
    if got[0] == 'skipped':
        return None
    if got[0] != 'ok':
        return 'markup.parse(%r) gives %r although %r and %r parse' % (key + on_top, got, key, FRESH + on_top)
    if len(got[1]) != len(base[1]):
        return 'the tree of %r has %d nodes, the tree of %r has %d' % (key + on_top, len(got[1]), key, len(base[1]))
    for g, b in zip(got[1], base[1]):
        top = b[0] == 0
        want_val = pval if top and pval is not None else b[2]
        want_close = bool(b[5] or (top and pclose))
        want_attrs = apply_alias_attrs(b[4], dattrs, reverse) if top and dattrs and b[1] is not None else _norm_attrs(b[4])
        have_attrs = _norm_attrs(g[4])
        if top and pval is not None:
            # text on an element: addon steps documented to drop an attribute then (ADDON_DROPS) are not part of this property
            want_attrs, have_attrs = _drop_addon(b[1], want_attrs), _drop_addon(g[1], have_attrs)
        if top and b[1] is None and dattrs:
            continue          # attributes written on an alias whose definition starts with a text node: not stated
        if (g[0], g[1], g[3]) != (b[0], b[1], b[3]) or _norm_val(g[2]) != _norm_val(want_val) or bool(g[5]) != want_close \
                or have_attrs != want_attrs:
            return ('node <%s> (depth %d) of %r: text %r self-closing %r attributes %r; expected text %r self-closing %r attributes %r = '
                    'the node of the bare alias %r with the data written on the alias applied'
                    % (g[1], g[0], key + on_top, _norm_val(g[2]), bool(g[5]), have_attrs, _norm_val(want_val), want_close, want_attrs, key))
    return None



# ---------------------------------------------------------------- cases
def builtin_cases():
    from emmet.snippets import markup_snippets, xsl_snippets, pug_snippets
    tables = (('html', dict(markup_snippets)), ('xsl', {**markup_snippets, **xsl_snippets}),
              ('pug', {**markup_snippets, **pug_snippets}))
    cases = []
    for syn, tbl in tables:
        for k, d in tbl.items():
            for rev in (False, True):
                cfg = {'syntax': syn} if not rev else {'syntax': syn, 'options': {'output.reverseAttributes': True}}
                for kind, a, b in su.alias_pairs(k, d, rev):
                    if rev and kind in ('alone', 'repeat-in-parent') and hash(k) % 4:
                        continue
                    cases.append({'kind': 'builtin:' + kind, 'a': a, 'b': b, 'config': cfg, 'equal': True, 'bound': None})
    if COLLIDING_ALIAS_ATTRIBUTES:
        # every key once (xsl / pug: the keys those tables add or change), every attribute name its definition gives a
        # top-level element, written on the alias again with an empty-family and a non-empty-family value
        own = (('html', dict(markup_snippets)), ('xsl', dict(xsl_snippets)), ('pug', dict(pug_snippets)))
        i = 0
        for syn, tbl in own:
            for k, d in tbl.items():
                if mentions_lorem_text(k + d):
                    continue
                i += 1
                rev = i % 3 == 0
                cfg = {'syntax': syn} if not rev else {'syntax': syn, 'options': {'output.reverseAttributes': True}}
                for kind, a, b, deco in override_pairs(k, d, cfg, rev):
                    cases.append({'kind': 'builtin:' + kind + (':reversed' if rev else ''), 'a': a, 'b': b, 'config': cfg,
                                  'equal': b is not None, 'bound': None, 'key': k, 'deco': deco})
    if COMBINED_ALIAS_DATA:
        # every key once (xsl / pug: the keys those tables add or change), two of the 26 subsets each (rotating), a
        # quarter of the keys under reverseAttributes
        own = (('html', dict(markup_snippets)), ('xsl', dict(xsl_snippets)), ('pug', dict(pug_snippets)))
        i = 0
        shared = {}
        for syn, tbl in own:
            for k, d in tbl.items():
                if mentions_lorem_text(k + d):
                    continue
                i += 1
                rev = i % 4 == 0
                cfg = shared.setdefault((syn, rev), {'syntax': syn} if not rev else {'syntax': syn, 'options': {'output.reverseAttributes': True}})
                new = combined_cases(k, d, cfg, rev, 'builtin', next_combos(2), None, equal=True, bound=None)
                new[i % 2]['to_model'] = i % 2 == 0          # the oracle judges every case; one in four also goes through the extracted model
                new[1 - i % 2]['to_model'] = False
                cases += new
    if WRAP_TEXT_AND_ROUTES:
        # every key once (xsl / pug: the keys those tables add or change), two draws of (shape, wrapped text, call route)
        own = (('html', dict(markup_snippets)), ('xsl', dict(xsl_snippets)), ('pug', dict(pug_snippets)))
        for syn, tbl in own:
            for k, d in tbl.items():
                if mentions_lorem_text(k + d):
                    continue
                cases += wrap_route_cases(k, d, {'syntax': syn}, 'builtin', None, 2, equal=True, bound=None)
    return cases


VARIABLE_ROUNDS = [{'lang': 'fr', 'charset': 'koi8-r', 'locale': 'fr-FR', 'indentation': '  '},
                   {'lang': 'de', 'charset': 'latin1', 'who': 'second'},
                   {'who': 'third'}]


def variable_round_cases():
    """The same aliases again under DIFFERENT `variables`, later in the same process: a snippet definition may
    use ${variable}; alias and definition-in-place must agree under every configuration, whatever was expanded
    before (variables are substituted when a definition is parsed)."""
    from emmet.snippets import markup_snippets
    cases = []
    user = {'vv': 'p[title=${who}]{${who} ${lang}}', 'ww': 'vv>b{${charset}}', 'xx': 'ww+vv'}
    for rnd, variables in enumerate(VARIABLE_ROUNDS):
        for k, d in list(markup_snippets.items()) + list(user.items()):
            if '${' not in d and not any(r in d for r in ('doc', 'meta', 'vv', 'ww', '!!!')):
                continue
            cfg = {'variables': dict(variables)}
            if k in user:
                cfg['snippets'] = dict(user)
            for kind, a, b in su.alias_pairs(k, d, False):
                if kind in ('alone', 'child'):
                    c = {'kind': 'variables-round%d:%s' % (rnd, kind), 'a': a, 'b': b, 'config': cfg, 'equal': True, 'bound': None}
                    if rnd:
                        # the call sequence that precedes this case in the run (the same alias under the earlier rounds'
                        # variables): a replay file repeats it in its fresh process before the case itself
                        c['prelude'] = [[a, dict(cfg, variables=dict(v))] for v in VARIABLE_ROUNDS[:rnd]]
                    cases.append(c)
    return cases


def multikey_check(ctx):
    """parse_snippets: every name of a `a|b|c` key maps to that key's definition."""
    import emmet.snippets as S
    for raw, parsed, nm in ((S.raw_markup_snippets, S.markup_snippets, 'html'), (S.raw_xsl_snippets, S.xsl_snippets, 'xsl'),
                            (S.raw_pug_snippets, S.pug_snippets, 'pug')):
        want = {}
        for k, v in raw.items():
            for name in k.split('|'):
                want[name] = v
        ctx.count_eval(len(want))
        if want != parsed:
            diff = [k for k in set(want) | set(parsed) if want.get(k) != parsed.get(k)][:5]
            ctx.property_failure('C14:multikey:%s' % nm, 'C14 parse_snippets(%s): names %r do not map to their key\'s definition' % (nm, diff),
                                 {'component': 'C14-multikey', 'table': nm, 'names': diff})


def user_cases(ctx, n_tables, tables=None):
    rng = ctx.rng
    cases = []
    for _ in range(n_tables):
        table = rand_table(rng)
        rev = rng.random() < 0.4
        cfg = {'snippets': table}
        if rev:
            cfg['options'] = {'output.reverseAttributes': True}
        if rng.random() < 0.2:
            cfg['syntax'] = rng.choice(['xml', 'jsx'])
        bound = len(set(table.values()))
        any_cycle = False
        if tables is not None:
            tables.append((cfg, table))
        for k, d in table.items():
            any_cycle = any_cycle or reaches_cycle(table, k)
            cyc = text_reaches_itself(table, k)          # the hypothesis of C14_alias_eq_definition (self_free) fails
            for kind, a, b in su.alias_pairs(k, d, rev):
                cases.append({'kind': ('user-cyclic:' if cyc else 'user:') + kind, 'a': a, 'b': b, 'config': cfg,
                              'equal': not cyc, 'bound': bound})
            if COLLIDING_ALIAS_ATTRIBUTES:
                for kind, a, b, deco in override_pairs(k, d, cfg, rev, rng, per_name=1):
                    cases.append({'kind': ('user-cyclic:' if cyc else 'user:') + kind + (':reversed' if rev else ''), 'a': a, 'b': b,
                                  'config': cfg, 'equal': not cyc and b is not None, 'bound': bound, 'key': k, 'deco': deco})
        # a larger abbreviation over the table
        names = list(table) + PLAIN
        abbr = rand_definition(rng, names)
        cases.append({'kind': 'user-abbr', 'a': abbr, 'b': None, 'config': cfg, 'equal': False, 'bound': bound})
        ctx.cover('C14:table-size:%d' % len(table))
        ctx.cover('C14:table-cyclic' if any_cycle else 'C14:table-acyclic')
    return cases


def user_combined_cases(ctx, tables):
    """Third pass over the generated tables (own random stream derived from the run's seed, so that the tables and the wrap draws
    of a given VERIF_SEED stay what they were): every key once with a drawn subset of the kinds of alias data."""
    cases = []
    if not COMBINED_ALIAS_DATA:
        return cases
    rng = random.Random(ctx.seed * 7919 + 14)
    n = 0
    for cfg, table in tables:
        rev = bool((cfg.get('options') or {}).get('output.reverseAttributes'))
        bound = len(set(table.values()))
        for k, d in table.items():
            cyc = text_reaches_itself(table, k)
            n += 1
            cases += combined_cases(k, d, cfg, rev, 'user-cyclic' if cyc else 'user', next_combos(1, rng), rng, equal=not cyc, bound=bound,
                                    to_model=n % 5 == 0)          # the oracle judges every case; one in five also goes through the extracted model
    return cases


def user_wrap_cases(ctx, tables):
    """Second pass over the generated tables (after all of them are drawn, so the tables of a given VERIF_SEED stay what
    they were): every key once with a drawn (shape, wrapped text, call route)."""
    cases = []
    if not WRAP_TEXT_AND_ROUTES:
        return cases
    for cfg, table in tables:
        bound = len(set(table.values()))
        for k, d in table.items():
            cyc = text_reaches_itself(table, k)
            cases += wrap_route_cases(k, d, cfg, 'user-cyclic' if cyc else 'user', ctx.rng, 1, equal=not cyc, bound=bound)
    return cases


# ---------------------------------------------------------------- DECLARED-ONLY attributes x RUNS of alias data x FLAG spellings
# Two families of input the passes above never write:
#  (1) a definition may DECLARE an attribute without giving it a value (the built-in tables do so for href / src / alt:
#      `a[href]`, `img[src alt]`); a user table may do the same for ANY attribute, `class` included (`div[class]+section[class]`),
#      on SEVERAL top-level elements at once, and may write the value empty (`[class=""]`, `[t='']`) or boolean (`[t.]`).
#      And the alias may carry a RUN of data of the same name: two or three classes (`KEY.a.b`, `KEY.a.b.c`), a class next to a
#      class attribute (`KEY.a[class=b]`), the same attribute twice (`KEY[t=1][t=2]`, `KEY#i#j`).  "Attributes written on the alias
#      are applied to the top-level elements of the definition": EVERY top-level element gets exactly what the same run written
#      on it in place gives.  The passes above write one class word and one fresh attribute (`.extra[t=v]`) or one colliding
#      attribute on the alias, and generated definitions always give their attributes a value.
#  (2) `output.reverseAttributes` is a flag; the Python port (as Python callers do) takes it by truth value, so a caller may write
#      1 / 'yes' / [1] for on and 0 / None / '' for off.  "For every configuration" includes these spellings: the alias and the
#      definition in its place (alias attributes first when the flag is TRUE IN PYTHON, i.e. bool(value)) must agree, and the
#      value written on the alias must be the one every top-level element carries.  The passes above write True or leave it out.
DECLARED_ATTRS_AND_DATA_RUNS = True      # generator class (1)
FLAG_SPELLINGS = True                    # generator class (2)
TRUTHY_FLAGS = [1, 1.0, 'yes', 'true', 2, [1]]          # true in Python, not the object True
FALSY_FLAGS = [0, None, '', 0.0, []]                              # false in Python, not the object False
# an attribute declared without value / with an empty value / boolean, as a definition may write it on a top-level element
DECLARED_EMPTY = ['[class]', '[class]', '[class]', '[class=""]', "[class='']", '[title]', '[t]', '[t=""]', '[t.]', '[class title]',
                  '[title class]', '[id]', '[class t]']
DECLARED_FULL = ['.c', '[class=c]', '[class="c d"]', '[t=1]', '[title=x]', '#i', '.c[class]', '[class].c', '']
# runs of alias data: the same name more than once
DATA_RUNS = ['.a.b', '.a.b.c', '.a.b', '.a[class=b]', '[class=a].b', '[class="a b"].c', '#i.a.b', '.a#i.b', '[t=1][t=2]', '[t=1 t=2]',
             '[title=x].a.b', '.a.b[t]', '[t=1 u=2][t=3]', '#i#j', '[class=a][class=b][class=c]', '.a.b[class]', '[title=x][title=y]',
             '.a.b[title=x t=2]', '[class=a class=b]']
# An alias that carries an EXPLICITLY EMPTY class value followed by more class data (`KEY[class=""].a`, `KEY[class={}].a`, or a definition that
# writes `[class=""]` on an inner alias which then receives classes) over a definition with two or more top-level elements that declare
# `class` without a value.  This class found a genuine defect of the library, repaired by 7e3c7a3 (merge_value handed out the alias's own
# empty token list, which then grew from one top-level element to the next): before the repair
# expand('cols[class=""].nv', {'snippets': {'cols': 'div[class]+section[class]'}}) gave class="nv" / class="nv nv", the definition in
# place (`div[class][class=""].nv+section[class][class=""].nv`) gives class="nv" on both.
EMPTY_CLASS_VALUE_ON_ALIAS = True
DATA_RUNS_EMPTY_CLASS = ['[class=""].a', "[class=''].a.b", '[class={}].a', '[class="" t=1].a']
_EMPTY_CLASS_DECL = ('[class=""]', "[class='']")
RUN_FORMS = [('alone', '%s', '%s'), ('in-parent', 'ul>%s', 'ul>%s'), ('repeat-in-parent', 'ul>%s*2', 'ul>(%s)*2'),
             ('next-to-plain', 'i+%s+b', 'i+(%s)+b')]
_flag_rot = [0]


def spelled_flag(on, rng=None):
    """A value of the flag with the truth value `on`: the bool itself one time in three (built-in tables: by rotation)."""
    fam = TRUTHY_FLAGS if on else FALSY_FLAGS
    if rng is not None:
        return (True if on else False) if rng.random() < 0.34 else copy.deepcopy(rng.choice(fam))
    _flag_rot[0] += 1
    return copy.deepcopy(fam[_flag_rot[0] % len(fam)])


def flag_kind(v):
    return 'bool' if isinstance(v, bool) else '%s:%s' % ('true' if v else 'false', type(v).__name__)


def declared_definition(rng, names, keys=()):
    """1-3 top-level elements; most of them DECLARE the same attribute without a value; children / text / marks as elsewhere."""
    n_top = rng.choice([1, 2, 2, 2, 3, 3])
    shared = rng.choice(DECLARED_EMPTY)
    d = ''
    shapes = []
    for i in range(n_top):
        s = rng.choice(names)
        r = rng.random()
        decl = shared if r < 0.7 else rng.choice(DECLARED_EMPTY) if r < 0.85 else rng.choice(DECLARED_FULL)
        if decl in _EMPTY_CLASS_DECL and s in keys and not EMPTY_CLASS_VALUE_ON_ALIAS:
            decl = '[class]'          # an inner alias with an explicitly empty class value: see EMPTY_CLASS_VALUE_ON_ALIAS
        shapes.append(decl)
        s += decl
        r = rng.random()
        if r < 0.15:
            s += '{%s}' % rng.choice(['hi', 'T'])
        elif r < 0.22:
            s += '/'
        elif r < 0.3:
            s += '*2'
        nested = 0
        if rng.random() < 0.25:
            s += '>' + rng.choice(PLAIN) + rng.choice(DECLARED_EMPTY + DECLARED_FULL)
            nested = 1
        d += s
        if i + 1 < n_top:
            d += '^' if nested else '+'
    return d, n_top, shapes


def declared_tables(ctx, n_tables):
    """[(cfg, table, {key: (tops, shapes)})] from an own random stream (the tables of the other passes stay what they were for a
    VERIF_SEED).  Acyclic: a definition mentions plain names and later keys only."""
    rng = random.Random(ctx.seed * 7919 + 15)
    out = []
    for _ in range(n_tables):
        keys = (USER_KEYS if rng.random() < 0.8 else ODD_KEYS)[:rng.randint(1, 3)]
        table, info = {}, {}
        for i, k in enumerate(keys):
            d, n_top, shapes = declared_definition(rng, PLAIN * 2 + keys[i + 1:] * 2, keys)
            table[k] = d
            info[k] = (n_top, shapes)
        cfg = {'snippets': table}
        on = rng.random() < 0.4
        if FLAG_SPELLINGS:
            if on or rng.random() < 0.3:
                cfg['options'] = {'output.reverseAttributes': spelled_flag(on, rng)}
        elif on:
            cfg['options'] = {'output.reverseAttributes': True}
        if rng.random() < 0.15:
            cfg['syntax'] = rng.choice(['xml', 'jsx', 'pug'])
        out.append((cfg, table, info, rng))
    return out


def flag_of(cfg):
    return (cfg.get('options') or {}).get('output.reverseAttributes', False)


def run_cases_for(key, d, cfg, kind, rng, decos, **extra):
    """One case per decoration: the run written on the alias (a drawn form) against the run written on every top-level element
    of the definition by the textual reader (after the element's own attributes; directly after the name when the flag is on)."""
    rev = bool(flag_of(cfg))
    out = []
    for deco in decos:
        dd = su.decorate_tops(d, deco, after_name=rev)
        if dd is None:
            continue
        forms = list(RUN_FORMS)
        name, fa, fb = rng.choice(forms)
        a, b = fa % (key + deco), fb % dd
        if name == 'alone' and su.ends_with_element(d) and rng.random() < 0.3:
            name, a, b = 'child', key + deco + '>b', dd + '>b'
        out.append(dict(extra, kind='%s:run:%s' % (kind, name), a=a, b=b, config=cfg, equal=True,
                        cover=['run:data:' + deco, 'run:flag:' + flag_kind(flag_of(cfg))]))
    return out


def declared_run_cases(ctx, n_tables):
    """Generated tables of class (1), their configuration's flag spelled as in class (2)."""
    cases = []
    if not DECLARED_ATTRS_AND_DATA_RUNS:
        return cases
    n = 0
    for cfg, table, info, rng in declared_tables(ctx, n_tables):
        bound = len(set(table.values()))
        for k, d in table.items():
            n += 1
            n_top, shapes = info[k]
            valueless_class = sum(1 for s in shapes if re.match(r'\[class( title| t)?\]|\[title class\]', s))
            cov = ['run:definition:top-level-elements:%d' % n_top,
                   'run:definition:elements-declaring-class-without-value:%d' % valueless_class]
            runs = DATA_RUNS + (DATA_RUNS_EMPTY_CLASS * 2 if EMPTY_CLASS_VALUE_ON_ALIAS else [])
            new = run_cases_for(k, d, cfg, 'user', rng, rng.sample(runs, 2), bound=bound, to_model=n % 4 == 0)
            for c in new:
                c['cover'] = c['cover'] + cov
            cases += new
            # a colliding single attribute under the spelled flag as well (override_oracle: the value written on the alias is carried)
            if COLLIDING_ALIAS_ATTRIBUTES and rng.random() < 0.5:
                for kind, a, b, deco in override_pairs(k, d, cfg, bool(flag_of(cfg)), rng, per_name=1):
                    if deco == '[class=nv]':
                        # one more class word is the business of the runs above (judged by alias = definition in place); the tree
                        # oracle's joined value does not say how an explicitly empty class value of the definition is joined
                        continue
                    cases.append({'kind': 'user:run:' + kind, 'a': a, 'b': b, 'config': cfg, 'equal': b is not None, 'bound': bound,
                                  'key': k, 'deco': deco, 'to_model': False, 'cover': ['run:flag:' + flag_kind(flag_of(cfg))]})
    return cases


def builtin_run_cases():
    """Every built-in key (html; the keys xsl / pug add or change): one run of alias data (rotating), a third of the keys with the flag
    on; and, class (2), every attribute name its definition gives a top-level element written on the alias again (one value,
    rotating through the shapes of COLLIDING_ALIAS_ATTRIBUTES) under a flag that is SPELLED (never the bool object)."""
    from emmet.snippets import markup_snippets, xsl_snippets, pug_snippets
    cases = []
    own = (('html', dict(markup_snippets)), ('xsl', dict(xsl_snippets)), ('pug', dict(pug_snippets)))
    rng = random.Random(1415)          # the same draws in every run
    shared = {}
    i = 0
    for syn, tbl in own:
        for k, d in tbl.items():
            if mentions_lorem_text(k + d):
                continue
            i += 1
            on = i % 3 == 0
            if FLAG_SPELLINGS:
                flag = spelled_flag(on)
                cfg = shared.setdefault((syn, repr(flag)), {'syntax': syn, 'options': {'output.reverseAttributes': flag}})
            else:
                cfg = shared.setdefault((syn, on), {'syntax': syn, 'options': {'output.reverseAttributes': True}} if on else {'syntax': syn})
            if DECLARED_ATTRS_AND_DATA_RUNS:
                cases += run_cases_for(k, d, cfg, 'builtin', rng, [DATA_RUNS[i % len(DATA_RUNS)]], bound=None, to_model=i % 4 == 0)
            if FLAG_SPELLINGS and COLLIDING_ALIAS_ATTRIBUTES:
                for kind, a, b, deco in override_pairs(k, d, cfg, on, None, per_name=1):
                    cases.append({'kind': 'builtin:flag-spelled:' + kind, 'a': a, 'b': b, 'config': cfg, 'equal': b is not None,
                                  'bound': None, 'key': k, 'deco': deco, 'to_model': i % 4 == 1,
                                  'cover': ['run:flag:' + flag_kind(flag)]})
    return cases


# ---------------------------------------------------------------- global-config LAYERS x call SEQUENCES
# emmet.expand(abbr, config, global_config): the caller's data comes in layers -- global_config[<type>] (all markup
# syntaxes), global_config[<syntax>] (one syntax), the user config of the call; each may carry `snippets`, `variables`,
# `options`; later layers win (README "global config" / the docstring of the JS original's resolveConfig; written down here,
# not read from emmet/config.py).  An editor plugin keeps ONE global_config object (its settings) and passes it to every
# call, whatever the syntax of the document.  "Alias = definition in its place" is a statement about the configuration the
# CALLER WROTE: the snippet table in effect for a call is  built-in < global[type] < global[syntax] < user config  of the
# data as written, on every call of a sequence -- whatever was expanded before with the same objects.
GLOBAL_LAYERS_AND_SEQUENCES = True      # generator class: several global-config layers at once x one global_config object over a sequence of calls
# the markup syntaxes of the Emmet documentation (hard-coded; emmet/config.py SYNTAXES is not read)
MARKUP_SYNTAXES = ['html', 'xml', 'xsl', 'jsx', 'pug', 'slim', 'haml', 'vue', 'svelte']
SESSION_KEYS = ['g1', 'g2', 'g3', 'g4', 'g5']          # fresh names: snippets only where a caller layer in effect defines them
# names that ARE built-in snippets of some syntax (xsl: choose tm inc call if var; all markup syntaxes: a bq btn fst) and plain
# elements elsewhere: a caller layer for one syntax may redefine them, the other syntaxes must keep their own reading
BUILTIN_NAMED_KEYS = ['choose', 'tm', 'inc', 'call', 'if', 'var', 'a', 'bq', 'btn', 'fst']
CALL_STYLES = ['expand', 'config-object', 'expand-markup']      # expand(abbr, dict, G) / expand(abbr, Config(dict, G)) / expand_markup(abbr, Config(dict, G))
LAYER_OPTIONS = [{'output.reverseAttributes': True}, {'output.reverseAttributes': False}, {'output.selfClosingStyle': 'xhtml'},
                 {'output.attributeQuotes': 'single'}, {'output.tagCase': 'upper'}, {'output.compactBoolean': True},
                 {'output.indent': '  '}]
_SESSION_STATE = {}


def layered(glob, user, syntax, key):
    """The caller's data for `key` in effect for one call: global[type] < global[syntax] < user config."""
    out = {}
    for src in (glob.get('markup') or {}, glob.get(syntax) or {}, user):
        out.update(src.get(key) or {})
    return out


def builtin_table(syntax):
    """Built-in table of a syntax: the markup table; xsl and pug add their own (Emmet documentation)."""
    from emmet.snippets import markup_snippets, xsl_snippets, pug_snippets
    t = dict(markup_snippets)
    if syntax == 'xsl':
        t.update(xsl_snippets)
    elif syntax == 'pug':
        t.update(pug_snippets)
    return t


def defining_layer(glob, user, syntax, name):
    if name in (user.get('snippets') or {}):
        return 'user-config'
    if name in ((glob.get(syntax) or {}).get('snippets') or {}):
        return 'global-syntax'
    if name in ((glob.get('markup') or {}).get('snippets') or {}):
        return 'global-type'
    return 'built-in' if name in builtin_table(syntax) else 'no-snippet'


def without_tables(cfg):
    return {k: v for k, v in cfg.items() if k != 'snippets'}


def equivalent_user_config(glob, user, syntax):
    """The same configuration written as ONE user config (for the extracted model, which takes a user config)."""
    c = {k: copy.deepcopy(v) for k, v in user.items() if k not in ('snippets', 'variables', 'options')}
    c['syntax'] = syntax
    for key in ('snippets', 'variables', 'options'):
        v = layered(glob, user, syntax, key)
        if v:
            c[key] = v
    return c


def rand_layer(rng, pool, tag, p_snip, later):
    layer = {}
    if rng.random() < p_snip:
        tbl = {}
        for k in rng.sample(pool, rng.randint(1, min(4, len(pool)))):
            # acyclic whatever the layering: a definition mentions plain names and LATER fresh keys only
            names = PLAIN + [g for g in later if k not in SESSION_KEYS or g > k] * 2
            d = rand_definition(rng, names)
            if rng.random() < 0.15:
                d += '+p[title=${who}]{${who}}'
            tbl[k] = d
        layer['snippets'] = tbl
    if rng.random() < 0.3:
        layer['variables'] = {'who': 'w-' + tag}
    if rng.random() < 0.25:
        layer['options'] = dict(rng.choice(LAYER_OPTIONS))
    return layer


def rand_session(rng):
    """{'global': the global config as the caller wrote it, 'user': the user config (without syntax), 'share_user': the user
    config is ONE dict object too (the caller sets its syntax before each call), 'calls': [call]}"""
    pool = rng.sample(SESSION_KEYS, rng.randint(2, 4)) + rng.sample(BUILTIN_NAMED_KEYS, rng.randint(1, 3))
    later = sorted(k for k in pool if k in SESSION_KEYS)
    glob = {}
    if rng.random() < 0.85:
        glob['markup'] = rand_layer(rng, pool, 'type', 0.9, later)
    own = rng.sample(MARKUP_SYNTAXES, rng.randint(1, 3))
    for syn in own:
        glob[syn] = rand_layer(rng, pool, syn, 0.9, later)
    if rng.random() < 0.25:          # layers of the OTHER abbreviation type: never in effect for a markup call
        glob[rng.choice(['stylesheet', 'css', 'scss'])] = {'snippets': {k: rand_definition(rng, PLAIN) for k in rng.sample(pool, 2)}}
    user = rand_layer(rng, pool, 'user', 0.4, later) if rng.random() < 0.6 else {}
    calls = []
    syntaxes = []
    for i in range(rng.randint(3, 6)):
        syn = rng.choice(own) if rng.random() < 0.55 else rng.choice(MARKUP_SYNTAXES)
        if i == 1 and syn == syntaxes[0]:
            syn = rng.choice([s for s in MARKUP_SYNTAXES if s != syn])          # the document syntax changes at least once
        syntaxes.append(syn)
        style = rng.choice(CALL_STYLES)
        others = [k for k in BUILTIN_NAMED_KEYS if k not in pool]
        for name in pool + rng.sample(others, 2) + [rng.choice(PLAIN)]:
            forms = [f[0] for f in effective_forms(glob, user, syn, name)]
            calls.append(derive_call(glob, user, i, syn, style, name, rng.choice(forms)))
    return {'global': glob, 'user': user, 'share_user': rng.random() < 0.5, 'calls': calls}


def effective_forms(glob, user, syntax, name):
    """alias_pairs of a name under the table in effect for one call, by the layers as the caller wrote them."""
    rev = bool(layered(glob, user, syntax, 'options').get('output.reverseAttributes'))
    table = builtin_table(syntax)
    table.update(layered(glob, user, syntax, 'snippets'))
    d = table.get(name)
    return [(kind, a, b, bool(d)) for kind, a, b in su.alias_pairs(name, d if d else name, rev)]


def derive_call(glob, user, step, syntax, style, name, form):
    """One call of a sequence: the alias form `a`, the definition-in-place form `b` (snippet: False = the name is a plain element
    for this call, `b` unused).  None when the form cannot be written for the definition in effect."""
    for kind, a, b, snip in effective_forms(glob, user, syntax, name):
        if kind == form:
            return {'step': step, 'syntax': syntax, 'style': style, 'name': name, 'form': kind, 'a': a, 'b': b, 'snippet': snip,
                    'layer': defining_layer(glob, user, syntax, name)}
    return None


def session_runner(session):
    """call(c, abbr) with the caller's objects of one session: ONE global_config object for every call (and ONE user config
    dict when share_user), as written at the start."""
    import emmet
    glob = copy.deepcopy(session['global'])
    user = copy.deepcopy(session['user'])

    def call(c, abbr):
        if session['share_user']:
            uc = user
            uc['syntax'] = c['syntax']
        else:
            uc = dict(copy.deepcopy(session['user']), syntax=c['syntax'])
        if c['style'] == 'expand':
            return emmet.expand(abbr, uc, glob)
        config = emmet.Config(uc, glob)
        return emmet.expand(abbr, config) if c['style'] == 'config-object' else emmet.expand_markup(abbr, config)
    return call


def fresh_call(session, c, abbr, tables=True):
    """The same call with fresh objects holding what the caller wrote (tables=False: the caller's snippet tables left out)."""
    import emmet
    glob = copy.deepcopy(session['global'])
    uc = dict(copy.deepcopy(session['user']), syntax=c['syntax'])
    if not tables:
        glob = {k: without_tables(v) for k, v in glob.items()}
        uc = without_tables(uc)
    if c['style'] == 'expand':
        return emmet.expand(abbr, uc, glob)
    config = emmet.Config(uc, glob)
    return emmet.expand(abbr, config) if c['style'] == 'config-object' else emmet.expand_markup(abbr, config)


def judge_session_call(session, c, call):
    """One call of a session with the session's objects (call = session_runner(session), all earlier calls made).
    Returns (why or None, result of the alias form, nesting depth)."""
    ra, depth = expand_with_depth(c['a'], None, lambda abbr: call(c, abbr))
    where = 'syntax %r, %s, name %r (%s)' % (c['syntax'], c['style'], c['name'], c['layer'])
    if ra[0] == 'recursion':
        return where + ': resolution does not terminate (RecursionError)', ra, depth
    if ra[0] == 'too-deep':
        return where + ': snippet nesting depth %d exceeds the number of distinct snippets of the configuration' % depth, ra, depth
    if ra[0] == 'skipped':
        return None, ra, depth
    if ra[0] in ('timeout', 'hang', 'memory'):
        return where + ': resolution did not finish within %d s of CPU time / the memory bound (%s; nesting depth reached %d)' % (
            TIME_LIMIT, ra[0], depth), ra, depth
    if ra[0] != 'ok':
        return where + ': expand(alias form) raised %r' % (ra,), ra, depth
    if c['snippet']:
        rb = route_call(lambda abbr: fresh_call(session, c, abbr), c['b'])
        if rb != ra and rb[0] != 'skipped':
            return ('%s: with the caller\'s global_config object the alias form gives %r; its definition by the layers the caller wrote, in its '
                    'place (%r), gives %r' % (where, ra[1][:300], c['b'], str(rb[1] if rb[0] == 'ok' else rb)[:300])), ra, depth
    else:
        rb = route_call(lambda abbr: fresh_call(session, c, abbr, tables=False), c['a'])
        if rb != ra and rb[0] != 'skipped':
            return ('%s: %r is no snippet of this syntax by the layers the caller wrote (a plain element: %r), but with the caller\'s '
                    'global_config object it expands to %r' % (where, c['name'], str(rb[1] if rb[0] == 'ok' else rb)[:300], ra[1][:300])), ra, depth
    return None, ra, depth


def step_kind(calls, c):
    """The syntax of this step of the sequence against the steps before it."""
    before = []
    for e in calls:
        if e['step'] >= c['step']:
            break
        if not before or before[-1] != e['syntax']:
            before.append(e['syntax'])
    return 'first-step' if not before else 'same-as-previous-step' if before[-1] == c['syntax'] else \
        'back-to-an-earlier-syntax' if c['syntax'] in before else 'new-syntax'


def session_cases(ctx, n_sessions):
    cases = []
    if not GLOBAL_LAYERS_AND_SEQUENCES:
        return cases
    for _ in range(n_sessions):
        s = rand_session(ctx.rng)
        layers = [k for k in s['global'] if 'snippets' in s['global'][k]]
        ctx.cover('C14:session:global-layers-with-snippets:%s' % ('type+syntax' if 'markup' in layers and len(layers) > 1 else
                                                                  'type' if 'markup' in layers else 'syntax' if layers else 'none'))
        ctx.cover('C14:session:user-config-object-%s' % ('shared' if s['share_user'] else 'fresh-per-call'))
        ctx.cover('C14:session:distinct-syntaxes:%d' % len(set(c['syntax'] for c in s['calls'])))
        ctx.sample({'session_global_config': s['global'], 'user_config': s['user'], 'user_config_object_shared': s['share_user'],
                    'first_calls': [[c['style'], c['syntax'], c['a'], c['b'] if c['snippet'] else 'plain element', c['layer']] for c in s['calls'][:4]]}, limit=2)
        for i, c in enumerate(s['calls']):
            elsewhere = any(c['name'] in (v.get('snippets') or {}) for k, v in s['global'].items() if k not in ('markup', c['syntax']))
            cases.append({'kind': 'session:%s:%s' % (c['layer'], c['form']), 'a': c['a'], 'b': c['b'], 'equal': c['snippet'], 'bound': None,
                          'config': equivalent_user_config(s['global'], s['user'], c['syntax']), 'session': s, 'index': i,
                          'to_model': i % 3 == 0,          # the oracle judges every call; one in three also goes through the extracted model
                          'session_cover': ['call-style:' + c['style'], 'syntax:' + c['syntax'],
                                            'defined-by:%s%s' % (c['layer'], '+another-syntax-layer' if elsewhere else ''),
                                            'syntax-of-the-step:' + step_kind(s['calls'], c)]})
    return cases


def check_session_case(c):
    s, i = c['session'], c['index']
    ent = _SESSION_STATE.get('current')
    if ent is None or ent[0] is not s or ent[1] != i:
        # not the next call of the running session: start the sequence again and make the earlier calls
        call = session_runner(s)
        for e in s['calls'][:i]:
            route_call(lambda abbr: call(e, abbr), e['a'])
    else:
        call = ent[2]
    r = judge_session_call(s, s['calls'][i], call)
    _SESSION_STATE['current'] = (s, i + 1, call)
    return r


def session_fails(s, calls):
    """The calls in a fresh process state (fresh caller objects): does the LAST one fail?"""
    call = session_runner(s)
    for e in calls[:-1]:
        route_call(lambda abbr: call(e, abbr), e['a'])
    return judge_session_call(s, calls[-1], call)[0]


_MINIMISED = [0]


def session_replay(c, why):
    """Replay object of a failing session call: the caller's data and the shortest call sequence found that still fails
    (the failing call alone, one earlier call + the failing call, else everything up to it)."""
    s, i = c['session'], c['index']
    calls = s['calls'][:i + 1]
    _MINIMISED[0] += 1
    if _MINIMISED[0] <= 12:
        last = calls[-1]
        tried = set()
        for cand in [[]] + [[e] for e in calls[:-1]]:
            k = tuple((e['syntax'], e['style']) for e in cand)
            if k in tried:
                continue
            tried.add(k)
            if session_fails(s, cand + [last]):
                calls = cand + [last]
                break
        s, calls = shrink_session(s, calls)
    return {'component': 'C14-session', 'global': s['global'], 'user': s['user'], 'share_user': s['share_user'], 'calls': calls,
            'abbreviation': c['a'], 'why': session_fails(s, calls) or why}


def shrink_session(s, calls):
    """Greedy: leave out layers, then parts of layers, then single snippets / variables / options of the caller's data while the
    last call (re-derived for the smaller data) still fails."""
    def attempts(glob, user):
        for k in list(glob):
            yield ('global', k, None, None)
        for where, d in [('global', glob)] + [('user', {'': user})]:
            for k in list(d):
                for part in list(d[k]):
                    yield (where, k, part, None)
        for where, d in [('global', glob)] + [('user', {'': user})]:
            for k in list(d):
                for part in list(d[k]):
                    for x in list(d[k][part]):
                        yield (where, k, part, x)
    changed = True
    rounds = 0
    while changed and rounds < 3:
        changed = False
        rounds += 1
        for where, k, part, x in list(attempts(s['global'], s['user'])):
            glob, user = copy.deepcopy(s['global']), copy.deepcopy(s['user'])
            tgt = glob if where == 'global' else {'': user}
            try:
                if part is None:
                    del tgt[k]
                elif x is None:
                    del tgt[k][part]
                else:
                    del tgt[k][part][x]
            except KeyError:
                continue
            if where == 'user' and part is None:
                continue
            cs = [derive_call(glob, user, e['step'], e['syntax'], e['style'], e['name'], e['form']) for e in calls]
            if any(e is None for e in cs):
                continue
            s2 = {'global': glob, 'user': user, 'share_user': s['share_user'], 'calls': cs}
            if session_fails(s2, cs):
                s, calls, changed = s2, cs, True
    return s, calls


def replay_session(rp):
    s = {'global': rp['global'], 'user': rp['user'], 'share_user': rp['share_user'], 'calls': rp['calls']}
    call = session_runner(s)
    print('global_config (ONE object for all calls): %r\nuser config%s: %r' % (
        rp['global'], ' (ONE object, syntax set before each call)' if rp['share_user'] else '', rp['user']))
    bad = 0
    for e in rp['calls']:
        why, ra, depth = judge_session_call(s, e, call)
        print('call %s %r syntax=%s -> %r\n  property oracle: %s' % (e['style'], e['a'], e['syntax'], ra, why or 'holds'))
        bad += bool(why)
    return 1 if bad else 0


def corpus_cases():
    d = os.path.join(VERIF, 'corpus', 'C14')
    out = []
    if os.path.isdir(d):
        for fn in sorted(os.listdir(d)):
            if fn.endswith('.json'):
                with open(os.path.join(d, fn)) as f:
                    out.append(json.load(f))
    return out


def check_case(c):
    """The property oracle on the implementation.  Returns (why or None, result of a, depth)."""
    if 'session' in c:
        return check_session_case(c)
    route = c.get('route') or 'expand'
    call = None if route == 'expand' else route_runner(route, c['config'])
    rb = None
    if route in DEFINITION_FIRST and c.get('equal') and c.get('b') is not None:
        # under the same observer: this form uses the snippet table as well (termination and the nesting bound hold for it too)
        rb, depth_b = expand_with_depth(c['b'], c['config'], call)
        if rb[0] == 'skipped':
            return None, rb, depth_b
        if rb[0] in ('recursion', 'too-deep', 'timeout', 'hang', 'memory'):
            return ('along the call route %r, definition-in-place form %r: resolution does not terminate within the bound (%s, nesting depth '
                    'reached %d)' % (route, c['b'], rb[0], depth_b)), rb, depth_b
    ra, depth = expand_with_depth(c['a'], c['config'], call)
    if ra[0] == 'skipped':
        return None, ra, depth
    if ra[0] == 'recursion':
        return 'resolution does not terminate (RecursionError)', ra, depth
    if ra[0] == 'too-deep':
        return 'snippet nesting depth %d exceeds the number of distinct snippets of the configuration' % depth, ra, depth
    if ra[0] in ('timeout', 'hang'):
        return 'resolution did not finish within %d s of CPU time (nesting depth reached %d)' % (TIME_LIMIT, depth), ra, depth
    if ra[0] == 'memory':
        return 'resolution did not finish: the call asked for more than %d MB of memory (nesting depth reached %d)' % (
            ADDRESS_SPACE_HEADROOM >> 20, depth), ra, depth
    if ra[0] != 'ok':
        return 'expand(alias form) raised %r' % (ra,), ra, depth
    if c.get('bound') is not None and depth > c['bound']:
        return 'snippet nesting depth %d exceeds the number of snippets %d' % (depth, c['bound']), ra, depth
    if c.get('equal') and c.get('b') is not None:
        if rb is None:
            rb = impl_expand(c['b'], c['config']) if call is None else route_call(call, c['b'])
        if rb != ra and rb[0] != 'skipped':
            return '%salias form gives %r, definition in its place (%r) gives %r' % (
                '' if call is None else 'along the call route %r: ' % route, ra[1][:300], c['b'], str(rb[1] if rb[0] == 'ok' else rb)[:300]), ra, depth
    if c['kind'].endswith('repeat-in-parent'):
        # the repeater written on the alias is carried by every top-level node of the definition
        t = tree_of(c['a'], c['config'])
        if t[0] == 'ok':
            tops = [n for n in t[1] if n[0] == 1]
            bad = [n[1] for n in tops if n[3] is None or n[3][0] != 2]
            if bad or not tops:
                return 'nodes %r that replace the alias in `ul>KEY*2` do not carry the alias repeater' % (bad[:4],), ra, depth
        # ... also when the definition has repeaters of its own (C14_alias_repeat: the alias' repeater replaces them):
        # in `ul>KEY*3` copy i of the alias is replaced by the definition's top-level nodes, each with repeat (3, i)
        if c['a'].endswith('*2'):
            a3 = c['a'][:-1] + '3'
            t = tree_of(a3, c['config'])
            if t[0] == 'ok':
                reps = [n[3] for n in t[1] if n[0] == 1]
                m = len(reps) // 3
                want = [(3, i, False) for i in range(3) for _ in range(m)]
                if len(reps) % 3 or [tuple(r) if r else r for r in reps] != want:
                    return ('the nodes that replace the three copies of the alias in %r carry the repeaters %r, not (3,0) (3,1) (3,2) on '
                            'each copy\'s top-level nodes' % (a3, reps[:9])), ra, depth
    if c.get('on_top') and c.get('key') is not None and not mentions_lorem_text(c['key'] + c['a']):
        why = combined_oracle(c['key'], c['on_top'], c['config'])
        if why:
            return why + '; expand(%r) gives %r' % (c['a'], ra[1][:200]), ra, depth
    if c.get('deco') is not None and c.get('key') is not None:
        why = override_oracle(c['key'], c['deco'], c['config'])
        if why:
            return why + '; expand gives %r' % (ra[1][:200],), ra, depth
    return None, ra, depth


def report_pending_hangs(ctx):
    """Implementation calls made outside check_case (by a generator, by a tree oracle, by the resolver oracle) that hit the
    per-call limit: 'resolution terminates' fails on that input."""
    while _HANGS['pending']:
        abbr, cfg, where = _HANGS['pending'].pop(0)
        why = '%s did not finish (RecursionError, or no result within %d s of CPU time / the memory bound): resolution does not terminate' % (where, TREE_LIMIT_S)
        ctx.property_failure('C14:%s|%s' % (abbr, canon_cfg(cfg)), 'C14 expand(%r, %s): %s' % (abbr, canon_cfg(cfg), why),
                             {'component': 'C14', 'kind': 'termination:' + where, 'a': abbr, 'b': None, 'config': cfg, 'equal': False,
                              'bound': None, 'termination_of': where, 'why': why})


def run(ctx):
    import time as _t
    _t0 = [_t.time()]

    def lap(name):
        if os.environ.get('C14_TIMING'):
            ctx.say('TIMING %s %.1fs' % (name, _t.time() - _t0[0]))
        _t0[0] = _t.time()
    ok = ctx.build(['props/C14.vo', 'run/MarkupRun.vo', 'run/AttrRun.vo', 'run/SnipRun.vo'])
    if ok:
        ctx.obligations('props/C14.v')
    lap('build+obligations')
    model = ctx.model('markup') if ok else None
    ctx.cov['rule'] = ('every key of the html/xsl/pug tables: alias alone, `ul>KEY*2`, `KEY.extra[t=v]`, `KEY>b` against the same '
                       'abbreviation with the definition written in its place by an independent textual reader (harness/snippet_util.py), '
                       'with and without reverseAttributes; random user tables of 1-6 snippets (multi-node definitions, children, '
                       'repeaters, text, cycles in 60% of the tables): termination, nesting depth of resolve() <= number of distinct '
                       'definitions (observed by wrapping the parse call), alias = definition for every key whose definition does not '
                       'reach itself (the hypothesis self_free of C14_alias_eq_definition; the extracted predicates self_free / acyclic_from / '
                       'acyclic_table / mentions / key_text are compared with a textual walk and a walk on the implementation\'s parser); '
                       'the decorated-alias theorems (attributes / children below find_deepest / repeater / text / self-closing applied to the resolved '
                       'definition; bare alias = definition for definitions that do not reach themselves) as an oracle on resolve_snippets '
                       '(trees before the transform pass) for every key, the same trees through the extracted model; '
                       'COLLIDING alias attributes: for every built-in key (html; the keys xsl / pug add) and one name per user-table key, '
                       'every attribute name the bare alias gives a top-level element is written on the alias again, once with a value of the '
                       'empty family ("" / \'\' / no value / boolean mark without value / {} / "" next to a fresh attribute) and once of the non-empty '
                       'family (raw / quoted with a space / single-quoted / after a fresh attribute / {expression} / #id shorthand; class: one more '
                       'word), a third of the keys under reverseAttributes: the final tree of KEY<deco> must be the final tree of KEY with, on every '
                       'top-level node, the value written on the alias in place of the definition\'s (name, value, boolean, implied compared; '
                       'position of the definition\'s attribute, alias attributes first when reversed; written value read off the plain element '
                       'zzq<deco>), and expand(KEY<deco>) = expand(definition with <deco> written on its top-level elements); skipped: top-level '
                       'text nodes, label[for] / xsl:variable[select] which addon steps drop; '
                       'CALL ROUTES x WRAPPED TEXT: every built-in key (html; the keys xsl / pug add) twice and every key of every user table once, '
                       'each time with a drawn shape, a drawn config[\'text\'] and a drawn call route.  Shapes (the alias is NOT the element that receives '
                       'the wrapped text, so the definition in its place is the definition in parentheses): KEY+p, ul>KEY+li, div>KEY^span, KEY*2+em, KEY+a '
                       '(link target), ul>KEY+li* and q*+KEY (target repeated once per line), i+KEY+b>u, KEY>b for definitions that end in an element.  '
                       'Texts: none, word, two words, URL, e-mail, two lines, padded, text with ${1:x} $# [a]{b}, lists of 1-3 lines with blank and padded '
                       'lines, list of URLs, list of blank lines only (not with the per-line shapes: no line, no copy of the target).  Routes, all written '
                       'with the names the package exports: expand(abbr, dict); expand(abbr, Config); expand_markup(abbr, Config); '
                       'stringify_markup(markup_abbreviation(abbr, config), config); the two-step use parse_markup_abbreviation(abbr, parser options of the '
                       'config) then markup_abbreviation(tree, config) then stringify_markup; ONE Config object shared by both forms (alias first / definition '
                       'first / both parsed first); the user table given through global_config[type] / global_config[syntax] instead of the user config.  '
                       'Oracle: along the same route, output of the alias form = output of the definition-in-place form (keys whose definition does not reach '
                       'itself), termination and nesting bound as above; the route\'s output of the alias form is also compared with the extracted model of '
                       'expand() for the same configuration.  Text that is given but false (\'\' / []) is generated only when EMPTY_WRAP_TEXT is on '
                       '(off: known genuine difference, definitions of aliases absorb the empty text); '
                       'GLOBAL-CONFIG LAYERS x CALL SEQUENCES: sessions of an editor that keeps ONE global_config object (in half of the sessions ONE '
                       'user config dict too, its syntax set before each call) and passes it to 3-6 steps of calls whose syntax changes at least once '
                       '(html xml xsl jsx pug slim haml vue svelte; new syntax / same as before / back to an earlier one).  The global config has several '
                       'layers AT ONCE: global[markup] (85%), global[<syntax>] for 1-3 syntaxes, sometimes layers of the other abbreviation type '
                       '(stylesheet / css / scss, never in effect), each with snippets (90%), variables, options (reverseAttributes on/off, xhtml closing, '
                       'single quotes, upper-case tags, compact booleans, indent); the user config adds its own table / variables / options in a part of the '
                       'sessions.  Keys are drawn from one pool per session so that the layers overlap: fresh names g1..g5 and names that are built-in '
                       'snippets of some syntax (choose tm inc call if var: xsl; a bq btn fst: all); definitions are generated as for the user tables '
                       '(acyclic under every layering; some use ${who}).  Each step probes EVERY key of the pool, two more built-in names and a plain name, '
                       'each in a drawn form (alone / ul>KEY*2 / KEY.extra[t=v] / KEY>b) and along a drawn call style (expand(abbr, dict, G); '
                       'expand(abbr, Config(dict, G)); expand_markup(abbr, Config(dict, G))).  Oracle (harness-side layering built-in < global[type] < '
                       'global[syntax] < user config of the data AS THE CALLER WROTE IT, hard-coded from the documentation): the alias form with the '
                       'session\'s objects = the form with the definition in effect written in its place, expanded with fresh copies of the caller\'s data; a name '
                       'that no layer in effect (and no built-in table of the syntax) defines = the same form expanded with all the caller\'s tables left '
                       'out (a plain element); termination and nesting bound as above.  A failing call is reported with the shortest sequence found '
                       '(failing call alone / one earlier call + it / the whole prefix) and the caller\'s data shrunk greedily; the replay file repeats the '
                       'sequence in a fresh process.  The extracted model takes one user config: one session call in three is also compared with the model under the '
                       'equivalent single user config (layers merged by the harness); '
                       'SEVERAL KINDS OF ALIAS DATA AT ONCE: the statement names five kinds of data written on the alias (attributes, text, repeater, '
                       'self-closing mark, children); every subset of two or more kinds (26) is a class: every built-in key (html; the keys xsl / pug add) '
                       'with two subsets (rotating; a quarter of the keys under reverseAttributes), every key of every user table with one drawn subset, alias '
                       'text drawn from `T x`, `T`, `a.b`, `${1:f} y`: KEY.extra[t=v]{text}/ , ul>KEY...*2 , ...>b.  Oracle: (1) expand(alias form) = '
                       'expand(definition with the same data written in its place: attributes / text in place of the element\'s own / mark on every top-level '
                       'element by the textual reader snippet_util.decorate_tops_combined, the repeater on the definition in parentheses, the child below '
                       'the textually last element), for keys whose definition does not reach itself; (2) on the final tree of markup.parse for the data that '
                       'sits on the top-level elements: every top-level node of KEY<data> carries the text, the mark and the attributes written on the alias '
                       '(read off the plain element zzq<data>), everything else as in the tree of the bare KEY -- this also judges aliases whose definition '
                       'starts with their own name (a: a[href]), where the in-place form goes through the alias again; attributes that addon steps drop '
                       'once an element has text (xsl:variable / xsl:with-param select, label for) are left out; (3) the decorated-alias theorems COMPOSED, on '
                       'resolve_snippets, one rotating subset per key in the resolver oracle, the same trees through the extracted model.  One in four (built-in) / '
                       'one in five (user tables) of these cases also goes through the extracted model of expand(); '
                       'DECLARED-ONLY ATTRIBUTES x RUNS OF ALIAS DATA x FLAG SPELLINGS: 160 (thorough 1600) more generated tables (own random stream) of 1-3 '
                       'acyclic snippets whose definitions have 1-3 top-level elements that DECLARE an attribute without giving it a value, most of them the '
                       'same one on every element ([class] [class=""] [class=\'\'] [title] [t] [t=""] [t.] [class title] [title class] [id] [class t]; now and then a '
                       'valued one: .c [class=c] [class="c d"] [t=1] [title=x] #i .c[class] [class].c), with text / self-closing mark / *2 / a child that declares '
                       'attributes too, plain names and later keys as element names; every key with two drawn RUNS of alias data in which a name occurs more than '
                       'once (.a.b  .a.b.c  .a[class=b]  [class=a].b  [class="a b"].c  #i.a.b  .a#i.b  [t=1][t=2]  [t=1 t=2]  [title=x].a.b  .a.b[t]  '
                       '[t=1 u=2][t=3]  #i#j  [class=a][class=b][class=c]  .a.b[class]  [title=x][title=y]  .a.b[title=x t=2]  [class=a class=b]) in a drawn form '
                       '(KEY<run>, ul>KEY<run>, ul>KEY<run>*2, i+KEY<run>+b, KEY<run>>b), and half of the keys with one colliding attribute as above; every built-in '
                       'key (html; the keys xsl / pug add) with one run (rotating).  Oracle: expand(alias form) = expand(definition with the same run written on every '
                       'top-level element by the textual reader); termination and nesting bound as above.  FLAG SPELLINGS: output.reverseAttributes is given with the '
                       'truth value meant but not as the bool object -- on: 1 1.0 \'yes\' \'true\' 2 [1]; off: 0 None \'\' 0.0 [] -- in two thirds of these tables that '
                       'set it (40% on, 30% of the others spelled off) and for EVERY built-in key (a third on), each built-in key also with every attribute name its '
                       'definition gives a top-level element written on the alias again (one value, rotating through the empty / non-empty shapes above).  The harness '
                       'reads the flag as Python does, bool(value): the definition in its place carries the alias data directly after the element name when it is true; '
                       'the final-tree oracle of the colliding attributes (value written on the alias is the one every top-level element carries) applies unchanged.  The '
                       'extracted model takes the flag as a bool (harness/markup_util.enc_config encodes bool(value)); one in four of these cases goes through it, the '
                       'colliding ones of the generated tables through the oracle only.  Also generated (EMPTY_CLASS_VALUE_ON_ALIAS; this class found the defect repaired by 7e3c7a3): '
                       'an alias that carries an explicitly empty class value followed by more class data (KEY[class=""].a, KEY[class={}].a, a definition '
                       'writing [class=""] on an inner alias); '
                       'TERMINATION IS AN OUTCOME: every call into the implementation -- expand along every route, markup.parse for final trees (also the '
                       'calls the GENERATORS make to see where a collision can be written), resolve_snippets in the resolver oracle -- runs under a CPU-time '
                       'limit of 10 s that fires a BaseException (cannot be swallowed by `except Exception`) and under an address-space bound (RLIMIT_AS = size '
                       'at the first call + 1.5 GB, so a resolution whose node list doubles per round ends in MemoryError, not in the OOM killer); a call that '
                       'hits either limit is a violation of `resolution terminates` reported with its abbreviation and configuration as replay; after 3 such '
                       'calls (or 40 calls that end in RecursionError / beyond the nesting bound) no further implementation calls are made (outcome skipped, '
                       'no judgement) so that the run ends in time; '
                       'parse_snippets multi-key expansion; every alias form also through the extracted model. '
                       'non-trivial = decorated alias or user table; distinct by abbreviation + config.')
    multikey_check(ctx)
    cases = corpus_cases()
    n_corpus = len(cases)
    cases += builtin_cases()
    tables = []
    cases += user_cases(ctx, 400 if ctx.tier == 'quick' else 4000, tables)
    cases += variable_round_cases()
    cases += user_wrap_cases(ctx, tables)
    cases += user_combined_cases(ctx, tables)
    cases += session_cases(ctx, 90 if ctx.tier == 'quick' else 900)
    cases += builtin_run_cases()
    cases += declared_run_cases(ctx, 160 if ctx.tier == 'quick' else 1600)
    lap('generate')
    wires, idx, impl = [], [], []
    maxdepth = 0
    for k, c in enumerate(cases):
        if not budget_left():
            ctx.cover('C14:skipped-after-timeouts')
            impl.append(('skipped',))
            continue
        why, ra, depth = check_case(c)
        maxdepth = max(maxdepth, depth)
        impl.append(ra)
        ctx.count_eval()
        ctx.cover('C14:' + c['kind'])
        ctx.cover('C14:depth:%d' % depth)
        if 'route' in c:
            ctx.cover('C14:route:%s' % c['route'])
            ctx.cover('C14:wrapped-text:%s' % c['text_kind'])
            ctx.cover('C14:route-x-text:%s:%s' % (c['route'], 'text' if c['text_kind'] in ('string', 'list') else 'no-text'))
        if c['kind'] not in ('builtin:alone',):
            ctx.nontrivial((c['a'], canon_cfg(c['config'])))
        for b in c.get('session_cover') or ():
            ctx.cover('C14:session-call:' + b)
        for b in c.get('cover') or ():
            ctx.cover('C14:' + b)
        if why and 'session' in c:
            rp = session_replay(c, why)
            ctx.property_failure('C14:session:%s|%s|%s' % (c['a'], canon_cfg(c['config']), canon_cfg(c['session']['global'])),
                                 'C14 call sequence %s with ONE global_config object %s%s: %s' % (
                                     ' ; '.join('%s %r' % (e['syntax'], e['a']) for e in rp['calls']), canon_cfg(rp['global']),
                                     ', user config %s' % canon_cfg(rp['user']) if rp['user'] else '', rp['why']), rp)
        elif why:
            ctx.property_failure('C14:%s|%s' % (c['a'], canon_cfg(c['config'])),
                                 'C14 expand(%r, %s): %s' % (c['a'], canon_cfg(c['config']), why),
                                 dict(c, component='C14', impl=repr(ra)[:500], why=why))
        if model is not None and c.get('to_model', True):
            try:
                wires.append([2] + enc_config(c['config']) + enc_str(c['a']))
                idx.append(k)
            except NotModelled:
                ctx.cover('C14:not-modelled')
    lap('impl+oracle')
    report_pending_hangs(ctx)
    dis = 0
    if wires:
        outs = model.run(wires)
        for k, w in zip(idx, outs):
            mo = decode_expand(w)
            if mo != impl[k] and impl[k][0] not in NO_RESULT:
                dis += 1
                c = cases[k]
                if dis <= 5:
                    ctx.say('DISAGREE C14 %r cfg=%s\n  impl  %r\n  model %r' % (c['a'], canon_cfg(c['config']), str(impl[k])[:300], str(mo)[:300]))
                    ctx.broken.append({'kind': 'correspondence', 'file': 'markup-C14', 'input': c['a'], 'config': canon_cfg(c['config']),
                                       'impl': repr(impl[k])[:300], 'model': repr(mo)[:300]})
    ctx.cov['correspondence']['markup_C14'] = {'cases': len(wires), 'disagreements': dis}
    lap('markup model')
    if ok:
        au.compare_trees(ctx, 'C14', [(c['a'], c['config']) for c, r in zip(cases, impl) if r[0] == 'ok' and c.get('to_model', True)])
        from emmet.snippets import markup_snippets, xsl_snippets, pug_snippets
        builtin_tables = [({'syntax': 'html'}, dict(markup_snippets)),
                          ({'syntax': 'xsl'}, {**markup_snippets, **xsl_snippets}),
                          ({'syntax': 'pug'}, {**markup_snippets, **pug_snippets}),
                          ({'syntax': 'html', 'options': {'output.reverseAttributes': True}}, dict(markup_snippets))]
        lap('tree compare')
        acyclicity_tie(ctx, tables + builtin_tables[:3])
        lap('acyclicity tie')
        # the resolver oracle: html table in both attribute orders, the keys xsl / pug add or override, and the user tables
        resolved_tie(ctx, tables[:250 if ctx.tier == 'quick' else 2000] +
                     [builtin_tables[0], builtin_tables[3], ({'syntax': 'xsl'}, dict(xsl_snippets)), ({'syntax': 'pug'}, dict(pug_snippets))])
        lap('resolved tie')
    report_pending_hangs(ctx)
    ctx.cov['corpus_cases'] = n_corpus
    ctx.cov['max_resolve_depth_seen'] = maxdepth
    for c, r in [(c, r) for c, r in zip(cases, impl) if 'session' not in c][-40:-36]:
        ctx.sample({'abbr': c['a'], 'definition_form': c['b'], 'config': c['config'], 'output': r[1][:160] if r[0] == 'ok' else r})


def replay(ctx, obj):
    rp = obj.get('replay', {})
    if rp.get('component') == 'C14-session':
        return replay_session(rp)
    if 'a' not in rp:
        if rp.get('component') == 'C14-multikey':
            class _C:
                failed = False

                def count_eval(self, n=1):
                    pass

                def property_failure(self, *a):
                    self.failed = True
            c = _C()
            multikey_check(c)
            print('parse_snippets multi-key check: %s' % ('fails' if c.failed else 'holds'))
            return 1 if c.failed else 0
        if rp.get('component') == 'C14-resolved':
            fails, _ = resolved_case(rp['key'], rp['definition'], rp['config'], rp['reverse'], rp['self_free'],
                                     [tuple(x) for x in rp.get('combos') or ()])
            for form, abbr, why in fails:
                print('property oracle (resolver): %s' % why)
            if not fails:
                print('property oracle (resolver): holds for key %r' % rp['key'])
            return 1 if fails else 0
        print('replay names a broken obligation, no input: %s' % str(rp)[:300])
        return 1
    for pa, pcfg in rp.get('prelude') or []:
        print('earlier call of the sequence: expand(%r, %r) -> %r' % (pa, pcfg, impl_expand(pa, pcfg)))
    why, ra, depth = check_case(rp)
    if not why and rp.get('termination_of'):
        r = tree_of(rp['a'], rp['config']) if rp['termination_of'] == 'markup.parse' else impl_resolved(rp['a'], rp['config'])
        if r[0] in ('hang', 'memory', 'recursion'):
            why = '%s(%r) does not terminate: %r' % (rp['termination_of'], rp['a'], r)
    print('expand(%r, %r)%s -> %r (depth %d)\nproperty oracle: %s' % (
        rp['a'], rp['config'], ' along the call route %r' % rp['route'] if rp.get('route') else '', ra, depth, why or 'holds'))
    return 1 if why else 0
