"""C18 -- Tokenizers are lossless: token spans tile the abbreviation."""
import itertools

from common import enc_str, Reader
import c18_css
import c18_seq
import c18_ws

MARKUP_FRAGS = ['${', '${1', '${1:', '}', '{', '[', ']', '(', ')', '$#', '$$@-3', '*3', '*', '\\', '"', "'", 'ab', 'div',
                '1', '/', ' ', '=', '.c', '#i', '>', '+', '^']   # fragment vocabulary of the random mixes (gen_markup, c18_ws)
MARKUP_ALPHABET = list('aA1$#.*>+^()[]{}="\'/\\-@:! ') + ['\n', 'é', '٣', ' ', '%', '²']
OPS = {'child': 0, 'sibling': 1, 'climb': 2, 'class': 3, 'id': 4, 'close': 5, 'equal': 6}
BCTX = {'group': 0, 'attribute': 1, 'expression': 2}


def impl_markup(s):
    """Canonical observable of emmet.abbreviation.tokenizer.tokenize."""
    from emmet.abbreviation.tokenizer import tokenize
    from emmet.scanner import ScannerException
    try:
        toks = tokenize(s)
    except ScannerException as e:
        return ('err', e.pos)
    except Exception as e:  # internal error: never equal to a model result
        return ('internal', type(e).__name__)
    return ('ok', canon_markup_tokens(toks))


def canon_markup_tokens(toks):
    """Canonical [(kind, start, end)] of a list of markup token objects."""
    out = []
    for t in toks:
        ty = t.type
        if ty == 'Literal':
            k = ('Literal', t.value)
        elif ty == 'WhiteSpace':
            k = ('WhiteSpace', t.value)
        elif ty == 'Quote':
            k = ('Quote', bool(t.single))
        elif ty == 'Bracket':
            k = ('Bracket', bool(t.open), BCTX.get(t.context, 9))
        elif ty == 'Operator':
            k = ('Operator', OPS.get(t.operator, 7))
        elif ty == 'Repeater':
            k = ('Repeater', t.count, t.value, bool(t.implicit))
        elif ty == 'RepeaterNumber':
            k = ('RepeaterNumber', t.size, bool(t.reverse), t.base, t.parent)
        elif ty == 'RepeaterPlaceholder':
            k = ('RepeaterPlaceholder',)
        elif ty == 'Field':
            k = ('Field', t.name, t.index)
        else:
            k = ('?', ty)
        out.append((k, t.start, t.end))
    return out


def decode_markup(w):
    r = Reader(w)
    tag = r.int()
    if tag == 1:
        return ('err', r.int())
    if tag != 0:
        return ('bad', w)
    out = []
    for _ in range(r.int()):
        kt = r.int()
        if kt == 0:
            k = ('Literal', r.str())
        elif kt == 1:
            k = ('WhiteSpace', r.str())
        elif kt == 2:
            k = ('Quote', r.bool())
        elif kt == 3:
            k = ('Bracket', r.bool(), r.int())
        elif kt == 4:
            k = ('Operator', r.int())
        elif kt == 5:
            k = ('Repeater', r.int(), r.int(), r.bool())
        elif kt == 6:
            k = ('RepeaterNumber', r.int(), r.bool(), r.int(), r.int())
        elif kt == 7:
            k = ('RepeaterPlaceholder',)
        elif kt == 8:
            k = ('Field', r.str(), r.opt(r.int))
        else:
            k = ('?', kt)
        out.append((k, r.int(), r.int()))
    return ('ok', out)


def tiling_oracle(s, res):
    """The property itself, on an implementation result. Returns None or a description."""
    if res[0] == 'internal':
        return 'tokenizer raised %s' % res[1]
    if res[0] == 'err':
        p = res[1]
        if not isinstance(p, int) or p < 0 or p > len(s):
            return 'scanner error position %r outside input of length %d' % (p, len(s))
        return None
    pos = 0
    for k, a, b in res[1]:
        if a is None or b is None:
            return 'token %r has undefined span (%r, %r)' % (k, a, b)
        if a != pos:
            return 'token %r starts at %r, expected %d (gap or overlap)' % (k, a, pos)
        if b <= a:
            return 'token %r has empty span (%r, %r)' % (k, a, b)
        pos = b
    if pos != len(s):
        return 'tokens end at %d, input length %d' % (pos, len(s))
    return None


def gen_markup(ctx, tier):
    cases = []
    # corpus of past failures / edge shapes first
    cases += ['', '{*', 'a{*}', 'a[b=*3]', '${', 'a{${1:{x}', 'a[b=${1:x}]', '$@^^-12', '$$$@-', 'a\\', '\\', 'a{{b}}c',
              'a/2', '1/2', 'ul>li.item$*3{x $# y}', '(a+b)*2^c', 'a"*"', '}{a}', ']a=b', 'a{${12:b{c}d}e}',
              'a{${x}}', 'a{${}}', 'a[${1}=x]', '٣/٣', '²/²', 'a*٣']
    n_ex = 3 if tier == 'quick' else 4
    alpha = MARKUP_ALPHABET if tier == 'thorough' else MARKUP_ALPHABET[:26]
    ex_alpha = alpha[:24] if tier == 'thorough' else alpha[:22]
    for n in range(1, n_ex + 1):
        for tup in itertools.product(ex_alpha, repeat=n):
            cases.append(''.join(tup))
    n_rand = 6000 if tier == 'quick' else 150000
    rng = ctx.rng
    frags = MARKUP_FRAGS
    for _ in range(n_rand):
        if rng.random() < 0.5:
            ln = rng.randint(1, 60 if tier == 'thorough' else 30)
            cases.append(''.join(rng.choice(MARKUP_ALPHABET) for _ in range(ln)))
        else:
            cases.append(''.join(rng.choice(frags) for _ in range(rng.randint(1, 14))))
    return cases


def run(ctx):
    ok = ctx.build(['props/C18.vo', 'run/MarkupRun.vo'])
    if ok:
        ctx.obligations('props/C18.v')
    ctx.cov['rule'] = ('markup: corpus + exhaustive strings up to length %d over a %d-character alphabet + random '
                       'strings/fragment mixes; a case is non-trivial when it tokenizes into >=2 tokens or raises the '
                       'scanner error; distinct by input string') % (3 if ctx.tier == 'quick' else 4, 22 if ctx.tier == 'quick' else 24)
    model = ctx.model('markup') if ok else None
    base_cases = gen_markup(ctx, ctx.tier)
    # white space / line-break conventions in every position (c18_ws.py): same oracle, same correspondence
    ws_cases = c18_ws.gen_markup_ws(ctx, ctx.tier, MARKUP_ALPHABET, MARKUP_FRAGS)
    ctx.cov['white_space_class'] = {'markup_inputs': len(ws_cases)}
    cases = base_cases + ws_cases
    impl = [impl_markup(s) for s in cases]
    # property oracle on the implementation (search layer; runs always, cheap)
    reporter = c18_seq.StreamReporter(ctx, 'markup')   # re-runs the first failures alone in a fresh interpreter
    stream = [(s, False) for s in cases]
    for j, (s, r) in enumerate(zip(cases, impl)):
        ctx.count_eval()
        bad = tiling_oracle(s, r)
        if bad:
            reporter.report(stream, j, 'markup:' + s, 'markup tokenize(%r): %s' % (s, bad),
                            {'component': 'markup', 'input': s, 'impl': repr(r), 'why': bad})
        if r[0] == 'err':
            ctx.cover('markup:scanner-error')
            ctx.nontrivial(('m', s))
        elif r[0] == 'ok':
            ctx.cover('markup:ok')
            if len(r[1]) >= 2:
                ctx.nontrivial(('m', s))
            for k, _, _ in r[1]:
                ctx.cover('markup:token:' + k[0])
        if j >= len(base_cases):
            for b in c18_ws.classify(s):
                ctx.cover('markup:ws:%s:%s' % (b, r[0]))
    reporter.finish()
    for s, r in list(zip(cases, impl))[40:46]:
        ctx.sample({'input': s, 'impl': repr(r)[:200]})
    # correspondence model vs implementation
    if model is not None:
        outs = model.run([[1] + enc_str(s) for s in cases])
        dis = 0
        for s, r, w in zip(cases, impl, outs):
            m = decode_markup(w)
            if m != r:
                dis += 1
                if dis <= 5:
                    ctx.say('DISAGREE markup tokenize %r\n  impl  %r\n  model %r' % (s, r, m))
                    bad = tiling_oracle(s, r)
                    if not bad:
                        ctx.broken.append({'kind': 'correspondence', 'file': 'markup-tokenizer', 'input': s,
                                           'impl': repr(r)[:300], 'model': repr(m)[:300]})
        ctx.cov['correspondence']['markup_tokenizer'] = {'cases': len(cases), 'disagreements': dis}
    long_digit_runs(ctx)
    c18_css.run_css(ctx)
    ctx.cov['rule'] += ' || ' + c18_ws.rule_text(ctx.tier, len(ws_cases), ctx.cov['white_space_class'].get('css_inputs', 0))
    call_sequences(ctx, base_cases, ws_cases)


# -- call sequences: the property on every call of a process, results owned by the caller (see c18_seq.py) ----------

def _markup_lang():
    def tokenize(s, is_value):
        from emmet.abbreviation.tokenizer import tokenize as tk
        return tk(s)

    def parse(x, is_value):
        from emmet.abbreviation import parse as p
        return p(x)

    def expand(s, is_value):
        from emmet import expand as e
        return e(s)
    return c18_seq.Lang('markup', tokenize, canon_markup_tokens, tiling_oracle, parse, expand)


def _css_lang():
    def tokenize(s, is_value):
        from emmet.css_abbreviation.tokenizer import tokenize as tk
        return tk(s, is_value)

    def parse(x, is_value):
        from emmet.css_abbreviation import parse as p
        return p(x, {'value': bool(is_value)})

    def expand(s, is_value):
        from emmet import expand as e
        cfg = {'type': 'stylesheet'}
        if is_value:
            cfg['context'] = {'name': 'margin'}
        return e(s, cfg)
    return c18_seq.Lang('css', tokenize, c18_css.canon_css_tokens, c18_css.tiling_oracle, parse, expand)


def call_sequences(ctx, markup_cases, ws_cases=()):
    rng = ctx.rng
    quick = ctx.tier == 'quick'
    # subjects: realistic abbreviations first (the systematic edit-then-again sweep uses the first few), then draws
    # from the single-call stream (short exhaustive strings are mostly one token: draw from the random part)
    tail = markup_cases[-(6000 if quick else 150000):]
    msub = [(s, False) for s in c18_seq.MARKUP_SUBJECTS]
    msub += [(rng.choice(tail), False) for _ in range(400 if quick else 4000)]
    if ws_cases:   # subjects with white space variants / line-break conventions (c18_ws.py)
        msub += [(rng.choice(ws_cases), False) for _ in range(100 if quick else 1000)]
    csub = []
    for s in c18_seq.CSS_SUBJECTS:
        csub.append((s, False))
        csub.append((s, True))
    for _ in range(400 if quick else 4000):
        if rng.random() < 0.3:
            s = ''.join(rng.choice(c18_css.CSS_ALPHABET) for _ in range(rng.randint(1, 20)))
        else:
            s = ''.join(rng.choice(c18_css.FRAGS) for _ in range(rng.randint(1, 10)))
        csub.append((s, rng.random() < 0.5))
    history = []
    nm, cm = c18_seq.run_sequences(ctx, _markup_lang(), msub, 1500 if quick else 30000, 150 if quick else 3000, history)
    nc, cc = c18_seq.run_sequences(ctx, _css_lang(), csub, 1500 if quick else 30000, 150 if quick else 3000, history)
    ctx.cov['call_sequences'] = {'markup': nm, 'markup_calls': cm, 'css': nc, 'css_calls': cc}
    ctx.cov['rule'] = ctx.cov.get('rule', '') + ' || ' + c18_seq.rule_text(nm, nc)


def long_digit_runs(ctx):
    """Numbers longer than CPython converts (sys.get_int_max_str_digits(), 4300 by default) at every place a
    tokenizer reads an integer: the property on the implementation alone -- the model's numbers are unbounded (Z), so
    these inputs are outside the correspondence (repaired 59398b0: they escaped with ValueError)."""
    n = 0
    for k in (4299, 4300, 4301, 5000, 9000):
        d = '7' * k
        for s in ('p*' + d, 'a$@' + d, 'a$@-' + d + '*2', 'p{${' + d + '}}', 'a[b=${' + d + ':x}]', 'ul>li*' + d + '>a', d, 'a' + d):
            r = impl_markup(s)
            ctx.count_eval()
            n += 1
            bad = tiling_oracle(s, r)
            ctx.cover('markup:long-digits-' + r[0])
            if bad:
                ctx.property_failure('markup-long:' + s[:12] + str(k), 'markup tokenize(%r + %d digits ...): %s' % (s[:8], k, bad),
                                     {'component': 'markup', 'input': s, 'impl': repr(r)[:200], 'why': bad})
        for s, v in (('p${' + d + '}', False), ('p:${' + d + ':x}', False), ('${' + d + '}', True), ('p' + d, False), ('#' + d, True)):
            r = c18_css.impl_css(s, v)
            ctx.count_eval()
            n += 1
            bad = c18_css.tiling_oracle(s, r)
            ctx.cover('css:long-digits-' + r[0])
            if bad:
                ctx.property_failure('css-long:' + s[:12] + str(k), 'css tokenize(%r + %d digits ..., value=%s): %s' % (s[:6], k, v, bad),
                                     {'component': 'css', 'input': s, 'is_value': v, 'impl': repr(r)[:200], 'why': bad})
    ctx.cov['long_digit_run_inputs'] = n


def replay(ctx, obj):
    rp = obj.get('replay', {})
    if rp.get('component') == 'sequence':
        return c18_seq.replay_program({'markup': _markup_lang(), 'css': _css_lang()}, rp)
    if rp.get('component') == 'css':
        return c18_css.replay_css(ctx, obj)
    s = rp.get('input')
    if s is None:
        print('replay names a broken obligation, no input: %s' % rp)
        return 1
    r = impl_markup(s)
    bad = tiling_oracle(s, r)
    print('input %r -> %r : %s' % (s, r, bad or 'property holds'))
    return 1 if bad else 0
