"""C04 -- Text content is placed verbatim: inline text and wrapped lines.

Every generated case carries the output the property's own words predict for it (computed in text_gen from
the payload / the wrap lines, never from the model); the ORACLE compares it with emmet.expand.  The same
cases (plus a stream of inputs outside the statement's domain) run through the extracted Coq model and are
compared on every output.text / output.field callback invocation (text chunk, offset, line, column).
Runs of text parts on one unit (gen_text_runs) go the same way; user `output.text` hooks (hook_stream) are judged
by the oracle only (the model has the identity hook)."""
import glob
import itertools
import json
import os
import re

import text_gen as g
from markup_util import run_cases, impl_expand, canon_cfg
import text_tree
import attrtext_gen as atg
import wrap_gen2 as w2

HERE = os.path.dirname(os.path.abspath(__file__))
CORPUS = os.path.join(os.path.dirname(os.path.dirname(HERE)), 'corpus', 'C04')

# second configurations for the model/implementation comparison (formatting on, other syntaxes)
FORMATS = [{}, {'syntax': 'xml'}, {'options': {'output.indent': '  ', 'output.baseIndent': '>>', 'output.newline': '\r\n'}},
           {'options': {'output.attributeQuotes': 'single', 'output.selfClosingStyle': 'xhtml'}},
           {'options': {'output.formatLeafNode': True}}, {'options': {'output.format': False}}]


def plain(extra=None):
    c = json.loads(json.dumps(g.PLAIN))
    if extra:
        for k, v in extra.items():
            if k == 'options':
                c['options'].update(v)
            else:
                c[k] = v
    return c


# ---------------------------------------------------------------- oracle
def oracle(abbr, cfg, meta, r):
    """meta = {'pieces': [...]} : the output must consist of exactly these pieces (text pieces verbatim)."""
    if not meta or meta.get('pieces') is None:
        if meta and meta.get('total'):
            # placeholder_total: whatever the placement, expand returns a string or its documented parse error
            if r[0] in ('internal',):
                return 'internal error %r' % (r,)
        return None
    if r[0] != 'ok':
        return 'expand did not return a string: %r' % (r,)
    # alt_pieces: further acceptable outputs where the statement leaves something open (an explicit count of zero)
    if not any(match_alt(p, r[1]) for p in [meta['pieces']] + list(meta.get('alt_pieces') or [])):
        return 'output %r does not carry the text as written; expected pieces %r' % (r[1][:300], meta['pieces'][:12])
    return None


def match_alt(pieces, out):
    """text_gen.match_pieces plus pieces ['A', s1, s2, ...]: any one of the literal strings (used where the statement
    leaves a rendering open, e.g. a void element that received an EMPTY text: `<hr>` or `<hr></hr>`)."""
    alts = [[pc] if isinstance(pc, str) else list(pc[1:]) if pc[0] == 'A' else g.text_forms(pc[1]) for pc in pieces]
    memo = set()

    def go(i, pos):
        if i == len(alts):
            return pos == len(out)
        if (i, pos) in memo:
            return False
        for a in alts[i]:
            if out.startswith(a, pos) and go(i + 1, pos + len(a)):
                return True
        memo.add((i, pos))
        return False
    return go(0, 0)


# ---------------------------------------------------------------- shapes: where a payload may appear
def shapes_text(T):
    V = g.unescape(T)
    t = ['T', V] if V else ''
    return [
        ('text', 'p{%s}' % T, ['<p>', t, '</p>']),
        ('text+children', 'p{%s}>b+i' % T, ['<p>', t, '<b></b><i></i></p>']),
        ('bare-text', '{%s}' % T, [t]),
        ('child-text', 'p>{%s}' % T, ['<p>', t, '</p>']),
        ('text-after-attrs', 'p.c#i[a=b]{%s}' % T, ['<p class="c" id="i" a="b">', t, '</p>']),
        ('text-repeated', 'ul>li{%s}*2' % T, ['<ul><li>', t, '</li><li>', t, '</li></ul>']),
        ('text-sibling', 'p{%s}+q{%s}' % (T, T), ['<p>', t, '</p><q>', t, '</q>']),
        ('text-in-group', '(p{%s}>b)+i' % T, ['<p>', t, '<b></b></p><i></i>']),
    ] + ([
        # text on an element carrying the `/` mark or on a void snippet element is still its content
        ('text-selfclosed', 'p{%s}/' % T, ['<p>', t, '</p>']),
        ('text-void', 'div>hr{%s}+b' % T, ['<div><hr>', t, '</hr><b></b></div>']),
    ] if V else [])


def shape_quoted(T, q):
    V = g.unescape(T)
    return ('attr-quoted', 'p[t=%s%s%s]' % (q, T, q), ['<p t="' + g.attr_value_form(V) + '"></p>'])


def shape_quoted2(T, q):
    V = g.unescape(T)
    return ('attr-quoted-two', 'p[t=%s%s%s u=%s%s%s]{%s}' % (q, T, q, q, T, q, 'x'),
            ['<p t="%s" u="%s">x</p>' % (g.attr_value_form(V), g.attr_value_form(V))])


def shape_unquoted(T):
    V = g.unescape(T)
    return ('attr-unquoted', 'p[t=%s]' % T, ['<p t="' + g.attr_value_form(V) + '"></p>'])


def shape_expr(T):
    V = g.unescape(T)
    return ('attr-expression', 'p[t={%s}]' % T, ['<p t={' + g.attr_value_form(V) + '}></p>'])


def case(kind, abbr, pieces, cfg=None, **kw):
    meta = {'kind': kind, 'pieces': g.merge_pieces([p for p in pieces if p != '']) if pieces is not None else None}
    meta.update(kw)
    return (abbr, cfg if cfg is not None else plain(), meta)


# ---------------------------------------------------------------- generators
EXH_ALPHABET = ['{', '}', '\\', '$', '*', '>', '[', ']', '(', ')', '"', "'", ' ', 'a', '#', '=', '\n', ' ']


def gen_corpus(ctx):
    out = []
    for fn in sorted(glob.glob(os.path.join(CORPUS, '*.json'))):
        with open(fn) as f:
            o = json.load(f)
        out.append(case('corpus:' + os.path.basename(fn), o['abbr'], o.get('pieces'), o.get('config'), total=o.get('total')))
    return out


def gen_exhaustive(ctx):
    """Every payload up to a length bound over the punctuation that the tokenizer treats specially, at each
    text position.  Payloads inside the statement's domain get the oracle, all of them the model comparison."""
    out = []
    n_text = 3 if ctx.tier == 'quick' else 4
    n_attr = 2 if ctx.tier == 'quick' else 3
    for n in range(0, n_text + 1):
        for tup in itertools.product(EXH_ALPHABET, repeat=n):
            T = ''.join(tup)
            if g.in_domain_text(T):
                kind, abbr, pieces = shapes_text(T)[0 if n >= 3 else (len(out) % 2)]
                out.append(case('exh:' + kind, abbr, pieces))
            else:
                out.append(case('exh:outside-domain', 'p{%s}' % T, None, total='$#' in T))
    for n in range(0, n_attr + 1):
        for tup in itertools.product(EXH_ALPHABET, repeat=n):
            T = ''.join(tup)
            for q in '"\'':
                if g.in_domain_quoted(T, q):
                    out.append(case('exh:attr-quoted', *shape_quoted(T, q)[1:]))
                else:
                    out.append(case('exh:outside-domain', 'p[t=%s%s%s]' % (q, T, q), None))
            if g.in_domain_unquoted(T):
                out.append(case('exh:attr-unquoted', *shape_unquoted(T)[1:]))
            else:
                out.append(case('exh:outside-domain', 'p[t=%s]' % T, None))
            if g.in_domain_text(T):
                out.append(case('exh:attr-expression', *shape_expr(T)[1:]))
    ctx.cov['exhaustive_payload_length'] = {'element text': n_text, 'attribute values': n_attr, 'alphabet': ''.join(EXH_ALPHABET)}
    return out


def gen_random_payloads(ctx, n):
    rng = ctx.rng
    out = []
    for _ in range(n):
        breaks = rng.random() < 0.15
        ln = rng.choice([0, 1, 1, 2, 3, 5, 8, 12, 20])
        k = rng.random()
        if k < 0.45:
            T = g.payload_text(rng, ln, breaks)
            assert g.in_domain_text(T), T
            kind, abbr, pieces = rng.choice(shapes_text(T))
        elif k < 0.65:
            q = rng.choice('"\'')
            T = g.payload_quoted(rng, ln, q, breaks)
            kind, abbr, pieces = (shape_quoted if rng.random() < 0.7 else shape_quoted2)(T, q)
        elif k < 0.85:
            T = g.payload_unquoted(rng, max(ln, 1))
            if not g.in_domain_unquoted(T):
                continue
            kind, abbr, pieces = shape_unquoted(T)
        else:
            T = g.payload_text(rng, ln, breaks)
            kind, abbr, pieces = shape_expr(T)
        out.append(case(kind, abbr, pieces))
        if len(g.unescape(T)) >= 1:
            ctx.nontrivial(abbr)
    return out


INDENT = {'pug': ('p', '(t="%s")'), 'haml': ('%p', '(t="%s")'), 'slim': ('p', ' t="%s"')}


def gen_indent(ctx, n):
    """The same payloads under the indentation-based syntaxes (single-line text: `name text`)."""
    rng = ctx.rng
    out = []
    for _ in range(n):
        syn = rng.choice(sorted(INDENT))
        name, attr = INDENT[syn]
        ln = rng.choice([0, 1, 2, 3, 5, 8, 12])
        if rng.random() < 0.6:
            T = g.payload_text(rng, ln, False)
            V = g.unescape(T)
            out.append(case('indent:text', 'p{%s}' % T, [name + ' ' + V], {'syntax': syn}))
        else:
            q = rng.choice('"\'')
            T = g.payload_quoted(rng, ln, q, False)
            V = g.unescape(T)
            out.append(case('indent:attr-quoted', 'p[t=%s%s%s]' % (q, T, q), [name + attr % V + ' '], {'syntax': syn}))
        ctx.nontrivial((syn, out[-1][0]))
    return out


def gen_wrap(ctx, n):
    rng = ctx.rng
    out = []
    # fixed shapes named in the statement
    for lines in (['ul>li*3', '$$', '{x}', '$#', '${1}'], ['  a  ', '', 'b'], [], ['', ' ']):
        nb = [l.strip() for l in lines if l.strip()]
        out.append(case('wrap:implicit', 'ul>li*', ['<ul>'] + sum([['<li>', ['T', l], '</li>'] for l in nb], []) + ['</ul>'],
                        plain({'text': lines})))
        out.append(case('wrap:implicit+$#', 'ul>li[title=$#]{[$#]}*',
                        ['<ul>'] + sum([['<li title="%s">' % l, ['T', '[%s]' % l], '</li>'] for l in nb], []) + ['</ul>'],
                        plain({'text': lines})))
        out.append(case('wrap:implicit-void', 'div>hr*', ['<div>'] + sum([['<hr>', ['T', l], '</hr>'] for l in nb], []) + ['</div>'],
                        plain({'text': lines})))
        # the receiving element's own inline text ends in a tabstop field: the line is still appended after it
        out.append(case('wrap:implicit-after-field', 'ul>li{Item: ${1:x}}*',
                        ['<ul>'] + sum([['<li>', ['T', 'Item: x' + l], '</li>'] for l in nb], []) + ['</ul>'], plain({'text': lines})))
        out.append(case('wrap:implicit-after-field', 'ul>li{${1}}*',
                        ['<ul>'] + sum([['<li>', ['T', l], '</li>'] for l in nb], []) + ['</ul>'], plain({'text': lines})))
        whole = '\n'.join(lines).strip()
        if whole and '\n' not in whole:
            out.append(case('wrap:plain-after-field', 'div>p{Item: ${1:x}}', ['<div><p>', ['T', 'Item: x' + whole], '</p></div>'], plain({'text': lines})))
        out.append(case('wrap:plain', 'ul>li', ['<ul><li>', ['T', whole] if whole else '', '</li></ul>'], plain({'text': lines})))
    for _ in range(n):
        roots, lines = g.rand_wrap_case(rng)
        abbr = g.render_roots(roots)
        starred = any(g.has_star(r) for r in roots)
        ph = any(g.has_ph(r) for r in roots)
        pieces = g.pieces_x(g.expect_wrap(roots, lines))
        kind = 'wrap:' + ('implicit' if starred else 'plain') + ('+$#' if ph else '')
        out.append(case(kind, abbr, pieces, plain({'text': lines})))
        if any(l.strip() for l in lines):
            ctx.nontrivial((abbr, tuple(lines)))
    return out


def gen_wrap_nested(ctx, n):
    """X* where X holds explicit repeaters `*N` at several depths and `$#` at several depths (text and attribute
    positions), X an element anywhere in the abbreviation: every copy of X carries its line at each `$#` of every
    explicit copy below it; without `$#` the line goes to the deepest last element of the copy (the last explicit
    copy of the last child chain).  About a third of the cases add a maxRepeat limit or a second implicit repeater
    (`ul*2>li*`: only the first receives the lines) -- outside the statement's wording: model/implementation
    comparison only (the Coq spec unroll_w of C04_wrap_implicit is what the model computes there)."""
    rng = ctx.rng
    out = []
    two = ['one', ' ', 'two ']
    for abbr, exp in (('li*>b*2>i{$#}', '<li><b><i>one</i></b><b><i>one</i></b></li><li><b><i>two</i></b><b><i>two</i></b></li>'),
                      ('li*>b*2>i', '<li><b><i></i></b><b><i>one</i></b></li><li><b><i></i></b><b><i>two</i></b></li>'),
                      ('ul>li[title=$#]*>b{$#}*2+em*2>i{[$#]}*2',
                       ''.join('<li title="%s"><b>%s</b><b>%s</b><em><i>[%s]</i><i>[%s]</i></em><em><i>[%s]</i><i>[%s]</i></em></li>'
                               % ((l,) * 7) for l in ('one', 'two')).join(['<ul>', '</ul>'])),
                      ('(p>q*3)*', '<p><q></q><q></q><q>one</q></p><p><q></q><q></q><q>two</q></p>')):
        out.append(case('wrap:nested-explicit', abbr, [exp], plain({'text': two})))
    for abbr, cfg in (('ul*2>li*', {}), ('li*>b*', {}), ('li*>b*3', {'maxRepeat': 4}), ('li*>b*2>i{$#}', {'maxRepeat': 3}),
                      ('(li>b{$#}*2)*+p{$#}', {}), ('p{$#}+li*', {}), ('li*>b*2', {'maxRepeat': 1})):
        out.append(case('wrap:nested-limit', abbr, None, plain(dict(cfg, text=two))))
    for _ in range(n):
        lines = g.rand_lines(rng)
        x = g.rand_w(rng, 0, False)
        for _try in range(6):
            if x.kids:
                break
            x = g.rand_w(rng, 0, False)
        x.star = True

        def deco(nd, p):
            for k in nd.kids:
                if rng.random() < p:
                    k.rep = rng.choice([2, 2, 3])
                deco(k, p)
        deco(x, rng.choice([0.3, 0.6, 1.0]))
        if rng.random() < 0.7:
            g.sprinkle_ph(rng, x, rng.choice([0.3, 0.6, 1.0]))
        roots = [x]
        if rng.random() < 0.5:
            roots = [g.W(rng.choice(g.WNAMES), kids=[g.W('em')] * rng.choice([0, 1]) + [x])]
        if rng.random() < 0.3:
            roots.append(g.W('q', text='t'))
        abbr = g.render_roots(roots)
        k = rng.random()
        if k < 0.2:
            cfg = plain({'text': lines, 'maxRepeat': rng.randint(1, 7)})
            out.append(case('wrap:nested-limit', abbr, None, cfg))
        elif k < 0.3:
            # a second implicit repeater somewhere below or beside
            extra = rng.choice(['%s+p*', '%s+p{$#}*', 'div*2>%s', '(%s)*2', '%s>s*'])
            out.append(case('wrap:nested-limit', extra % abbr, None, plain({'text': lines})))
        else:
            pieces = g.pieces_x(g.expect_wrap(roots, lines))
            out.append(case('wrap:nested-explicit' + ('+$#' if g.has_ph(x) else ''), abbr, pieces, plain({'text': lines})))
            if any(l.strip() for l in lines):
                ctx.nontrivial((abbr, tuple(lines)))
    return out


# ---------------------------------------------------------------- abbreviations as typed (harness/wrap_gen2.py)
TYPED_ZERO_COUNT = True      # explicit counts of zero (`*0`, `*00`): both "no copy" and "one copy" accepted
TYPED_HALF = True            # closing brackets at the end of the abbreviation not typed yet


def typed_case(ctx, roots, lines, cut, fixed=False):
    abbr = w2.render(roots)
    nodes = w2.all_nodes(roots)
    starred = any(n.star for n in nodes)
    ph = any(w2.has_ph(r) for r in roots)
    reps = [n.rep for n in nodes if n.rep]
    zero = any(int(r) == 0 for r in reps)
    kind = 'typed:' + ('implicit' if starred else 'plain' if lines is not None else 'no-text') + ('+$#' if ph else '')
    if cut:
        assert 1 <= cut <= w2.trailing_closers(roots)
        abbr = abbr[:-cut]
        kind += ':half-typed'
        ctx.cover('typed:half-typed:%d closing bracket(s) missing' % min(cut, 4))
        ctx.cover('typed:half-typed:ends in ' + ('`$#`' if abbr.endswith('$#') else 'other content'))
        m = re.search(r'=\{[^{}"\']*$', abbr)
        ctx.cover('typed:half-typed:innermost open = ' + ('attribute expression' if m else 'other'))
    if zero:
        kind += ':count0'
    for r in reps:
        ctx.cover('typed:count spelled *' + ('0' * (len(r) - len(r.lstrip('0'))) + 'N' if int(r) else '0' * min(len(r), 3)))
    for n in nodes:
        if (n.star or n.rep) and not n.group and (n.attrs or n.text or n.ph):
            ctx.cover('typed:repeater ' + ('directly after the name' if n.rpos == 0 else 'after the last part'
                                           if n.rpos >= len([1 for p in (n.attrs, n.text or n.ph) if p]) else 'between attributes and text'))
        if not n.group:
            for a in n.attrs:
                if a['ph']:
                    ctx.cover('typed:$# in attribute form ' + {'u': 'unquoted', 'd': 'double-quoted', 's': 'single-quoted', 'e': '{expression}'}[a['form']])
    cfg = plain({'text': lines} if lines is not None else None)
    alt = [g.merge_pieces(w2.pieces(w2.expect(roots, lines, 0)))] if zero else None
    cs = case(kind, abbr, w2.pieces(w2.expect(roots, lines, 1)), cfg, alt_pieces=alt)
    if not fixed and (lines is None or any(l.strip() for l in lines)):
        ctx.nontrivial((abbr, tuple(lines or ())))
    return cs


def _el(name, text='', ph=False, attrs=(), kids=(), star=False, rep=None, rpos=2, order='at', bare=True, group=False):
    n = w2.N2(name, text, kids, group)
    n.ph, n.star, n.rep, n.rpos, n.order, n.bare = ph, star, rep, rpos, order, bare
    n.attrs = [dict(name=a[0], form=a[1], pre=a[2], post=a[3], ph=a[4]) for a in attrs]
    return n


def gen_typed(ctx, n):
    """Abbreviations as typed: boundary spellings of explicit counts, repeater at every position of the element,
    `$#` in every attribute value form, closing brackets at the end not typed yet.  See harness/wrap_gen2.py."""
    rng = ctx.rng
    out = []
    two = ['one', ' ', 'two ']
    # sweep 1: every spelling of a count at every place relative to the receiving element, with lines / without text
    spellings = sorted(set(w2.REP_SPELLINGS)) if TYPED_ZERO_COUNT else [s for s in sorted(set(w2.REP_SPELLINGS)) if int(s)]
    for sp in spellings:
        shapes = [
            lambda: [_el('ul', kids=[_el('li', rep=sp)])],
            lambda: [_el('ul', kids=[_el('li', 't', rep=sp, rpos=0)])],
            lambda: [_el('ul', rep=sp, kids=[_el('li')])],
            lambda: [_el('div', kids=[_el(None, group=True, rep=sp, kids=[_el('p'), _el('q', kids=[_el('b')])])])],
            lambda: [_el('li', rep=sp, kids=[_el('b')]), _el('em')],
            lambda: [_el('li', star=True, kids=[_el('b', rep=sp)])],
            lambda: [_el('li', star=True, kids=[_el('b', ph=True, rep=sp)])],
            lambda: [_el('li', star=True, attrs=[('title', 'u', '', '', True)]), _el('p', rep=sp)],
            lambda: [_el('p', rep=sp), _el('ul', kids=[_el('li', star=True)])],
        ]
        for mk in shapes:
            for lines in (two, ['a', 'b', 'c'], None):
                roots = mk()
                if lines is None and any(w2.has_star(r) for r in roots):
                    continue
                out.append(typed_case(ctx, roots, lines, 0, True))
    # sweep 2: every attribute form / text as the last thing typed, with and without `$#`, every number of missing closers
    if TYPED_HALF:
        for form in 'udse':
            for pre, post in (('', ''), ('x', ''), ('', 'y'), ('<', '>')):
                if form == 'u' and pre == '<':
                    continue
                for ph in (True, False):
                    if not ph and not pre + post:
                        continue
                    shapes = [
                        lambda: [_el('ul', kids=[_el('li', star=True, rpos=0, attrs=[('data-v', form, pre, post, ph)])])],
                        lambda: [_el('ul', kids=[_el('li', star=True, rpos=0, attrs=[('a', 'e', '', '', ph), ('b', form, pre, post, ph)])])],
                        lambda: [_el('ul', kids=[_el('li', star=True, rpos=0, text='t', ph=ph, order='ta', attrs=[('a', form, pre, post, ph)])])],
                        lambda: [_el('ul', bare=False, kids=[_el('li', star=True, bare=False, kids=[_el('b', attrs=[('a', form, pre, post, ph)])])])],
                        lambda: [_el('div', kids=[_el('p', attrs=[('a', form, pre, post, False)] if pre + post else [('a', form, 'v', '', False)])])],
                    ]
                    for mk in shapes:
                        for cut in range(0, w2.trailing_closers(mk()) + 1):
                            out.append(typed_case(ctx, mk(), two, cut, True))
        for text, ph in (('', True), ('ab ', True), ('t', False), ('a{b}', True), ('{b}', False)):
            for mk in (lambda: [_el('ul', kids=[_el('li', text, ph, star=True, rpos=0)])],
                       lambda: [_el('ul', bare=False, kids=[_el('li', star=True, bare=False, kids=[_el('b', text, ph)])])],
                       lambda: [_el('ul', kids=[_el('li', text, False)])]):
                for cut in range(0, w2.trailing_closers(mk()) + 1):
                    out.append(typed_case(ctx, mk(), two, cut, True))
    for _ in range(n):
        half = TYPED_HALF and rng.random() < 0.45
        want_star = rng.random() < 0.6
        roots, lines = w2.rand_case(rng, want_star, half)
        if not TYPED_ZERO_COUNT:
            for nd in w2.all_nodes(roots):
                if nd.rep and int(nd.rep) == 0:
                    nd.rep = '1'
        if not want_star and rng.random() < 0.12:
            lines = None
        cut = 0
        if half:
            c = w2.trailing_closers(roots)
            if c:
                cut = rng.randint(1, c)
        out.append(typed_case(ctx, roots, lines, cut))
    return out


# ---------------------------------------------------------------- numbering / fields inside nested braces (repair 86fc68a)
def shapes_nested(segs, N):
    """Where a payload with items may stand; the expected text of copy i of n comes from text_gen.expect_nested."""
    T = g.render_nested(segs)

    def e(i, n):
        v = g.expect_nested(segs, i, n)
        return ['T', v] if v else ''

    def a(i, n):
        return g.attr_value_form(g.expect_nested(segs, i, n))
    one = e(None, None)
    return [
        ('nested:text', 'p{%s}' % T, ['<p>', one, '</p>']),
        # (a text WITH a tabstop field and children is a snippet: the formatter writes the children in place of the first
        # field, upstream's pushSnippet -- C04_children_after_text is stated for field-free values; model comparison only)
        ('nested:text+children', 'p{%s}>b+i' % T, ['<p>', one, '<b></b><i></i></p>'] if not any(s[0] == 'field' for s in segs) else None),
        ('nested:child-text', 'div>{%s}' % T, ['<div>', one, '</div>']),
        ('nested:text-after-attrs', 'p.c[a=b]{%s}' % T, ['<p class="c" a="b">', one, '</p>']),
        ('nested:text-repeated', 'p{%s}*%d' % (T, N), sum([['<p>', e(i, N), '</p>'] for i in range(1, N + 1)], [])),
        ('nested:li-repeated', 'ul>li{%s}*%d' % (T, N), ['<ul>'] + sum([['<li>', e(i, N), '</li>'] for i in range(1, N + 1)], []) + ['</ul>']),
        ('nested:group-repeated', '(p{%s}+i)*%d' % (T, N), sum([['<p>', e(i, N), '</p><i></i>'] for i in range(1, N + 1)], [])),
        ('nested:parent-repeated', 'div*%d>p{%s}' % (N, T), sum([['<div><p>', e(i, N), '</p></div>'] for i in range(1, N + 1)], [])),
        ('nested:inner-counter', 'ul*2>li{%s}*%d' % (T, N),
         (['<ul>'] + sum([['<li>', e(i, N), '</li>'] for i in range(1, N + 1)], []) + ['</ul>']) * 2),
        ('nested:attr-expression', 'p[t={%s}]' % T, ['<p t={' + a(None, None) + '}></p>']),
        ('nested:attr-expression-repeated', 'p[t={%s}]*%d' % (T, N), ['<p t={' + a(i, N) + '}></p>' for i in range(1, N + 1)]),
    ]


NESTED_FIXED = [
    # the inputs named in the record of the repair, and every item kind at depths 0..3 between literal text
    [('lit', '{'), ('num', 1, False, False, ''), ('lit', '}')],
    [('lit', 'a{'), ('num', 1, False, False, ''), ('lit', '}b')],
    [('lit', '{'), ('ph',), ('lit', '}')],
    [('lit', '{'), ('field', '1', None), ('lit', '}')],
    [('lit', 'a{'), ('num', 1, False, False, ''), ('lit', '}b{{'), ('num', 2, True, True, ''), ('lit', '}c}'), ('field', '1', 'x{y}')],
]


def gen_nested(ctx, n):
    rng = ctx.rng
    out = []
    fixed = list(NESTED_FIXED)
    items = [('num', 1, False, False, ''), ('num', 3, False, False, ''), ('num', 2, True, False, '5'), ('num', 1, True, True, ''),
             ('num', 2, True, True, '12'), ('num', 1, True, False, '0'), ('ph',), ('field', '0', None), ('field', '12', 'p{q}r'),
             ('field', '3', '')]
    for d in range(0, 4):
        for it in items:
            for pre, post in (('', ''), ('a', 'b'), (' ', ' '), ('\\$', '\\}')):
                fixed.append([('lit', '{' * d + pre), it, ('lit', (post if post else ('.' if it[0] == 'num' and not d else '')) + '}' * d)])
            # two items in a row at that depth
            fixed.append([('lit', '{' * d), it, ('lit', ' '), ('ph',), ('num', 1, True, False, ''), ('lit', '}' * d)])
    for segs in fixed:
        segs = [s for s in segs if not (s[0] == 'lit' and s[1] == '')]
        assert g.in_domain_nested(segs), segs
        for kind, abbr, pieces in shapes_nested(segs, 2):
            out.append(case(kind, abbr, pieces, segs=segs, N=2))
    for _ in range(n):
        segs = g.payload_nested(rng, rng.choice([1, 1, 2, 2, 3, 4, 6]), fields=True)
        assert g.in_domain_nested(segs), segs
        N = rng.choice([1, 2, 2, 3, 4, 11])
        kind, abbr, pieces = rng.choice(shapes_nested(segs, N))
        out.append(case(kind, abbr, pieces, segs=segs, N=N))
        ctx.nontrivial(abbr)
    for _, _, meta in out:
        prof = g.nested_depth_profile([tuple(s) for s in meta['segs']])
        for k, d in prof:
            ctx.cover('nested:%s@depth%d' % (k, min(d, 4)))
        if any(d >= 1 for _, d in prof):
            ctx.cover('nested:item-inside-inner-braces')
    return out


def nested_front_end(ctx, cases):
    """Statement-level oracle on the FRONT END for `p{P}` / `p{P}*N` (what C04_tokenize_nested, C04_nested_closing_brace,
    C04_parse_nested, C04_text_nested, C04_nested_repeated say): the tokens are name, `{`, the payload's tokens in order,
    `}` -- the closing Bracket is the LAST token of `p{P}` and spans the last character --, and the abbreviation tree is
    one node per copy whose value is the payload's value under that copy's counter."""
    from emmet.abbreviation.tokenizer import tokenize

    def canon(t):
        ty = type(t).__name__
        if ty in ('Literal', 'WhiteSpace'):
            return (ty, t.value)
        if ty == 'RepeaterNumber':
            return (ty, t.size, bool(t.reverse), t.base, t.parent)
        if ty == 'RepeaterPlaceholder':
            return (ty,)
        if ty == 'Field':
            return (ty, t.name, t.index)
        if ty == 'Bracket':
            return (ty, bool(t.open), t.context)
        return (ty,)
    n = 0
    for abbr, cfg, meta in cases:
        if meta.get('kind') in ('nested:attr-expression', 'nested:attr-expression-repeated'):
            # C04_attr_expr_nested / _repeated: one node per copy, ONE attribute t of type expression whose value is the payload
            segs = [tuple(s) for s in meta['segs']]
            N = meta['N'] if meta['kind'].endswith('repeated') else None
            n += 1
            ctx.count_eval()
            t = text_tree.impl_tree(abbr, None, None)

            def attr(i):
                return [['t', g.expect_nested_value(segs, i, N) or [], 3, False, False, False]]
            if N is None:
                want_t = [['p', None, None, attr(None), False, []]]
            else:
                want_t = [['p', None, [N, i - 1, False], attr(i), False, []] for i in range(1, N + 1)]
            if t[0] != 'ok' or to_lists(t[1]) != want_t:
                bad = 'abbreviation tree %r, the statement gives %r' % (t, want_t)
                ctx.property_failure('C04nested:%s' % abbr, 'C04 front end on %r: %s' % (abbr, bad),
                                     {'component': 'C04-nested', 'abbr': abbr, 'segs': meta['segs'], 'N': N, 'attr': True, 'why': bad})
            continue
        if meta.get('kind') not in ('nested:text', 'nested:text-repeated'):
            continue
        segs = [tuple(s) for s in meta['segs']]
        N = meta['N'] if meta['kind'] == 'nested:text-repeated' else None
        n += 1
        ctx.count_eval()
        bad = None
        try:
            toks = tokenize(abbr)
        except Exception as e:  # noqa
            toks = None
            bad = 'tokenize raised %r' % (e,)
        if toks is not None:
            want = [('Literal', 'p'), ('Bracket', True, 'expression')] + g.expect_nested_tokens(segs) + [('Bracket', False, 'expression')]
            got = [canon(t) for t in toks]
            body_end = len(abbr) if N is None else abbr.rindex('*')
            if N is not None:
                got_rep = got[-1]
                got = got[:-1]
                toks = toks[:-1]
                if got_rep[0] != 'Repeater':
                    bad = 'last token of %r is %r, not the repeater' % (abbr, got_rep)
            if not bad and got != want:
                bad = 'tokens %r, the statement gives %r' % (got[:20], want[:20])
            elif not bad and (toks[-1].start, toks[-1].end) != (body_end - 1, body_end):
                bad = 'the closing brace token spans %r, the last brace of the text is at %d' % ((toks[-1].start, toks[-1].end), body_end - 1)
        if not bad:
            t = text_tree.impl_tree(abbr, None, None)
            if N is None:
                want_t = [['p', g.expect_nested_value(segs), None, None, False, []]]
            else:
                want_t = [['p', g.expect_nested_value(segs, i, N), [N, i - 1, False], None, False, []] for i in range(1, N + 1)]
            if t[0] != 'ok' or to_lists(t[1]) != want_t:
                bad = 'abbreviation tree %r, the statement gives %r' % (t, want_t)
        if bad:
            ctx.property_failure('C04nested:%s' % abbr, 'C04 front end on %r: %s' % (abbr, bad),
                                 {'component': 'C04-nested', 'abbr': abbr, 'segs': meta['segs'], 'N': N, 'why': bad})
    ctx.cov['nested_front_end_cases'] = n


def to_lists(x):
    if isinstance(x, (tuple, list)):
        return [to_lists(y) for y in x]
    return x


def replay_nested(rp):
    import random

    class C:
        violations = []
        cov = {}

        def count_eval(self):
            pass

        def property_failure(self, key, what, replay):
            self.violations.append(what)
    c = C()
    segs = rp['segs']
    kind = 'nested:text-repeated' if rp.get('N') else 'nested:text'
    if rp.get('attr'):
        kind = 'nested:attr-expression-repeated' if rp.get('N') else 'nested:attr-expression'
    nested_front_end(c, [(rp['abbr'], plain(), {'kind': kind, 'segs': segs, 'N': rp.get('N')})])
    print('front end on %r: %s' % (rp['abbr'], c.violations[0] if c.violations else 'property holds'))
    return 1 if c.violations else 0


# ---------------------------------------------------------------- runs of text parts on one unit (`p{}{b}`, `p{a}.c{b}{c}`)
# The grammar gives a unit (name, attributes, text, repeater in any order) ONE text: a further `{...}` written directly
# after it is a text of its own -- an anonymous text node that FOLLOWS the unit as its sibling (what `p{a}+{b}` writes
# with the operator).  The statement's clause "text written in `{...}` becomes the content of ITS element character for
# character" therefore fixes the output of a run `name{T1}{T2}{T3}` whatever the payloads are -- in particular when one
# of them is EMPTY (`{}`), only white space, or a line break: `<name>T1</name>T2T3`.  Attribute parts written between
# the texts still belong to the named unit.
RUN_ATTRS = [('.c', ' class="c"'), ('#i', ' id="i"'), ('[a=b]', ' a="b"'), ('[k="v w"]', ' k="v w"')]
RUN_EMPTY_FIRST = True       # runs whose first / middle / last text is the empty `{}` (off: only non-empty payloads)


def run_payload(rng, breaks=True):
    k = rng.random()
    if k < (0.4 if RUN_EMPTY_FIRST else 0.0):
        return ''
    if k < 0.5:
        return rng.choice([' ', '\t', '  ', '\xa0'] + (['\n'] if breaks else []))
    return g.payload_text(rng, rng.choice([1, 1, 2, 3, 5, 8]), breaks and rng.random() < 0.1) or 'x'


def tpiece(v):
    return ['T', v] if v else ''


def text_run(rng, name, n_texts, breaks=True, ph=False, star_at=None):
    """One named unit carrying attribute parts and n_texts text parts.  Returns (abbr, open tag, [payloads as written], what follows `$#` in the first text).
    star_at: index of the part after which the implicit repeater `*` is written (0 = directly after the name), only
    positions before the second text (after it the repeater would belong to the text node)."""
    k = rng.randint(0, len(RUN_ATTRS))
    attrs = sorted(rng.sample(range(len(RUN_ATTRS)), k))
    cut = rng.randint(0, len(attrs))
    if n_texts == 1 and cut == len(attrs):
        # a single text: only of interest here with attribute parts AFTER the (possibly empty) text
        attrs = attrs or [rng.randrange(len(RUN_ATTRS))]
        cut = rng.randint(0, len(attrs) - 1)
    texts = [run_payload(rng, breaks) for _ in range(n_texts)]
    written = list(texts)
    suffix = rng.choice(['', '', '!', ' ']) if ph else ''
    if ph:
        written[0] = texts[0] + '$#' + suffix
    parts = [RUN_ATTRS[i][0] for i in attrs[:cut]] + ['{%s}' % written[0]] + [RUN_ATTRS[i][0] for i in attrs[cut:]]
    first_len = len(parts)
    if star_at is not None:
        parts.insert(min(star_at, first_len), '*')
    parts += ['{%s}' % t for t in written[1:]]
    return name + ''.join(parts), '<' + name + ''.join(RUN_ATTRS[i][1] for i in attrs) + '>', texts, suffix


def gen_text_runs(ctx, n):
    rng = ctx.rng
    out = []
    # every combination of empty / blank / plain first and second text, with and without attribute parts in between,
    # in each surrounding; then random runs
    basic = ['', ' ', 'a', '\\}', '{}', '*', '>b', '\n']
    for t1 in basic:
        for t2 in basic:
            v1, v2 = g.unescape(t1), g.unescape(t2)
            for mid, tag in (('', ''), ('.c', ' class="c"'), ('[a=b]', ' a="b"'), ('#i.c[a=b]', ' id="i" class="c" a="b"')):
                fixed = [('p{%s}%s{%s}' % (t1, mid, t2), ['<p%s>' % tag, tpiece(v1), '</p>', tpiece(v2)])]
                if not mid:
                    fixed += [
                        ('div>p{%s}{%s}+q' % (t1, t2), ['<div><p>', tpiece(v1), '</p>', tpiece(v2), '<q></q></div>']),
                        ('p{%s}{%s}>i' % (t1, t2), ['<p>', tpiece(v1), '</p>', tpiece(v2), '<i></i>']),
                        ('(p{%s}{%s})*2' % (t1, t2), ['<p>', tpiece(v1), '</p>', tpiece(v2)] * 2),
                        ('p{%s}{%s}{%s}' % (t1, t2, t1), ['<p>', tpiece(v1), '</p>', tpiece(v2), tpiece(v1)]),
                        ('{%s}{%s}' % (t1, t2), [tpiece(v1), tpiece(v2)]),
                        ('p{%s}*2{%s}' % (t1, t2), ['<p>', tpiece(v1), '</p><p>', tpiece(v1), '</p>', tpiece(v2)]),
                    ]
                for abbr, pieces in fixed:
                    out.append(case('runs:fixed', abbr, pieces))
            if '\n' not in t1 + t2:
                for abbr in ('ul>li*{%s}{%s}', 'ul>li{%s}*{%s}'):
                    out.append(case('runs:wrap-implicit', abbr % (t1, t2),
                                    ['<ul><li>', tpiece(v1 + 'one'), '</li><li>', tpiece(v1 + 'two'), '</li>', tpiece(v2), '</ul>'],
                                    plain({'text': ['one', ' ', 'two ']})))
                out.append(case('runs:wrap-plain', 'p{%s}{%s}+q' % (t1, t2), ['<p>', tpiece(v1), '</p>', tpiece(v2), '<q>L 1</q>'],
                                plain({'text': [' L 1']})))
    for _ in range(n):
        name = rng.choice(g.WNAMES)
        n_texts = rng.choice([1, 2, 2, 2, 3, 4])
        k = rng.random()
        if k < 0.55:
            abbr, tag, texts, suffix = text_run(rng, name, n_texts)
            vals = [g.unescape(t) for t in texts]
            unit = [tag, tpiece(vals[0]), '</%s>' % name] + [tpiece(v) for v in vals[1:]]
            last = vals[-1] if n_texts > 1 else None
            follow = rng.choice(['', '', '+q', '>i', '>i+b', '*2', '^q'])
            if follow == '*2' and n_texts == 1:
                follow = '+q'
            tail = {'': [], '+q': ['<q></q>'], '>i': ['<i></i>'], '>i+b': ['<i></i><b></b>'], '*2': [tpiece(last)], '^q': ['<q></q>']}[follow]
            if n_texts == 1 and follow.startswith('>'):
                unit = unit[:2] + tail + unit[2:]
                tail = []
            wrapper = rng.choice(['%s', '%s', 'div>%s', '(%s)+em', 'em+%s', '(%s)*2'])
            if follow == '^q' and wrapper != 'div>%s':
                wrapper = '%s'
            body = unit + tail
            if wrapper == 'div>%s':
                pieces = ['<div>'] + body + ['</div>']
                if follow == '^q':
                    pieces = ['<div>'] + unit + ['</div><q></q>']
            else:
                pieces = {'%s': body, '(%s)+em': body + ['<em></em>'], 'em+%s': ['<em></em>'] + body, '(%s)*2': body * 2}[wrapper]
            out.append(case('runs:%d-texts' % n_texts, wrapper % (abbr + follow), pieces))
            ctx.cover('runs:first text ' + ('empty' if not vals[0] else 'blank' if not vals[0].strip() else 'non-empty'))
            if n_texts > 1:
                ctx.cover('runs:second text ' + ('empty' if not vals[1] else 'blank' if not vals[1].strip() else 'non-empty'))
        elif k < 0.8:
            # wrap lines, the implicit repeater on the named unit (written at any place before the second text)
            lines = g.rand_lines(rng)
            nb = [l.strip() for l in lines if l.strip()]
            ph = rng.random() < 0.4
            abbr, tag, texts, suffix = text_run(rng, name, max(n_texts, 2), breaks=False, ph=ph, star_at=rng.randint(0, 4))
            vals = [g.unescape(t) for t in texts]
            pieces = []
            for l in nb:
                pieces += [tag, tpiece(vals[0] + l + suffix), '</%s>' % name]
            pieces += [tpiece(v) for v in vals[1:]]
            wrapper = rng.choice(['%s', 'ul>%s', '%s+q'])
            pieces = {'%s': pieces, 'ul>%s': ['<ul>'] + pieces + ['</ul>'], '%s+q': pieces + ['<q></q>']}[wrapper]
            out.append(case('runs:wrap-implicit' + ('+$#' if ph else ''), wrapper % abbr, pieces, plain({'text': lines})))
            ctx.cover('runs:wrap first text ' + ('empty' if not texts[0] else 'non-empty') + (' + `$#`' if ph else ''))
        elif k < 0.9:
            # the implicit repeater on the LAST text of the run: that text node is X, one copy per line
            lines = g.rand_lines(rng)
            nb = [l.strip() for l in lines if l.strip()]
            abbr, tag, texts, suffix = text_run(rng, name, max(n_texts, 2), breaks=False)
            vals = [g.unescape(t) for t in texts]
            pieces = [tag, tpiece(vals[0]), '</%s>' % name] + [tpiece(v) for v in vals[1:-1]] + [tpiece(vals[-1] + l) for l in nb]
            out.append(case('runs:wrap-implicit-on-text', 'div>' + abbr + '*', ['<div>'] + pieces + ['</div>'], plain({'text': lines})))
        else:
            # no implicit repeater: the whole text goes once into the deepest last element
            lines = g.rand_lines(rng)
            whole = '\n'.join(lines).strip()
            abbr, tag, texts, suffix = text_run(rng, name, max(n_texts, 2), breaks=False)
            vals = [g.unescape(t) for t in texts]
            follow = rng.choice(['', '+q', '>i'])
            if follow:
                pieces = [tag, tpiece(vals[0]), '</%s>' % name] + [tpiece(v) for v in vals[1:]] + ['<%s>' % follow[1], tpiece(whole), '</%s>' % follow[1]]
            else:
                pieces = [tag, tpiece(vals[0]), '</%s>' % name] + [tpiece(v) for v in vals[1:-1]] + [tpiece(vals[-1] + whole)]
            out.append(case('runs:wrap-plain', abbr + follow, pieces, plain({'text': lines})))
        ctx.nontrivial(out[-1][0])
    return out


# ---------------------------------------------------------------- user `output.text` hooks
# `output.text` is the documented text processor option: every piece the formatter writes is handed to it and what it
# RETURNS is what is written (default: the piece itself).  With a hook h installed the statement reads: the characters
# of the text reach h verbatim and in order, and the element's content is what h returned for them -- also when that
# is the EMPTY string for a non-empty piece (a hook that deletes zero-width characters, letters, white space, or
# everything), a longer string (escaping), or a changed one.  Hooks are named so that a replay can rebuild them; each
# is a pure function of the piece.
ZERO_WIDTH = '\u200b\ufeff\u00ad\u200d\u2060'     # zero width space, BOM / zero width no-break space, soft hyphen, joiner, word joiner
HOOKS = {
    'identity': lambda t: t,
    'delete-everything': lambda t: '',
    'delete-zero-width': lambda t: ''.join(c for c in t if c not in ZERO_WIDTH),
    'delete-letters-digits': lambda t: ''.join(c for c in t if not c.isalnum()),
    'keep-letters-digits': lambda t: ''.join(c for c in t if c.isalnum()),
    'delete-white-space': lambda t: ''.join(c for c in t if not c.isspace()),
    'delete-non-ascii': lambda t: ''.join(c for c in t if ord(c) < 128),
    'escape-html': lambda t: t.replace('&', '&amp;').replace('<', '&lt;').replace('>', '&gt;'),
    'upper-case': lambda t: t.upper(),
    'first-character': lambda t: t[:1],
    'bracket-each-piece': lambda t: '\u27e6' + t + '\u27e7',
}
HOOK_NAMES = sorted(HOOKS)
# payloads / wrap lines made of ONE class of characters (what a class-deleting hook maps to '' as a whole)
CLASS_CHARS = {'zero-width': list(ZERO_WIDTH), 'white space': [' ', '\t', '\xa0', '\u3000'], 'letters': list('aZ\xe9\u65e5'),
               'digits': list('09\u0663'), 'punctuation': list('!#%&*+,-./:;<=>?@^_|~()[]'),
               'non-ascii': list('\xe9\u65e5\u200b\ufeff\xa0')}


def expand_hooked(abbr, cfg, hook):
    """expand under the named hook; returns ('ok', output, calls) with calls = [('text', piece, returned) | ('field', returned)]."""
    import copy
    from emmet import expand
    from markup_util import classify_exc
    h = HOOKS[hook]
    calls = []

    def text(t, **kw):
        r = h(t)
        calls.append(('text', t, r))
        return r

    def field(index, placeholder, **kw):
        calls.append(('field', placeholder))
        return placeholder
    uc = copy.deepcopy(cfg)
    uc['options'] = dict(uc.get('options') or {})
    uc['options']['output.text'] = text
    uc['options']['output.field'] = field
    try:
        return ('ok', expand(abbr, uc), calls)
    except Exception as e:  # noqa
        return classify_exc(e)


def hook_oracle(abbr, cfg, meta, hook, r):
    if r[0] != 'ok':
        return 'expand with the `output.text` hook %s did not return a string: %r' % (hook, r[:2])
    out, calls = r[1], r[2]
    fed = ''.join(c[1] for c in calls)
    if not any(match_alt(p, fed) for p in [meta['pieces']] + list(meta.get('alt_pieces') or [])):
        return ('the pieces handed to the `output.text` hook %s, %r, do not carry the text as written; expected pieces %r'
                % (hook, fed[:300], meta['pieces'][:12]))
    want = ''.join(c[-1] for c in calls)
    if out != want:
        k = next((c for c in calls if c[0] == 'text' and c[1] and not c[2]), None)
        return ('output %r is not what the `output.text` hook %s returned, %r%s'
                % (out[:300], hook, want[:300], ' (e.g. it returned %r for the piece %r)' % (k[2], k[1]) if k else ''))
    return None


def gen_hook_cases(ctx, cases, n):
    """(abbr, cfg, meta, hook): every hook on texts / wrap lines made of one character class at each text position, then
    random hooks on a sample of all statement-level cases generated above."""
    rng = ctx.rng
    out = []
    for cls in sorted(CLASS_CHARS):
        for ln in (1, 2, 4):
            T = ''.join(rng.choice(CLASS_CHARS[cls]) for _ in range(ln))
            V = g.unescape(T)
            for hook in HOOK_NAMES:
                for kind, abbr, pieces in shapes_text(T)[:: 1 if ln == 1 else 3]:
                    out.append(case('hook:' + kind, abbr, pieces) + (hook,))
                if V.strip():
                    lines = ['one', V, '', ' ' + V + 'x ']
                    nb = [l.strip() for l in lines if l.strip()]
                    out.append(case('hook:wrap-implicit', 'ul>li*', ['<ul>'] + sum([['<li>', ['T', l], '</li>'] for l in nb], []) + ['</ul>'],
                                    plain({'text': lines})) + (hook,))
                    out.append(case('hook:wrap-implicit+$#', 'ul>li[title=$#]{$#}*',
                                    ['<ul>'] + sum([['<li title="%s">' % l, ['T', l], '</li>'] for l in nb], []) + ['</ul>'],
                                    plain({'text': lines})) + (hook,))
                    out.append(case('hook:wrap-plain', 'div>p', ['<div><p>', ['T', V.strip()], '</p></div>'], plain({'text': V})) + (hook,))
                ctx.cover('hook:text of one class: ' + cls)
    pool = [cs for cs in cases if cs[2].get('pieces') is not None and not cs[2]['kind'].startswith(('corpus', 'indent'))
            and cs[1].get('options') == g.PLAIN['options']]
    for cs in rng.sample(pool, min(n, len(pool))):
        out.append((cs[0], cs[1], dict(cs[2], kind='hook:' + cs[2]['kind'].split(':')[0]), rng.choice(HOOK_NAMES)))
    return out


def hook_stream(ctx, hcases):
    for abbr, cfg, meta, hook in hcases:
        r = expand_hooked(abbr, cfg, hook)
        ctx.count_eval()
        ctx.cover('hook:' + hook)
        if r[0] == 'ok':
            if any(c[0] == 'text' and c[1] and not c[2] for c in r[2]):
                ctx.cover('hook:returned the empty string for a non-empty piece')
                ctx.nontrivial(('hook', hook, abbr))
            if any(c[0] == 'text' and len(c[2]) > len(c[1]) for c in r[2]):
                ctx.cover('hook:returned a longer string')
        bad = hook_oracle(abbr, cfg, meta, hook, r)
        if bad:
            ctx.property_failure('C04hook:%s|%s|%s' % (hook, abbr, canon_cfg(cfg)), 'C04 expand(%r, %s): %s' % (abbr, canon_cfg(cfg), bad),
                                 {'component': 'C04-hook', 'abbr': abbr, 'config': cfg, 'meta': meta, 'hook': hook, 'why': bad})
    ctx.cov['output_text_hook_cases'] = len(hcases)


def replay_hook(rp):
    r = expand_hooked(rp['abbr'], rp['config'], rp['hook'])
    bad = hook_oracle(rp['abbr'], rp['config'], rp['meta'], rp['hook'], r)
    print('expand(%r, %s) with the `output.text` hook %s -> %r' % (rp['abbr'], canon_cfg(rp['config']), rp['hook'], r[:2]))
    print('property %s' % ('FAILS: ' + bad if bad else 'holds on this input'))
    return 1 if bad else 0


def gen_outside(ctx, n):
    """Inputs outside the statement's domain (unbalanced braces, unescaped `$`, `$#` without or outside the
    implicit repeater, several implicit repeaters, text given as one multi-line / padded string together with an
    implicit repeater (one string without one, and a single trimmed line, are in gen_wrap_alias), line breaks inside a wrap line):
    model/implementation comparison only, plus "no internal error" where `$#` is involved."""
    rng = ctx.rng
    frags = ['{', '}', '\\', '$', '$#', '${1}', '${1:x}', '*', '*2', '>', '+', '^', '(', ')', '[', ']', '"', "'", ' ', 'a', 'p', 'li',
             '=', '.', '#', '{$#}', '[t=$#]', 'p*', '{x}', '\n', '\x0c', 'é', '$$@-', '/']
    texts = [None, 'one', ' two\nthree ', '', ['a', 'b'], ['a', '', ' b ', 'c\nd'], [], ['$#', '${1}'], 'x\x0cy']
    out = []
    for _ in range(n):
        abbr = ''.join(rng.choice(frags) for _ in range(rng.randint(1, 7)))
        cfg = plain() if rng.random() < 0.5 else dict(rng.choice(FORMATS))
        t = rng.choice(texts)
        if t is not None:
            cfg = dict(cfg, text=t)
        out.append(case('outside-domain', abbr, None, cfg, total='$#' in abbr))
    return out


# ---------------------------------------------------------------- snippet-alias element names, text as one string
# Element names that the HTML snippet registry resolves to another element (renamed tag and/or default attributes).
# The expected tag and attributes are DOCUMENTED facts, hard-coded here from the Emmet cheat sheet
# (https://docs.emmet.io/cheat-sheet/, section HTML; fields print as nothing under PLAIN), deliberately NOT read from
# emmet/snippets/html.py: name -> (tag, attributes as written in the opening tag, void element).
ALIASES = {
    'a': ('a', ' href=""', False), 'a:link': ('a', ' href="http://"', False), 'a:mail': ('a', ' href="mailto:"', False),
    'abbr': ('abbr', ' title=""', False), 'acr': ('acronym', ' title=""', False), 'bdo': ('bdo', ' dir=""', False),
    'map': ('map', ' name=""', False), 'form': ('form', ' action=""', False),
    'form:get': ('form', ' action="" method="get"', False), 'form:post': ('form', ' action="" method="post"', False),
    'label': ('label', ' for=""', False), 'select': ('select', ' name="" id=""', False),
    'opt': ('option', ' value=""', False), 'option': ('option', ' value=""', False),
    'video': ('video', ' src=""', False), 'audio': ('audio', ' src=""', False),
    'ifr': ('iframe', ' src="" frameborder="0"', False), 'obj': ('object', ' data="" type=""', False),
    'btn:s': ('button', ' type="submit"', False), 'btn:r': ('button', ' type="reset"', False),
    'bq': ('blockquote', '', False), 'btn': ('button', '', False), 'fig': ('figure', '', False),
    'figc': ('figcaption', '', False), 'pic': ('picture', '', False), 'cap': ('caption', '', False),
    'colg': ('colgroup', '', False), 'fst': ('fieldset', '', False), 'fset': ('fieldset', '', False),
    'optg': ('optgroup', '', False), 'leg': ('legend', '', False), 'sect': ('section', '', False),
    'art': ('article', '', False), 'hdr': ('header', '', False), 'ftr': ('footer', '', False), 'adr': ('address', '', False),
    'dlg': ('dialog', '', False), 'str': ('strong', '', False), 'prog': ('progress', '', False), 'mn': ('main', '', False),
    'tem': ('template', '', False), 'out': ('output', '', False), 'det': ('details', '', False), 'sum': ('summary', '', False),
    'datal': ('datalist', '', False), 'datag': ('datagrid', '', False), 
    # void elements (no children are generated below them; as the receiving element they still carry the text)
    'br': ('br', '', True), 'kg': ('keygen', '', True), 'hr': ('hr', '', True), 'img': ('img', ' src="" alt=""', True),
    'emb': ('embed', ' src="" type=""', True), 'src': ('source', '', True), 'area': ('area', ' shape="" coords="" href="" alt=""', True),
}
ALIAS_NAMES = sorted(ALIASES)
ALIAS_OPEN = [k for k in ALIAS_NAMES if not ALIASES[k][2]]
STR_BREAKS = ['\n', '\n', '\n', '\r\n', '\r']
# documented `markup.href` feature (an `a` receiving a URL or an e-mail address gets it as href): texts that could look
# like one are generated with the option switched off, so that the text clause alone decides the expected output
RE_HREFISH = re.compile(r'//|www\.|ftp\.|@|https?:|ftp:|file:', re.I)


def rand_w_alias(rng, depth, p_alias):
    """Random element subtree whose names are snippet aliases with probability p_alias (void aliases only as leaves)."""
    kids = []
    if depth < 3 and rng.random() < (0.85 if depth == 0 else 0.55):
        kids = [rand_w_alias(rng, depth + 1, p_alias) for _ in range(rng.choice([1, 1, 2, 3]))]
    if rng.random() < p_alias:
        name = rng.choice(ALIAS_OPEN if kids or rng.random() < 0.8 else ALIAS_NAMES)
    else:
        name = rng.choice(g.WNAMES)
    return g.W(name, rng.choice(['', '', '', 't', 'ab ']), kids=kids)


def pieces_alias(items, lenient_void=False):
    """Expected pieces of a forest of text_gen.X under PLAIN where names may be snippet aliases.  lenient_void: the
    supplied text is empty/blank, a void element may then be written `<x>` or `<x></x>` (no character of text is
    concerned, the statement does not choose)."""
    s = []
    for x in items:
        tag, attrs, void = ALIASES.get(x.name, (x.name, '', False))
        s.append('<' + tag + attrs)
        if x.title is not None:
            s.append(' title="' + g.attr_value_form(x.title) + '"')
        s.append('>')
        if x.text:
            s.append(['T', x.text])
        s.extend(pieces_alias(x.kids, lenient_void))
        if not (void and not x.text and not x.kids):
            s.append('</' + tag + '>')
        elif lenient_void:
            s.append(['A', '', '</' + tag + '>'])
    return s


def all_w(roots):
    out = []

    def go(n):
        out.append(n)
        for k in n.kids:
            go(k)
    for r in roots:
        go(r)
    return out


def gen_wrap_alias(ctx, n):
    """Wrap text in BOTH documented forms of the `text` option -- a list of lines or one string -- around trees whose
    element names are snippet aliases (renamed tags, default attributes, void elements) at every position: as the
    receiving (deepest last) element, as its ancestors, as siblings before and after it.  One string without an
    implicit repeater is "the whole text": inserted once (trimmed like the joined lines) into the deepest last
    element, nowhere else.  One string WITH an implicit repeater is in the statement's domain only when it is a
    single non-blank already trimmed line (one copy carrying it); other strings there go to the model comparison."""
    rng = ctx.rng
    out = []
    # every alias once in each role: alone, as the receiving element below a plain element, as the parent of the
    # receiving element, as parent and receiver at once -- with the text in both forms
    k = 0
    for nm in ALIAS_NAMES:
        void = ALIASES[nm][2]
        other = ALIAS_OPEN[(k * 7 + 3) % len(ALIAS_OPEN)]
        k += 1
        shapes = [nm, 'p>' + nm, 'div>em+' + nm] + ([] if void else [nm + '>span', nm + '>i+' + other, 'div>' + nm + '>em>b'])
        for abbr in shapes:
            roots = parse_simple(abbr)
            for text in (rng.choice(['Hello', ' T*x+y>z ', '(a)[b]{c}\n$# ${1}', 'ul>li*2']), [rng.choice(['Hello', ' $$ ', 'p*3'])]):
                lines = text if isinstance(text, list) else [text]
                out.append(case('wrap:alias-plain' + (':str' if isinstance(text, str) else ''), abbr,
                                pieces_alias(g.expect_wrap(roots, lines)), plain({'text': text})))
    for _ in range(n):
        p_alias = rng.choice([0.0, 0.5, 0.5, 1.0])
        roots = [rand_w_alias(rng, 0, p_alias) for _ in range(rng.choice([1, 1, 1, 2, 3]))]
        nodes = all_w(roots)
        as_str = rng.random() < 0.6
        lines = g.rand_lines(rng)
        starred = rng.random() < 0.4
        if as_str:
            if starred:
                nb = [l.strip() for l in lines if l.strip() and not g.RE_BREAK.search(l.strip())]
                text = rng.choice(nb) if nb else 'one'
            else:
                k = rng.random()
                text = (rng.choice(lines) if lines else '') if k < 0.3 else rng.choice(STR_BREAKS).join(lines)
                if rng.random() < 0.3:
                    text = rng.choice(['', ' ', '\n', '\t ']) + text + rng.choice(['', ' ', '\n', ' \n'])
            lines = [text]
        else:
            text = lines
        if starred:
            target = rng.choice(nodes)
            target.star = True
            if rng.random() < 0.5:
                g.sprinkle_ph(rng, target, rng.choice([0.3, 0.6, 1.0]))
                for nd in all_w([target]):
                    if nd.name in ALIASES:
                        nd.ph_attr = False       # attribute ORDER on an alias element is not C04's business
                if not g.has_ph(target):
                    target.ph = True
        abbr = g.render_roots(roots)
        whole = '\n'.join(lines)
        opts = {'markup.href': False} if (RE_HREFISH.search(whole) or rng.random() < 0.15) else None
        cfg = plain({'text': text, 'options': opts} if opts else {'text': text})
        kind = 'wrap:alias-' + ('implicit' if starred else 'plain') + ('+$#' if any(g.has_ph(r) for r in roots) else '') + (':str' if as_str else '')
        out.append(case(kind, abbr, pieces_alias(g.expect_wrap(roots, lines), not any(l.strip() for l in lines)), cfg))
        if any(nd.name in ALIASES for nd in nodes):
            ctx.cover('wrap:alias-name-present')
        if any(l.strip() for l in lines):
            ctx.nontrivial((abbr, text if as_str else tuple(lines)))
    # strings that are not one trimmed line, with an implicit repeater, and snippets that expand to several elements
    # (`ul+`, `dl+`, `table+`, `select+`, `pic+`): which element is "deepest last" / what "a line" is there is not
    # fixed by the statement -- model/implementation comparison only
    multi = ['ul+', 'ol+', 'dl+', 'table+', 'select+', 'pic+', 'map+', 'ri:d', 'tr+']
    for _ in range(n // 4):
        x = rand_w_alias(rng, 1, 0.5)
        k = rng.random()
        if k < 0.5:
            x.star = True
            text = rng.choice(STR_BREAKS).join(g.rand_lines(rng)) + rng.choice(['', ' ', '\n'])
            abbr = g.render_roots([x])
        else:
            m = rng.choice(multi)
            abbr = rng.choice(['%s', '%s>' + g.render_w(x), g.render_w(x) + '>%s', 'div>%s*', '%s*']) % m
            text = g.rand_lines(rng)
            if rng.random() < 0.5:
                text = '\n'.join(text)
        out.append(case('outside-domain:alias', abbr, None, plain({'text': text})))
    return out


def parse_simple(abbr):
    """`a>b+c>d` (names, `>` and `+` only) -> list of text_gen.W roots."""
    roots = []
    level = roots
    for part in re.split(r'(>)', abbr):
        if part == '>':
            level = level[-1].kids
            continue
        for nm in part.split('+'):
            level.append(g.W(nm))
    return roots


RE_UNI_TAG = re.compile(r'<[\w\-:]*[^\x00-\x7f]')


def outside_model(cs):
    abbr, cfg, meta = cs
    t = cfg.get('text')
    texts = [abbr, g.unescape(abbr)] + ([t] if isinstance(t, str) else list(t) if isinstance(t, list) else [])
    return any(RE_UNI_TAG.search(x) for x in texts)


def tree_tie(ctx, cases):
    tmodel = ctx.model('text')
    wires = []
    trees = []
    for abbr, cfg, meta in cases:
        text = cfg.get('text')
        mr = cfg.get('maxRepeat')
        t = text_tree.impl_tree(abbr, text, mr)
        trees.append(t)
        ctx.count_eval()
        wires.append(text_tree.enc_case(abbr, text, mr))
        # tree-level oracle: `p{T}` yields the single node p whose value is [unescape T]
        if meta.get('kind') in ('text', 'exh:text') and abbr.startswith('p{') and abbr.endswith('}'):
            V = g.unescape(abbr[2:-1])
            want = ('ok', (('p', (('s', V),) if V else None, None, None, False, ()),))
            if t != want:
                ctx.property_failure('C04tree:%s' % abbr, 'C04 abbreviation tree of %r is %r, the statement gives %r' % (abbr, t, want),
                                     {'abbr': abbr, 'config': cfg, 'meta': meta, 'impl': repr(t)[:500], 'why': 'tree'})
    dis = 0
    if tmodel is not None:
        outs = tmodel.run(wires)
        for (abbr, cfg, meta), t, w in zip(cases, trees, outs):
            mo = text_tree.decode_tree(w)
            if t[0] == 'recursion':
                continue
            if mo != t:
                dis += 1
                if dis <= 5:
                    ctx.say('DISAGREE C04tree %r text=%r\n  impl  %r\n  model %r' % (abbr, cfg.get('text'), str(t)[:400], str(mo)[:400]))
                    ctx.broken.append({'kind': 'correspondence', 'file': 'text-tree', 'input': abbr, 'text': cfg.get('text'),
                                       'impl': repr(t)[:300], 'model': repr(mo)[:300]})
    c = ctx.cov['correspondence'].setdefault('abbreviation_tree', {'cases': 0, 'disagreements': 0})
    c['cases'] += len(wires)
    c['disagreements'] += dis
    # the SPEC of C04_wrap_implicit / C02_limit_full_with_wrap (convert_w: unroll_w + place_line + finish_w, extracted
    # from proofs/WrapFull.v by run/WrapRun.v) against the implementation's tree: every case, every text, every limit
    smodel = ctx.model('wrap')
    sdis = 0
    if smodel is not None:
        outs = smodel.run(wires)
        for (abbr, cfg, meta), t, w in zip(cases, trees, outs):
            sp = text_tree.decode_tree(w)
            if t[0] == 'recursion':
                continue
            if t[0] != 'ok' and sp[0] != 'ok' and t[0] == sp[0] == 'internal':
                continue
            if sp != t:
                # the spec is total where the converter raises (a Repeater token inside a value cannot come out of
                # the tokenizer; `$#` never raises after fix fb6dafb): any difference is reported
                sdis += 1
                if sdis <= 5:
                    ctx.say('DISAGREE C04 wrap spec %r text=%r maxRepeat=%r\n  impl %r\n  spec %r'
                            % (abbr, cfg.get('text'), cfg.get('maxRepeat'), str(t)[:400], str(sp)[:400]))
                    ctx.broken.append({'kind': 'correspondence', 'file': 'wrap-spec', 'input': abbr, 'text': cfg.get('text'),
                                       'maxRepeat': cfg.get('maxRepeat'), 'impl': repr(t)[:300], 'spec': repr(sp)[:300]})
    c = ctx.cov['correspondence'].setdefault('wrap_spec_convert_w', {'cases': 0, 'disagreements': 0})
    c['cases'] += len(wires) if smodel is not None else 0
    c['disagreements'] += sdis


# ---------------------------------------------------------------- run
def run(ctx):
    ok = ctx.build(['props/C04.vo', 'props/C04Wrap.vo', 'run/MarkupRun.vo', 'run/TextRun.vo', 'run/WrapRun.vo'])
    if ok:
        ctx.obligations('props/C04.v')
        ctx.obligations('props/C04Wrap.v')
    model = ctx.model('markup') if ok else None
    ctx.cov['rule'] = (
        'payloads generated from the whole ASCII punctuation + white space + unicode (incl. U+2028, U+0085, form feed), escaped so '
        'that braces balance, written at every text position (element text, bare text node, quoted / unquoted / expression '
        'attribute value); all payloads up to the stated length over the special characters exhaustively; wrap line lists with '
        'blank lines, padded lines and lines that look like abbreviations / numbering / fields, abbreviation trees with at most one '
        'implicit repeater on an element or group, with `$#` in text and attribute positions or without, and (wrap:nested-*) explicit '
        'repeaters at several depths inside the implicitly repeated element with `$#` at several depths; (wrap:alias-*) the `text` '
        'option in both forms, a list of lines or ONE string (single line, multi-line with LF/CR/CRLF, padded, blank, empty; with an '
        'implicit repeater only a single trimmed line), around trees whose element names are HTML snippet aliases (renamed tags, '
        'default attributes, void elements; expected tags hard-coded from the Emmet cheat sheet) in every role -- receiving element, '
        'its ancestors, earlier and later siblings -- each alias swept once per role, then random trees mixing alias and plain names, '
        'markup.href on and off; multi-element snippets (`ul+`, `table+` ...) and multi-line strings under an implicit repeater are '
        'compared model vs implementation only; (typed:*, harness/wrap_gen2.py) abbreviations AS TYPED: explicit repeat counts at '
        'their numeric boundaries in every spelling (*0 *00 *000 *1 *01 *001 *2 *02 *3 *03 *10 *010) on elements and groups beside, '
        'below, instead of the implicit repeater (above it: counts 0 and 1 only), with line lists and without text; for a count of '
        'ZERO the statement does not fix the number of copies: no copy and one copy are both accepted, a number depending on the '
        'lines is not; the repeater written directly after the name / between attributes and text / last; attributes and text in '
        'either order; `$#` in unquoted, double-quoted, single-quoted and {expression} attribute values with literal text around '
        'it, up to 3 attributes per element; HALF-TYPED abbreviations whose closing `}` `]` `)` at the end are not typed yet (1 .. all '
        'missing; each value form and text swept as the last thing typed with and without `$#`): the expected output is that of '
        'the completed abbreviation; non-trivial = non-empty '
        'payload / at least one non-blank line; distinct by (abbreviation, lines). Oracle: the output predicted from the payload by '
        'the statement (unescape; per-line placement) must equal emmet.expand under a configuration that adds nothing between tags. '
        'Outside-domain inputs are compared model vs implementation only. (nested:*) payloads in which literal runs alternate with `$` '
        'counters (every width / @ / @- / start value), `$#` and ${n} / ${n:placeholder} fields standing at brace depths 0..5 of '
        'balanced inner braces (text_gen.payload_nested; every item kind at depths 0..3 swept), as element text alone, repeated, '
        'under a repeated parent / group, and as an {expression} attribute value; oracle: output text = the payload with escapes '
        'resolved, inner braces kept, every counter replaced by its value in copy i of N (1 outside repeaters); plus the front-end '
        'oracle (tokens in order, closing brace = last character, abbreviation tree per copy). (runs:*) RUNS OF TEXT PARTS on one unit: '
        '`name{T1}{T2}`, `name{T1}.c#i[a=b]{T2}{T3}`, up to 4 texts, bare `{T1}{T2}`, each text EMPTY (`{}`, 40 percent), blank (space, tab, NBSP, a '
        'lone line break) or a random payload, every combination of 8 basic first/second texts swept with and without attribute parts '
        'between them, alone / under a parent / in a group / in a repeated group / followed by `+q` `>i` `*2` `^q`; a unit has ONE text, each '
        'further `{...}` is a text node of its own following it: expected `<name attrs>T1</name>T2T3` whatever is empty; with wrap '
        'lines the implicit repeater written at every place of the unit before the second text (copies of the unit, each with its line '
        'appended to T1 or at its `$#`, T2.. once after them), on the last text of the run (one copy of that text per line), or absent '
        '(whole text into the deepest last element, which may be the trailing text node). (hook:*) USER `output.text` HOOKS: %d named '
        'pure functions (%s) installed as the documented text processor; texts and wrap lines made of ONE character class (zero-width '
        'characters, white space, letters, digits, punctuation, non-ASCII) of length 1/2/4 at every text position under every hook, plus a '
        'random hook on a sample of all statement-level cases above; oracle: the pieces handed to the hook concatenate to the output '
        'the statement predicts (text reaches the hook verbatim) and the result is exactly the concatenation of what the hook returned, '
        'also where that is the empty string for a non-empty piece; hooks are outside the Coq model (identity hook only): oracle only.'
        % (len(HOOKS), ', '.join(HOOK_NAMES)))
    quick = ctx.tier == 'quick'
    cases = gen_corpus(ctx)
    cases += gen_exhaustive(ctx)
    cases += gen_random_payloads(ctx, 2500 if quick else 40000)
    cases += gen_indent(ctx, 600 if quick else 10000)
    cases += gen_wrap(ctx, 1500 if quick else 25000)
    cases += gen_wrap_nested(ctx, 800 if quick else 12000)
    cases += gen_wrap_alias(ctx, 900 if quick else 20000)
    cases += gen_typed(ctx, 700 if quick else 25000)
    cases += gen_text_runs(ctx, 700 if quick else 20000)
    cases += gen_outside(ctx, 1500 if quick else 30000)
    nested = gen_nested(ctx, 1200 if quick else 12000)
    cases += nested
    inplace_text_sequences(ctx)
    for _, _, meta in cases:
        ctx.cover('kind:' + meta['kind'])
    # 1. oracle + model comparison on every callback event, configuration as generated.
    # Model idealisation (DESIGN section 2, FormatHtml.starts_with_block_tag): the formatter's regex
    # <[\w\-:]+[\s>] is modelled with ASCII \w, so a text that starts a tag-like run reaching a non-ASCII
    # character is compared by the oracle only.
    modelled = [k for k, cs in enumerate(cases) if not outside_model(cs)]
    unmodelled = [k for k, cs in enumerate(cases) if outside_model(cs)]
    ctx.cover('model:unicode-tag-name-not-modelled', len(unmodelled))
    impl = [None] * len(cases)
    for k, r in zip(modelled, run_cases(ctx, model, [cases[k] for k in modelled], 'C04', None, mode='events')):
        impl[k] = r
    for k, r in zip(unmodelled, run_cases(ctx, model, [cases[k] for k in unmodelled], 'C04', None, mode='events',
                                          compare_model=False)):
        impl[k] = r
    for (abbr, cfg, meta), r in zip(cases, impl):
        bad = oracle(abbr, cfg, meta, r)
        if bad:
            ctx.property_failure('C04:%s|%s' % (abbr, canon_cfg(cfg)), 'C04 expand(%r, %s): %s' % (abbr, canon_cfg(cfg), bad),
                                 {'abbr': abbr, 'config': cfg, 'meta': meta, 'impl': repr(r[:2])[:500], 'why': bad})
    # 1b. user `output.text` hooks (named pure functions, some returning '' for non-empty pieces): oracle only, the model has
    # the identity hook
    hook_stream(ctx, gen_hook_cases(ctx, cases, 1500 if quick else 20000))
    # 2. the same abbreviations under formatting configurations: model vs implementation (output string)
    rng = ctx.rng
    second = []
    for abbr, cfg, meta in [cases[k] for k in modelled][::3]:
        c2 = json.loads(json.dumps(rng.choice(FORMATS)))
        if 'text' in cfg:
            c2['text'] = cfg['text']
        second.append((abbr, c2, meta))
    run_cases(ctx, model, second, 'C04fmt', None, mode='expand')
    # 3. the abbreviation tree itself (tokenize + parse + convert: what C04_text_literal, C04_wrap_* speak about):
    # implementation vs extracted parse_abbr on every case, plus the tree-level oracle for plain text elements
    tree_tie(ctx, cases)
    # 3b. payloads with counters / `$#` / fields inside nested braces: tokens, closing brace and tree against the statement
    nested_front_end(ctx, nested)
    # 4. attribute positions at tree level (C04_attr_value_literal, C04_group_bracket_attr): `name[n<value>]` for every
    # value form over the whole alphabets of the theorem; oracle = the written value against emmet.abbreviation.parse
    atg.run_stream(ctx, 'C04', 0, 0, 1500 if quick else 40000, kinds={'value', 'textelem'}, n_textelem=700 if quick else 20000)
    # 5. text on elements that carry attributes, whole pipeline (C04_expand_text_element): <name attr...>TEXT</name>
    atg.run_expand_stream(ctx, 'C04', 400 if quick else 10000, text_only=True)
    # 6. markup.href: URL / e-mail like wrap texts on an `a` that receives the whole text (harness/href_util.py)
    import href_util
    href_util.run_c04(ctx, model)
    k = 0
    for (abbr, cfg, meta), r in zip(cases, impl):
        if meta.get('pieces') and meta['kind'].startswith(('wrap', 'attr', 'text')) and k < 8 and len(abbr) < 60:
            k += 1
            ctx.sample({'abbr': abbr, 'text': cfg.get('text'), 'kind': meta['kind'], 'output': r[1][:160] if r[0] == 'ok' else r})


def inplace_text_sequences(ctx):
    """`text` lines supplied as ONE list object that the caller edits in place between calls (an editor's buffer):
    every call must use the lines the list holds at that moment."""
    from emmet import expand
    edits = [lambda L: L.append('gamma'), lambda L: L.__setitem__(0, 'ALPHA'), lambda L: L.pop(), lambda L: L.insert(1, '  '),
             lambda L: L.extend(['x y', '$#', 'ul>li*2']), lambda L: L.clear(), lambda L: L.append('only')]
    n = 0
    for abbr in ('ul>li*', 'ul>li[title=$#]{[$#]}*', 'div>p*>b', 'ul>li'):
        L = ['alpha', 'beta']
        cfg = plain({'text': L})
        cfg['text'] = L                     # the same object in every call
        steps = []
        for step in range(len(edits) + 1):   # first the whole sequence on the one list object ...
            try:
                got = expand(abbr, cfg)
            except Exception as e:  # noqa
                got = repr(e)
            steps.append((list(L), got))
            if step < len(edits):
                edits[step](L)
        for step, (snapshot, got) in enumerate(steps):   # ... then what each call should have produced
            want = expand(abbr, plain({'text': list(snapshot)}))
            n += 1
            ctx.count_eval()
            ctx.cover('wrap:list-edited-in-place')
            nb = [l.strip() for l in snapshot if l.strip()]
            bad = None
            if got != want:
                bad = 'with the caller\'s list object (holding %r at that call) the result is %r, with an equal fresh list %r' % (snapshot, got, want)
            elif abbr == 'ul>li*' and nb and isinstance(got, str) and got.count('<li>') != len(nb):
                bad = '%d non-blank lines, %d copies' % (len(nb), got.count('<li>'))
            if bad:
                ctx.property_failure('C04:list-edited-in-place:%s:%d' % (abbr, step),
                                     'C04 expand(%r) with wrap lines held in one list edited in place between calls (call %d): %s' % (abbr, step, bad),
                                     {'component': 'C04-inplace', 'abbr': abbr, 'step': step, 'why': bad})
                break
    ctx.cov['inplace_text_sequences'] = n


def replay(ctx, obj):
    rp = obj.get('replay', {})
    if 'abbr' not in rp:
        print('replay names a broken obligation, no input: %s' % str(rp)[:300])
        return 1
    if rp.get('component') == 'C04-inplace':
        n0 = len(ctx.violations)
        inplace_text_sequences(ctx)
        bad = [v for v in ctx.violations[n0:]]
        print('wrap lines in one list edited in place between calls: %s' % (bad[0]['what'] if bad else 'property holds'))
        return 1 if bad else 0
    if rp.get('component') == 'text-tree':
        return atg.replay(rp)
    if rp.get('component') == 'C04-nested':
        return replay_nested(rp)
    if rp.get('component') == 'C04-hook':
        return replay_hook(rp)
    if rp.get('component') == 'C04expand':
        return atg.replay_expand(rp)
    if rp.get('component') == 'C04href':
        import href_util
        return href_util.replay_c04(rp)
    r = impl_expand(rp['abbr'], rp['config'])
    bad = oracle(rp['abbr'], rp['config'], rp.get('meta'), r)
    print('expand(%r, %s) -> %r' % (rp['abbr'], canon_cfg(rp['config']), r))
    print('property %s' % ('FAILS: ' + bad if bad else 'holds on this input'))
    return 1 if bad else 0
