"""C20 -- Configuration layers override each other in the documented order.

Layers run here (DESIGN.md section 1.2 and "C20"):
  * obligations: coq/props/C20.v (Print Assumptions per theorem); the statement order of merged_data
    and the shape of Config.__init__ are re-read from the AST on every run (gen/GenLayerOrder.v) and the
    built-in tables are re-emitted (gen/GenConfig.v), so the theorems are re-checked against the code as it is;
  * tie: the same configurations go through `Config(user, global)` of the implementation and through the
    extracted model (coq/run/ConfigRun.v): resolved type, syntax and the complete merged dict of every
    section (values abstracted to ids); for the fresh-probe table the model side is the very function the
    sweep theorem C20_tables_for_all_syntaxes speaks about (`planted_result`), and the SPEC's own answer
    (`spec_lookup`) is compared with the oracle on sampled keys;
  * search: an independent ORACLE states the property directly on the implementation's result:
      - precedence / untouched: for every key of the union of the six layers, the effective value is the value
        of the most specific layer that defines it; the result has no other key (whole dict, every section);
      - purity: the built-in tables and the caller's dictionaries are deep-equal before and after;
      - unknown syntax: the result is the merge of built-in defaults, type defaults, global type config and the
        call's config only, and is the same for every unknown name;
      - the same through `emmet.expand(abbr, config, global_config)`: an option / snippet / variable whose
        effect is visible in the output shows the marker of the winning layer and no other marker, and the
        output equals the output for the flattened (single-layer) configuration the oracle computed.

  * expand model (coq/proofs/ConfigExpand.v, theorems C20_expand_uses_merged / C20_expand_layers_congruent): a Gallina
    model of emmet.expand(abbr, config, global_config) = config_init, then decoding of the merged dictionaries into the
    configuration records of the pipeline models, then the markup / stylesheet pipeline model.  It is executed on every
    case that goes through expand: resolved type markup (or any non-stylesheet name) through the extracted model
    (coq/run/CfgexpandRun.v; every such case), resolved type stylesheet inside Coq (coq/run/CfgexpandShow.v; the
    stylesheet pipeline model uses floats) -- every case in the thorough tier, a seeded sample covering every
    (syntax name, section) in the quick tier; compared: the output string, resp. the error class.  The values of the
    built-in tables come from coq/gen/GenConfigVals.v, regenerated from emmet/config.py on every run.

      - documented effect (harness/cfgeffect_util.py): the two expand clauses above compare expand() with expand() or
        look for a non-empty marker, so they cannot see a CONSUMER of an option that prefers a less specific layer again
        (a flag derived from the syntax name or-ed with the merged option; `options.get(k) or <built-in default>` that
        fires for a defined empty value).  For every option with a documented visible effect the output must show the
        effect that the documentation states for the value the oracle's merge makes effective -- hard-coded documented
        facts, no second run of the implementation; values of the documented type, the explicit empty / False / 0 /
        [] / {} value always among them; element / property names come from snippets the case itself supplies.

THE TABLE (exhaustive, `exhaustive: true`): for each abbreviation type, every syntax name of
  known    SYNTAXES[type]
  cross    the syntaxes of the other type (not syntaxes of this type; table keys like 'sass' apply as written)
  pseudo   keys of SYNTAX_CONFIG that no SYNTAXES list names: 'markup', 'stylesheet', 'xhtml'
  unknown  names that are neither listed nor table keys: 'zzz', '', 'HTML', 'html5'
x {variables, snippets, options} x all 2^6 subsets of {built-in defaults, type defaults, syntax defaults, global
type config, global syntax config, the call's config} in which a probe key is planted with the layer's own marker
(2^5 subsets of the overriding layers, each with and without a built-in default).  Built-in layers are planted
by temporarily replacing emmet.config.DEFAULT_CONFIG / SYNTAX_CONFIG with copies that hold the probe (harness
side only; restored after every case).  Two probes per cell: a fresh key no table uses, and a key whose effect
is visible through expand.  In addition the "natural" table: unpatched tables, all 2^3 subsets of the caller's
layers redefining real built-in keys of every built-in definedness pattern.

THE EFFECT TABLE (gen_effects, gen_empty_winner; unpatched tables unless a syntax-defaults entry is planted): syntax
names = every known syntax of the type, 'xhtml', one unknown name (thorough, markup: every name of THE TABLE) x every entry of
cfgeffect_util.EFFECTS x winning layer in {global type, global syntax, call} x every value of the entry, the other
layers silent / all less specific caller layers defining another value / a planted syntax-defaults entry defining another
value (thorough: all three; quick: one drawn from ctx.rng), plus "no caller layer" (the real built-in default or the real
syntax default is effective) and "planted syntax default alone".  empty-winner: the visible probes of all three sections
with the EMPTY STRING in the winning caller layer above marker-carrying layers.

FORM entries of the effect table (cfgeffect_util.MARKUP_FORM_EFFECTS / CSS_FORM_EFFECTS): the plain entries show every
option on ONE abbreviation, so a consumer that sits on a path only another abbreviation feature reaches (the writer of the
`!important` flag, the value list, the last declaration of the output, a nested / repeated / attribute carrying element)
is never judged.  The string-valued options (stylesheet.after in the middle and at the very end of the output,
stylesheet.between, output.newline, stylesheet.intUnit / floatUnit; output.selfClosingStyle, attributeQuotes, indent,
newline, baseIndent) are repeated on every such form with the text the documentation states for the form; same layer
stacks and values (the empty string always among them) as the plain entries.

KEY-FORM entries of the effect table (cfgeffect_util.MARKUP_KEYFORM_EFFECTS): `markup.attributes` and `markup.valuePrefix`
are MAPPINGS with two documented key forms per attribute (NAME, and NAME* for the repeated shorthand operator `..x` / `##x`;
without a NAME* entry the plain entry applies to the repeated form too).  The plain entries give each mapping in ONE key
form on ONE way of writing the attribute, so a consumer that looks the effective mapping up differently for another key
form / operator form (and so falls back to a less specific layer's or the built-in behaviour) is never judged.  Every key
form of the mapping (no entry / plain only / starred only / both / entries for another attribute only) x every way of
writing the attribute (single, doubled, tripled operator, bracket form, nested repeated element, after another attribute)
for class, id and `for`, with the layer stacks of the plain entries -- the winning layer's mapping replaces the jsx / vue
syntax defaults (which carry starred keys) wholesale.

SCOPE entries of the effect table (cfgeffect_util.CSS_SCOPE_EFFECTS) and THE SCOPED TABLE (gen_scoped_effects): every entry
above expands its abbreviation WITHOUT a `context`, so a consumer of an option that sits in a scope branch of the resolver
(stylesheet: value scope = the abbreviation is the VALUE of the property the context names, '@@property', '@@section',
'@@global'; markup: the context names the parent element) is never judged.  (a) `stylesheet.fuzzySearchMinScore` (no
entry before; values 0 / 0.5 / 1, abbreviations that are prefixes of the one candidate and score 3/10 and 8/10 by the
documented closed form) in global, '@@property', '@@section' and VALUE scope, and stylesheet.intUnit / floatUnit /
unitAliases / shortHex in VALUE scope: full entries of the effect table (every winning layer x value).  (b) every entry
without a context of its own is repeated under the contexts that leave its documented effect unchanged
(cfgeffect_util.UNCHANGED_UNDER).  The flattened-configuration clause carries the call's non-layer entries (`context`)
over to the flattened run.  The expand MODEL treats a call with a `context` as outside its domain (is_absent k_context):
these cases are judged by the oracle (and the Config model) only.

THE KEY-SHAPE TABLE (gen_key_shapes): the statement speaks of EVERY snippet and variable key, THE TABLE plants one
all-lower-case probe key per section.  Keys in every letter-case pattern, with digits and with the separators the
abbreviation syntax allows in a name, and re-cased names of built-in keys (KEY_SHAPES) x syntax names of the effect table x
winning layer = each of the six layers; the key alone, or with its CASE SIBLINGS defined by the other layers under their
own markers (markup; the stylesheet snippet search is case-insensitive by documentation, so no siblings there).  Judged on
Config (whole dicts) and by the marker clause through expand() of the abbreviation that names the key as written.

WHAT "UNKNOWN SYNTAX" MEANS (decided by running the real code, see report in known_findings.d/config.json):
SYNTAX_CONFIG and the global config are ONE name space shared by type names and syntax names (same in upstream
Emmet).  A name is *unknown* when it is neither listed in SYNTAXES nor a key of SYNTAX_CONFIG; for such names
the check demands the fall-back clause.  'xhtml' is a table key that SYNTAXES omits; it is a syntax with
defaults (the test-suite uses it) and the precedence clause applies.  'markup' / 'stylesheet' used as a syntax
name: under their own type the type's layers are fetched twice, which changes no effective value (theorem
C20_syntax_named_as_type; checked here to coincide with the unknown-syntax result); under the other type the
entry is applied as "defaults of the syntax" exactly as the precedence clause says (the other type's snippets
are merged: Config({'syntax': 'stylesheet'}).snippets has the 434 CSS snippets).  That follows the documented
order for the name given and contradicts no clause of the statement, so it is not a finding.

Not judged here (C08's subject): markup.parse writes `user_config['text']` back (adds 'text': None to the
caller's config on every markup expand); the purity clause of C20 is about merging, so on the expand path the
caller's config is compared modulo a 'text' slot that was absent before and is None afterwards.
"""
import copy
import glob
import json
import multiprocessing
import os

import common
from common import enc_str, enc_list, Reader
import config_util as cu
import cfgexpand_util as xu
import cfgeffect_util as fx

SECTIONS = cu.SECTIONS                     # ('variables', 'snippets', 'options')
LAYERS = ['Default', 'TypeDefaults', 'SyntaxDefaults', 'TypeOverride', 'SyntaxOverride', 'User']
MARKERS = ['Lx%d' % i for i in range(6)]   # the value layer i plants (no marker is a substring of another)
FRESH = 'zz.c20.probe'                     # = ConfigTables.probe
UNKNOWN_NAMES = ['zzz', '', 'HTML', 'html5']

# (type, section) -> (visible key, abbreviation, value template); '%s' receives the marker
VISIBLE = {
    ('markup', 'options'): ('output.indent', 'div>p', '%s'),
    ('markup', 'snippets'): ('zzq', 'zzq', 'span.%s'),
    ('markup', 'variables'): ('zzv', 'p{${zzv}}', '%s'),
    ('stylesheet', 'options'): ('stylesheet.intUnit', 'p10', '%s'),
    ('stylesheet', 'snippets'): ('zzq', 'zzq', 'zzprop:%s'),
    # ('stylesheet', 'variables'): the stylesheet pipeline never reads variables: nothing is visible in the output
}


# ------------------------------------------------------------------ implementation access
def _cfg():
    import emmet.config as cfg
    return cfg


def _emmet():
    import emmet
    return emmet


class Tables:
    """The built-in tables of the implementation: live objects, a deep baseline copy taken at start,
    and (un)installation of planted copies."""

    NAMES = ('DEFAULT_CONFIG', 'SYNTAX_CONFIG', 'DEFAULT_OPTIONS', 'DEFAULT_SYNTAXES', 'SYNTAXES')

    def __init__(self):
        self.cfg = _cfg()
        import emmet.snippets as sn
        self.sn = sn
        self.live = {n: getattr(self.cfg, n) for n in self.NAMES}
        self.live_sn = {n: getattr(sn, n) for n in ('markup_snippets', 'stylesheet_snippets', 'xsl_snippets',
                                                    'pug_snippets', 'variables')}
        self.base = copy.deepcopy(self.live)          # functions are atomic for deepcopy: same objects
        self.base_sn = copy.deepcopy(self.live_sn)
        self.base_strict = strict(self.live), strict(self.live_sn)
        try:
            self.ids, self.ids_error = cu.ValueIds(self.cfg), None
        except Exception as e:
            self.ids, self.ids_error = None, repr(e)

    @staticmethod
    def plant(default, sc, patches):
        """Copies of (DEFAULT_CONFIG, SYNTAX_CONFIG) with the patches applied in order; only the dicts on the
        path are copied.  tag 0: DEFAULT_CONFIG[sec][key] = v; tag 1: SYNTAX_CONFIG[name][sec][key] = v."""
        if not patches:
            return default, sc
        default = dict(default)
        sc = dict(sc)
        fresh = set()

        def own(container, k):
            cur = container.get(k)
            if (id(container), k) not in fresh:
                cur = dict(cur) if cur is not None else {}
                container[k] = cur
                fresh.add((id(container), k))
            return cur
        for tag, name, sec, key, v in patches:
            if tag == 0:
                own(default, sec)[key] = v
            else:
                layer = own(sc, name)
                own(layer, sec)[key] = v
        return default, sc

    def install(self, patches):
        d, s = self.plant(self.live['DEFAULT_CONFIG'], self.live['SYNTAX_CONFIG'], patches)
        self.cfg.DEFAULT_CONFIG, self.cfg.SYNTAX_CONFIG = d, s
        return d, s

    def uninstall(self):
        self.cfg.DEFAULT_CONFIG, self.cfg.SYNTAX_CONFIG = self.live['DEFAULT_CONFIG'], self.live['SYNTAX_CONFIG']

    def reference(self, patches):
        """What the installed tables must still equal after a call (built from the baseline copy)."""
        return self.plant(self.base['DEFAULT_CONFIG'], self.base['SYNTAX_CONFIG'], patches)

    def modified(self, installed, patches):
        """None, or a description of the first built-in table that differs from its state before the call."""
        for n in self.NAMES:
            if self.live[n] != self.base[n]:
                return 'emmet.config.%s' % n
        for n in self.live_sn:
            if self.live_sn[n] != self.base_sn[n]:
                return 'emmet.snippets.%s' % n
        if patches:
            rd, rs = self.reference(patches)
            if installed[0] != rd:
                return 'emmet.config.DEFAULT_CONFIG (planted copy)'
            if installed[1] != rs:
                return 'emmet.config.SYNTAX_CONFIG (planted copy)'
        return None

    def modified_strict(self):
        return (strict(self.live), strict(self.live_sn)) != self.base_strict

    def restore(self):
        """Put the baseline contents back into the live objects (after a detected modification)."""
        def put(dst, src):
            if isinstance(dst, dict) and isinstance(src, dict):
                for k in list(dst):
                    if k not in src:
                        del dst[k]
                for k, v in src.items():
                    if k in dst and isinstance(dst[k], (dict, list)) and type(dst[k]) is type(v):
                        put(dst[k], v)
                    else:
                        dst[k] = copy.deepcopy(v)
            elif isinstance(dst, list) and isinstance(src, list):
                dst[:] = copy.deepcopy(src)
        for n in self.NAMES:
            put(self.live[n], self.base[n])
        for n in self.live_sn:
            put(self.live_sn[n], self.base_sn[n])


def strict(v):
    """Type-strict structural snapshot (callables by identity; dicts order-insensitive)."""
    if isinstance(v, dict):
        return ('d', tuple(sorted(((repr(k), strict(x)) for k, x in v.items()), key=lambda p: p[0])))
    if isinstance(v, (list, tuple)):
        return (type(v).__name__, tuple(strict(x) for x in v))
    if callable(v):
        return ('c', id(v))
    return (type(v).__name__, repr(v))


def same_value(a, b):
    """The effective value IS the layer's value: same object, or structurally identical plain data."""
    if a is b:
        return True
    if callable(a) or callable(b):
        return False
    try:
        return strict(a) == strict(b)
    except Exception:
        return False


# ------------------------------------------------------------------ cases
def mk_case(kind, ty, syn, user=None, glob=None, patches=None, **kw):
    c = {'kind': kind, 'type': ty, 'syntax': syn, 'user': user or {}, 'global': glob or {},
         'patches': [list(p) for p in (patches or [])]}
    c.update(kw)
    return c


def user_config_of(case):
    u = {}
    if case['type'] is not None:
        u['type'] = case['type']
    if case['syntax'] is not None:
        u['syntax'] = case['syntax']
    for k, v in copy.deepcopy(case['user']).items():
        u[k] = v
    return u


def materialize(tb, case):
    """The two dictionaries handed to the implementation.  `alias` entries make them share objects with each
    other or with the live built-in tables (call after Tables.install):
      ['user-section-is-builtin', sec]        user[sec] IS DEFAULT_CONFIG[sec]
      ['global-is-syntax-config']             global_config IS SYNTAX_CONFIG
      ['user-section-is-global-section', name, sec]   one dict object in both
      ['user-is-global-layer', name]          global_config[name] IS user_config"""
    user = user_config_of(case)
    glob_ = copy.deepcopy(case['global'])
    for a in case.get('alias') or []:
        if a[0] == 'user-section-is-builtin':
            user[a[1]] = tb.cfg.DEFAULT_CONFIG[a[1]]
        elif a[0] == 'global-is-syntax-config':
            glob_ = tb.cfg.SYNTAX_CONFIG
        elif a[0] == 'user-section-is-global-section':
            glob_.setdefault(a[1], {})[a[2]] = user.setdefault(a[2], {})
        elif a[0] == 'user-is-global-layer':
            glob_[a[1]] = user
    return user, glob_


def effective_case(case, user0, glob0):
    """The case with the aliases written out as plain data (for the model wires)."""
    if not case.get('alias'):
        return case
    eff = dict(case)
    eff['user'] = {k: v for k, v in user0.items() if isinstance(v, dict)}
    eff['global'] = {k: v for k, v in glob0.items() if isinstance(v, dict)}
    return eff


def resolved_names(tb, case):
    """Documented resolution of type and syntax: 'markup'; the type's default syntax, else 'html'."""
    ty = case['type'] if case['type'] is not None else 'markup'
    syn = case['syntax'] if case['syntax'] is not None else tb.base['DEFAULT_SYNTAXES'].get(ty, 'html')
    return ty, syn


def layer_dicts(default, sc, ty, syn, sec, user, glob):
    """The six layers' dicts for one section (None = the layer has no such section), least specific first."""
    def sect(layer):
        return layer.get(sec) if isinstance(layer, dict) else None
    return [sect(default), sect(sc.get(ty)), sect(sc.get(syn)), sect(glob.get(ty)), sect(glob.get(syn)), sect(user)]


def oracle_merge(layers):
    """The documented effective dict: for every key some layer defines, the value of the MOST SPECIFIC
    defining layer (scan from the call's config down to the built-in defaults); nothing else.
    -> {key: (value, index of the winning layer, definedness pattern)}"""
    keys = {}
    for d in layers:
        if d:
            for k in d:
                keys[k] = True
    out = {}
    for k in keys:
        pat = ''.join('1' if (d is not None and k in d) else '0' for d in layers)
        for i in range(len(layers) - 1, -1, -1):
            if layers[i] is not None and k in layers[i]:
                out[k] = (layers[i][k], i, pat)
                break
    return out


def class_of(tb, ty, syn):
    sx = tb.base['SYNTAXES']
    if syn in sx.get(ty, []):
        return 'known'
    if any(syn in v for v in sx.values()):
        return 'cross'
    if syn in tb.base['SYNTAX_CONFIG']:
        return 'pseudo'
    return 'unknown'


def observe(tb, case, with_expand=True):
    """Run the case on the implementation and judge it with the oracle.
    -> dict(failures=[(clause, text)], obs={type, syntax, sections}, expected=..., fatal=bool)"""
    cfg = tb.cfg
    res = {'failures': [], 'obs': None, 'expected': None, 'fatal': False, 'patterns': {}, 'expand': None, 'eff': case}
    fails = res['failures']
    patches = [tuple(p) for p in case['patches']]
    ty, syn = resolved_names(tb, case)
    installed = tb.install(patches)
    user, glob_ = materialize(tb, case)
    user0, glob0 = copy.deepcopy(user), copy.deepcopy(glob_)
    res['eff'] = effective_case(case, user0, glob0)
    try:
        # the layers as they are BEFORE the call (reference copies, never handed to the implementation)
        rd, rs = tb.reference(patches)
        expected = {}
        for sec in SECTIONS:
            expected[sec] = oracle_merge(layer_dicts(rd, rs, ty, syn, sec, user0, glob0))
        res['expected'] = expected
        try:
            c = cfg.Config(user, glob_)
            obs = {'type': c.type, 'syntax': c.syntax, 'sections': {sec: getattr(c, sec) for sec in SECTIONS}}
        except Exception as e:   # no configuration of the stated domain may raise
            fails.append(('raises', 'Config(%r, %r) raises %s: %s' % (user0, glob0, type(e).__name__, e)))
            obs = None
        res['obs'] = obs
        # ---- purity of merging
        m = tb.modified(installed, patches)
        if m:
            fails.append(('purity', 'Config(...) modified the built-in table %s' % m))
            res['fatal'] = True
        if strict(user) != strict(user0):
            fails.append(('purity', 'Config(...) modified the caller\'s config: %r -> %r' % (user0, user)))
        if strict(glob_) != strict(glob0):
            fails.append(('purity', 'Config(...) modified the caller\'s global config: %r -> %r' % (glob0, glob_)))
        # ---- precedence / untouched, whole dict, every section
        if obs is not None:
            if obs['type'] != ty or obs['syntax'] != syn:
                fails.append(('names', 'resolved (type, syntax) = (%r, %r), documented (%r, %r)' % (
                    obs['type'], obs['syntax'], ty, syn)))
            for sec in SECTIONS:
                got = obs['sections'][sec]
                exp = expected[sec]
                if not isinstance(got, dict):
                    fails.append(('precedence', '%s is %s, not a dict' % (sec, type(got).__name__)))
                    continue
                for k, (v, i, pat) in exp.items():
                    if k not in got:
                        fails.append(('precedence', '%s[%r] missing; layers defining it %s, expected the value of %s' % (
                            sec, k, pat, LAYERS[i])))
                    elif not same_value(got[k], v):
                        who = [LAYERS[j] for j, d in enumerate(layer_dicts(rd, rs, ty, syn, sec, user0, glob0))
                               if d is not None and k in d and same_value(d[k], got[k])]
                        fails.append(('precedence', '%s[%r] = %r (value of %s); layers defining it %s: expected %r from %s' % (
                            sec, k, got[k], who or 'no layer', pat, v, LAYERS[i])))
                    if len(fails) > 6:
                        break
                extra = [k for k in got if k not in exp]
                if extra:
                    fails.append(('untouched', '%s has keys no layer defines: %r' % (sec, extra[:5])))
            # ---- unknown syntax: only the type-level layers and the call's config count
            if class_of(tb, ty, syn) == 'unknown' and syn not in glob0 and not any(p[0] == 1 and p[1] == syn for p in patches):
                for sec in SECTIONS:
                    ls = layer_dicts(rd, rs, ty, syn, sec, user0, glob0)
                    exp = oracle_merge([ls[0], ls[1], ls[3], ls[5]])
                    got = obs['sections'][sec]
                    if isinstance(got, dict) and (set(got) != set(exp) or any(not same_value(got[k], exp[k][0]) for k in exp)):
                        fails.append(('unknown-syntax', '%s for unknown syntax %r is not the type\'s defaults plus overrides' % (sec, syn)))
        # ---- through expand
        if with_expand and case.get('abbr') is not None and not res['fatal']:
            res['expand'] = observe_expand(tb, case, ty, syn, expected, installed, patches, fails)
    finally:
        tb.uninstall()
    for sec in SECTIONS:
        res['patterns'][sec] = expected_patterns(res['expected'][sec]) if res['expected'] else {}
    return res


def expected_patterns(exp):
    d = {}
    for k, (v, i, pat) in exp.items():
        d[pat] = d.get(pat, 0) + 1
    return d


def outcome(f):
    try:
        return ('ok', f())
    except Exception as e:
        return ('exc', type(e).__name__)


def observe_expand(tb, case, ty, syn, expected, installed, patches, fails):
    emmet = _emmet()
    abbr = case['abbr']
    user, glob_ = materialize(tb, case)
    user0, glob0 = copy.deepcopy(user), copy.deepcopy(glob_)
    rich = xu.rich_outcome(lambda: emmet.expand(abbr, user, glob_))     # one call, two views of its outcome
    out = ('ok', rich[1]) if rich[0] == 'ok' else ('exc', rich[3] if rich[0] == 'err' else rich[1])
    m = tb.modified(installed, patches)
    if m:
        fails.append(('purity', 'expand(%r, ...) modified the built-in table %s' % (abbr, m)))
    if 'text' not in user0 and user.get('text', 0) is None:
        del user['text']            # markup.parse's save/restore of the text slot: C08, not merging (removed from
        #                             our own dict object, so that views of it through aliases agree as well)
    if strict(user) != strict(user0):
        fails.append(('purity', 'expand(%r, ...) modified the caller\'s config: %r -> %r' % (abbr, user0, user)))
    if strict(glob_) != strict(glob0):
        fails.append(('purity', 'expand(%r, ...) modified the caller\'s global config: %r -> %r' % (abbr, glob0, glob_)))
    # the flattened configuration: one layer (the call's own) holding the oracle's effective values
    flat = {'type': ty, 'syntax': syn}
    for sec in SECTIONS:
        flat[sec] = {k: v for k, (v, i, pat) in expected[sec].items()}
    for k, v in user0.items():
        # entries of the call's config that are no layer (the scope `context`, ...) belong to the call, not to the merge
        if k not in flat:
            flat[k] = copy.deepcopy(v)
    tb.uninstall()           # the flattened configuration runs on the unpatched tables
    fk = (abbr, hash(strict(flat)))
    if fk not in _FLAT_CACHE:
        if len(_FLAT_CACHE) > 2000:
            _FLAT_CACHE.clear()
        _FLAT_CACHE[fk] = outcome(lambda: emmet.expand(abbr, copy.deepcopy(flat), {}))
    ref = _FLAT_CACHE[fk]
    # Both runs raise and the effective configuration holds a snippet / variable value that is no string (outside the
    # documented value type; random stream only): WHICH of several invalid values is met first depends on the order of
    # the merged dict's keys (the layered merge keeps the position of the least specific definition), so the error
    # class says nothing about the effective values -- not judged.
    undocumented = out[0] == 'exc' and ref[0] == 'exc' and out != ref and any(
        not isinstance(v, str) for sec in ('snippets', 'variables') for v in flat[sec].values())
    if out != ref and not undocumented:
        fails.append(('expand', 'expand(%r) with the layered configuration gives %r, with the flattened effective '
                      'configuration %r' % (abbr, out, ref)))
    # the winning layer's marker is what the output shows
    sec, key = case.get('sec'), case.get('key')
    vis = None
    if case.get('effect') is not None:
        vis = judge_effect(case, ty, syn, expected, abbr, out, fails)
    elif sec is not None and key is not None and out[0] == 'ok' and isinstance(out[1], str):
        e = expected[sec].get(key)
        if e is not None and isinstance(e[0], str):
            win = [mk for mk in MARKERS if mk in e[0]]
            shown = [mk for mk in MARKERS if mk in out[1]]
            if win:
                vis = 'marker'
                if shown != win:
                    fails.append(('expand', 'expand(%r) = %r shows the marker(s) %r; %s[%r] must come from %s (%r)' % (
                        abbr, out[1], shown, sec, key, LAYERS[e[1]], e[0])))
            else:
                vis = 'builtin-value'
                if shown:
                    fails.append(('expand', 'expand(%r) = %r shows %r although no planted layer wins' % (abbr, out[1], shown)))
        elif e is None:
            vis = 'undefined'
            shown = [mk for mk in MARKERS if mk in out[1]]
            if shown:
                fails.append(('expand', 'expand(%r) = %r shows %r although no layer defines %s[%r]' % (abbr, out[1], shown, sec, key)))
    return {'out': out, 'visible': vis, 'rich': rich[:3]}


def judge_effect(case, ty, syn, expected, abbr, out, fails):
    """The DOCUMENTED EFFECT clause (harness/cfgeffect_util.py): the output shows what the documentation states for the
    value the oracle's own merge makes effective -- judged against hard-coded documented facts, not against another
    run of the implementation."""
    e = fx.BY_NAME.get(case['effect'])
    if e is None:
        return 'effect-unknown-entry'
    win = expected['options'].get(e.key)
    if win is None:
        return 'effect-undefined'

    def eff(name):
        x = expected['options'].get(name)
        return x[0] if x is not None else None
    if out[0] != 'ok' or not isinstance(out[1], str):
        # every value planted here is of the documented type of its option: expand has no reason to fail
        fails.append(('effect', 'expand(%r) with options[%r] = %r effective (from %s) gives %r' % (
            abbr, e.key, win[0], LAYERS[win[1]], out)))
        return 'effect-raises'
    verdict, bad = fx.judge(e, win[0], fx.family(ty, syn), eff, out[1])
    if bad:
        fails.append(('effect', 'expand(%r) = %r does not show the documented effect of options[%r] = %r, the value of the '
                      'most specific defining layer %s (layers defining it %s): output %s' % (
                          abbr, out[1], e.key, win[0], LAYERS[win[1]], win[2], '; '.join(bad))))
    return 'effect-' + verdict


# ------------------------------------------------------------------ the table
def names_for(tb, ty):
    sx = tb.base['SYNTAXES']
    known = list(sx.get(ty, []))
    cross = [s for t, v in sx.items() if t != ty for s in v]
    listed = set(s for v in sx.values() for s in v)
    pseudo = [k for k in tb.base['SYNTAX_CONFIG'] if k not in listed]
    return [(s, 'known') for s in known] + [(s, 'cross') for s in cross] + [(s, 'pseudo') for s in pseudo] + \
           [(s, 'unknown') for s in UNKNOWN_NAMES]


def cell_case(ty, syn, sec, bits, key, template, abbr=None, kind='cell'):
    """bits: 6 booleans in LAYERS order; layer i plants key -> template % MARKERS[i]."""
    vals = [template % mk for mk in MARKERS]
    patches = []
    if bits[0]:
        patches.append((0, '', sec, key, vals[0]))
    if bits[1]:
        patches.append((1, ty, sec, key, vals[1]))
    if bits[2]:
        patches.append((1, syn, sec, key, vals[2]))
    glob_ = {}
    if bits[3]:
        glob_.setdefault(ty, {}).setdefault(sec, {})[key] = vals[3]
    if bits[4]:
        # the model plants the syntax override after the type override: same location when ty == syn
        glob_.setdefault(syn, {}).setdefault(sec, {})[key] = vals[4]
    user = {sec: {key: vals[5]}} if bits[5] else {}
    return mk_case(kind, ty, syn, user, glob_, patches, sec=sec, key=key, bits=[int(b) for b in bits], abbr=abbr)


def all_bits():
    out = []
    for n in range(64):
        out.append([bool(n >> (5 - i) & 1) for i in range(6)])
    return out


DEFAULT_SYNTAX_OF_MARKUP = 'html'


def gen_table(tb):
    cases = []
    for ty in tb.base['SYNTAXES']:
        for syn, cls in names_for(tb, ty):
            for sec in SECTIONS:
                for bits in all_bits():
                    if cls == 'unknown' and bits[2]:
                        continue      # planting SYNTAX_CONFIG[name] would make the name known
                    c = cell_case(ty, syn, sec, bits, FRESH, '%s', kind='cell-fresh')
                    c['class'] = cls
                    cases.append(c)
                    vis = VISIBLE.get((ty, sec))
                    if vis:
                        c = cell_case(ty, syn, sec, bits, vis[0], vis[2], abbr=vis[1], kind='cell-visible')
                        c['class'] = cls
                        cases.append(c)
                        if ty == 'markup' and sec == 'variables' and cls == 'known' and syn in ('html', 'xml', 'pug'):
                            # the variable is used inside a SNIPPET BODY (parsed with the Config as parameter table) while the
                            # call's own config carries a `variables` table that defines only another variable
                            c = cell_case(ty, syn, sec, bits, vis[0], vis[2], abbr='zzs', kind='cell-visible-in-snippet')
                            c['user'].setdefault('variables', {})['zzother'] = 'OTHER'
                            c['user'].setdefault('snippets', {})['zzs'] = 'p[title=${%s}]{${%s}}' % (vis[0], vis[0])
                            c['class'] = cls
                            cases.append(c)
                        if ty == 'markup' and syn == DEFAULT_SYNTAX_OF_MARKUP and not bits[5]:
                            # the call's own config defines nothing at all (`expand(abbr, {}, global)`):
                            # type and syntax are the documented defaults, every global layer still applies
                            for t0, s0 in ((None, None), ('markup', None), (None, syn)):
                                c = cell_case(ty, syn, sec, bits, vis[0], vis[2], abbr=vis[1], kind='cell-visible-defaulted')
                                c['type'], c['syntax'] = t0, s0
                                c['class'] = cls
                                cases.append(c)
    return cases


def interesting_keys(tb, ty, syn, sec):
    """Real built-in keys, up to 2 per built-in definedness pattern (Default, TypeDefaults, SyntaxDefaults)."""
    ls = layer_dicts(tb.base['DEFAULT_CONFIG'], tb.base['SYNTAX_CONFIG'], ty, syn, sec, {}, {})[:3]
    groups = {}
    for d in ls:
        for k in (d or {}):
            pat = tuple(bool(x is not None and k in x) for x in ls)
            g = groups.setdefault(pat, [])
            if k not in g and len(g) < 2:
                g.append(k)
    return [k for g in groups.values() for k in g]


def gen_natural(tb):
    cases = []
    for ty in tb.base['SYNTAXES']:
        for syn, cls in names_for(tb, ty):
            keys = {sec: interesting_keys(tb, ty, syn, sec) for sec in SECTIONS}
            for n in range(8):
                on = [bool(n >> 2 & 1), bool(n >> 1 & 1), bool(n & 1)]     # TypeOverride, SyntaxOverride, User
                glob_, user = {}, {}
                for sec in SECTIONS:
                    for j, li in enumerate((3, 4, 5)):
                        if not on[j]:
                            continue
                        d = {k: '%s:%s' % (MARKERS[li], k) for k in keys[sec]}
                        d['zz.nat.%s' % LAYERS[li]] = MARKERS[li]
                        d['zz.nat.all'] = MARKERS[li]
                        if li == 5:
                            user[sec] = d
                        else:
                            glob_.setdefault(ty if li == 3 else syn, {}).setdefault(sec, {}).update(d)
                c = mk_case('natural', ty, syn, user, glob_, [], bits=[int(b) for b in on])
                c['class'] = cls
                cases.append(c)
    return cases


def gen_aliased(tb):
    """Caller dictionaries that share objects with each other or with the live built-in tables."""
    cases = []
    for ty in tb.base['SYNTAXES']:
        syns = [tb.base['DEFAULT_SYNTAXES'].get(ty), tb.base['SYNTAXES'][ty][-1], 'zzz', ty] + \
               [s for s in tb.base['SYNTAXES'][ty] if s in tb.base['SYNTAX_CONFIG']][:2]
        vis_abbr = {sec: VISIBLE[(ty, sec)][1] for sec in SECTIONS if (ty, sec) in VISIBLE}
        for syn in dict.fromkeys(syns):
            glob_ = {ty: {sec: {'zz.al.t': MARKERS[3]} for sec in SECTIONS},
                     syn: {sec: {'zz.al.s': MARKERS[4], 'zz.al.t': MARKERS[4]} for sec in SECTIONS}}
            user = {sec: {'zz.al.u': MARKERS[5], 'zz.al.s': MARKERS[5]} for sec in SECTIONS}
            variants = [[['global-is-syntax-config']], [['user-is-global-layer', ty]], [['user-is-global-layer', syn]],
                        [['user-is-global-layer', 'zzother']]]
            for sec in SECTIONS:
                variants += [[['user-section-is-builtin', sec]],
                             [['user-section-is-global-section', ty, sec]],
                             [['user-section-is-global-section', syn, sec]],
                             [['user-section-is-builtin', sec], ['global-is-syntax-config']]]
            for al in variants:
                c = mk_case('aliased', ty, syn, user, {} if al[-1][0] == 'global-is-syntax-config' else glob_, [], alias=al,
                            abbr=vis_abbr.get('options'))
                c['class'] = class_of(tb, ty, syn)
                cases.append(c)
    return cases


EFFECT_UNKNOWN_QUICK = 'zzz'


def effect_names(tb, ty, thorough):
    """Syntax names of the effect table: quick = every known syntax of the type, the pseudo syntaxes that are no type
    name ('xhtml') and one unknown name; thorough = every name of THE TABLE for markup (the stylesheet type keeps the
    quick list: each of its cases is evaluated inside Coq in the thorough tier)."""
    names = names_for(tb, ty)
    if thorough and ty != 'stylesheet':
        return names
    types = set(tb.base['SYNTAXES'])
    return [(s, c) for s, c in names if c == 'known' or (c == 'pseudo' and s not in types) or s == EFFECT_UNKNOWN_QUICK]


def effect_case(ty, syn, cls, e, assign, variant):
    """assign: {layer index (2 = planted syntax defaults, 3 = global type, 4 = global syntax, 5 = call): value}."""
    user = copy.deepcopy(e.comp)
    glob_, patches = {}, []
    for li in sorted(assign):
        v = copy.deepcopy(assign[li])
        if li == 2:
            patches.append((1, syn, 'options', e.key, v))
        elif li == 3:
            glob_.setdefault(ty, {}).setdefault('options', {})[e.key] = v
        elif li == 4:
            glob_.setdefault(syn, {}).setdefault('options', {})[e.key] = v
        else:
            user.setdefault('options', {})[e.key] = v
    c = mk_case('effect', ty, syn, user, glob_, patches, sec='options', key=e.key, abbr=e.abbr, effect=e.name,
                bits=[0, 0] + [int(li in assign) for li in (2, 3, 4, 5)], variant=variant)
    c['class'] = cls
    return c


def gen_effects(ctx, tb, thorough):
    """Options with a DOCUMENTED visible effect (cfgeffect_util.EFFECTS), real values of the documented type including
    the explicit empty / False / 0 / [] / {} value, on the unpatched built-in tables (so the real built-in default and
    the real syntax defaults, e.g. jsx.enabled of jsx/svelte or stylesheet.after of sass, lie below).
    For every (syntax name, option, winning layer L in {global type, global syntax, call}, value v): L defines v and
      alone    no other caller layer defines the option
      stacked  every less specific caller layer defines it with another value
      planted  a planted syntax-defaults entry defines it with another value (known names only)
    plus: no caller layer at all, and a planted syntax-defaults entry alone.  Thorough: all variants; quick: every
    (syntax name, option, L, v) with ONE variant drawn from ctx.rng; for the FORM entries (same option, abbreviation with
    another feature: `!important`, several values, last declaration, nested / repeated / attribute carrying element) quick:
    every (syntax name, entry, v) with ONE winning layer and variant drawn from ctx.rng."""
    rng = ctx.rng
    cases = []
    for ty in tb.base['SYNTAXES']:
        for syn, cls in effect_names(tb, ty, thorough):
            fam = fx.family(ty, syn)
            for e in fx.EFFECTS[ty]:
                if fam not in e.families:
                    continue
                k = len(e.values)
                plantable = cls != 'unknown'
                cases.append(effect_case(ty, syn, cls, e, {}, 'none'))
                if plantable:
                    for vi in (range(k) if thorough else [rng.randrange(k)]):
                        cases.append(effect_case(ty, syn, cls, e, {2: e.values[vi]}, 'planted-alone'))
                layers = [L for L in (3, 4, 5) if not (L == 4 and syn == ty)]   # ty == syn: one and the same dict
                # FORM entries (the option on another abbreviation feature, cfgeffect_util.*_FORM_EFFECTS): quick =
                # every (syntax name, entry, value) with ONE winning layer drawn from ctx.rng
                pick = None if thorough or not e.form else [rng.choice(layers) for _ in range(k)]
                for L in layers:
                    for vi in range(k):
                        if pick is not None and pick[vi] != L:
                            continue
                        variants = ['alone'] + (['stacked'] if L > 3 else []) + (['planted'] if plantable else [])
                        for variant in (variants if thorough else [rng.choice(variants)]):
                            assign = {L: e.values[vi]}
                            if variant == 'stacked':
                                for j in range(3, L):
                                    if not (j == 4 and syn == ty):
                                        assign[j] = e.values[(vi + L - j) % k]
                            elif variant == 'planted':
                                assign[2] = e.values[(vi + 1) % k]
                            cases.append(effect_case(ty, syn, cls, e, assign, variant))
    return cases


def gen_scoped_effects(ctx, tb, thorough):
    """SCOPE CONTEXTS.  The effect table expands every abbreviation without a `context`; the entries that carry a scope of
    their own (cfgeffect_util.CSS_SCOPE_EFFECTS: value scope, @@property, @@section) are part of it.  Here every OTHER
    entry of the effect table is repeated under the scope contexts that leave its documented effect unchanged
    (cfgeffect_util.UNCHANGED_UNDER: markup = a parent element name; stylesheet = '@@property', '@@global'), so that the
    consumers of the options are judged on the context paths as well.  Thorough: every (syntax name, entry, context,
    winning layer, value) with one variant drawn from ctx.rng; quick: every (syntax name, entry) with ONE context, winning
    layer, value and variant drawn from ctx.rng."""
    rng = ctx.rng
    cases = []
    for ty in tb.base['SYNTAXES']:
        for syn, cls in effect_names(tb, ty, thorough):
            fam = fx.family(ty, syn)
            for e in fx.EFFECTS[ty]:
                contexts = getattr(e, 'contexts', None) or fx.UNCHANGED_UNDER.get(ty) or []
                if fam not in e.families or 'context' in e.comp or not contexts:
                    continue
                k = len(e.values)
                plantable = cls != 'unknown'
                layers = [L for L in (3, 4, 5) if not (L == 4 and syn == ty)]
                if thorough:
                    combos = [(c, L, vi) for c in contexts for L in layers for vi in range(k)]
                else:
                    combos = [(rng.choice(contexts), rng.choice(layers), rng.randrange(k))]
                for cx, L, vi in combos:
                    variant = rng.choice(['alone'] + (['stacked'] if L > 3 else []) + (['planted'] if plantable else []))
                    assign = {L: e.values[vi]}
                    if variant == 'stacked':
                        for j in range(3, L):
                            if not (j == 4 and syn == ty):
                                assign[j] = e.values[(vi + L - j) % k]
                    elif variant == 'planted':
                        assign[2] = e.values[(vi + 1) % k]
                    c = effect_case(ty, syn, cls, e, assign, variant)
                    c['user']['context'] = copy.deepcopy(cx)
                    c['scope'] = cx['name']
                    cases.append(c)
    return cases


def gen_empty_winner(tb, thorough):
    """The most specific defining layer holds the EMPTY STRING ("defined, and empty" is a definition like any other):
    visible probes of every section (option, snippet, variable), winner = each caller layer, once alone above a planted
    built-in default and once above every less specific layer, all of which carry their markers.  Judged by the marker
    clause (no marker of a beaten layer may show) and by the flattened-configuration clause."""
    cases = []
    for ty in tb.base['SYNTAXES']:
        for syn, cls in effect_names(tb, ty, thorough):
            for sec in SECTIONS:
                vis = VISIBLE.get((ty, sec))
                if not vis:
                    continue
                for L in (3, 4, 5):
                    if L == 4 and syn == ty:
                        continue
                    for below in ('builtin-default', 'all'):
                        bits = [i == L or (i == 0 if below == 'builtin-default' else i < L) for i in range(6)]
                        if cls == 'unknown':
                            bits[2] = False
                        c = cell_case(ty, syn, sec, bits, vis[0], vis[2], abbr=vis[1], kind='empty-winner')
                        where = c['user'] if L == 5 else c['global'][ty if L == 3 else syn]
                        where[sec][vis[0]] = ''
                        c['class'] = cls
                        cases.append(c)
    return cases


# ---- KEY SHAPES.  The statement quantifies over EVERY snippet and variable key; the table above plants one all-lower-case
# probe key per section.  A consumer that normalises the key before the lookup (case folding, stripping a separator)
# returns the effective value of ANOTHER key, or none, while Config(...) still holds the right dict.  Shapes: the
# characters the abbreviation syntax allows in an element name / a `${variable}` name (documented syntax, hard-coded:
# ASCII letters of either case, digits, '-', ':', '_', '!' -- https://docs.emmet.io/abbreviations/syntax/, upstream
# abbreviation tokenizer `isName`; non-ASCII letters are no name characters), in every case pattern, and the re-cased
# names of built-in keys (cheat sheet: a, btn, bq, link, inp / lang, charset, locale).
# Stylesheet snippets are matched by the documented FUZZY, case-insensitive search, so for them only a key that has no
# case sibling (planted or built-in) has a stated result: case shapes of a fresh key, without siblings.
KEY_SHAPES = {
    ('markup', 'snippets'): ['Zzq', 'zzQ', 'zZq', 'ZZQ', 'zz:q', 'zz-q', 'zz_q', 'zzq2', 'zz!q', 'Zz:Q', 'Zz-q2',
                             'Btn', 'BQ', 'Link', 'A', 'inP'],
    ('markup', 'variables'): ['Zzv', 'zzV', 'zZv', 'ZZV', 'zz-v', 'zz_v', 'zzv2', 'Zz-V2', 'Lang', 'CHARSET', 'locaLe'],
    ('stylesheet', 'snippets'): ['Zzq', 'zzQ', 'zZq', 'ZZQ'],
}
KEY_SHAPE_ABBR = {
    ('markup', 'snippets'): ('%s', 'span.%s'),
    ('markup', 'variables'): ('p[title=${%s}]{${%s}}', '%s'),
    ('stylesheet', 'snippets'): ('%s', 'zzprop:%s'),
}
KEY_SHAPE_VARIANTS = ('pure', 'alone', 'stacked')


def case_siblings(key):
    """The other spellings of the key that differ in letter case only."""
    sibs = [key.lower(), key.upper(), key.capitalize(), key.swapcase()]
    return [k for k in dict.fromkeys(sibs) if k != key]


def shape_class(key):
    cased = 'lower' if key == key.lower() else 'upper' if key == key.upper() else 'mixed'
    sep = ''.join(sorted(set(ch for ch in key if not ch.isalpha() and not ch.isdigit())))
    return cased + ('+digit' if any(ch.isdigit() for ch in key) else '') + ('+' + sep if sep else '')


def gen_key_shapes(ctx, tb, thorough):
    """For every syntax name of the effect table x section x key shape x winning layer L (all six): the key is planted
      pure     in L alone, nothing else
      alone    in L alone; every OTHER layer defines the key's case siblings (with that layer's marker)
      stacked  in L and every less specific layer; every more specific layer defines the case siblings
    (siblings: markup only, see KEY_SHAPES).  The sibling's effective value always comes from another layer than the
    key's, so a lookup that lands on a sibling shows a foreign marker.  Judged by the marker clause through expand() of
    the abbreviation that names the key as written, and by the whole-dict clauses on Config.  Thorough: all variants;
    quick: one variant per (name, section, key, L) drawn from ctx.rng."""
    rng = ctx.rng
    cases = []
    for ty in tb.base['SYNTAXES']:
        for syn, cls in effect_names(tb, ty, thorough):
            for sec in SECTIONS:
                shapes = KEY_SHAPES.get((ty, sec))
                if not shapes:
                    continue
                abbr_t, val_t = KEY_SHAPE_ABBR[(ty, sec)]
                with_sibs = ty == 'markup'
                for key in shapes:
                    for L in range(6):
                        if L == 2 and cls == 'unknown':
                            continue
                        if L == 4 and syn == ty:
                            continue
                        variants = KEY_SHAPE_VARIANTS if with_sibs else ('pure', 'stacked')
                        for variant in (variants if thorough else [rng.choice(variants)]):
                            bits = [i == L or (variant == 'stacked' and i < L) for i in range(6)]
                            if cls == 'unknown':
                                bits[2] = False
                            c = cell_case(ty, syn, sec, bits, key, val_t, abbr=abbr_t.replace('%s', key), kind='keyshape')
                            if with_sibs and variant != 'pure':
                                sib_bits = [not b and (variant == 'alone' or i > L) and not (i == 2 and cls == 'unknown')
                                            for i, b in enumerate(bits)]
                                for sk in case_siblings(key):
                                    sc_ = cell_case(ty, syn, sec, sib_bits, sk, val_t)
                                    c['patches'] += sc_['patches']
                                    for name, layer in sc_['global'].items():
                                        c['global'].setdefault(name, {}).setdefault(sec, {}).update(layer[sec])
                                    if sc_['user']:
                                        c['user'].setdefault(sec, {}).update(sc_['user'][sec])
                            c['variant'] = variant
                            c['shape'] = shape_class(key)
                            c['class'] = cls
                            cases.append(c)
    return cases


VALUE_POOL = ['Lx0', 'Lx1', 'Lx2', 'Lx3', 'Lx4', 'Lx5', '', '\t', 'xml', True, False, 0, 3, ['a', 'b'], {'e': 'em'}, None]


def gen_random(ctx, tb, n):
    rng = ctx.rng
    sx = tb.base['SYNTAXES']
    all_syn = [s for v in sx.values() for s in v] + list(tb.base['SYNTAX_CONFIG']) + UNKNOWN_NAMES
    key_pool = {sec: sorted(set(k for name, layer in tb.base['SYNTAX_CONFIG'].items() for k in (layer.get(sec) or {})) |
                            set(tb.base['DEFAULT_CONFIG'].get(sec) or {})) for sec in SECTIONS}
    cases = []
    for _ in range(n):
        ty = rng.choice([None, None, 'markup', 'markup', 'stylesheet', 'stylesheet', 'zzt'])
        syn = rng.choice([None] + all_syn)
        rty = ty if ty is not None else 'markup'
        rsyn = syn if syn is not None else tb.base['DEFAULT_SYNTAXES'].get(rty, 'html')

        def rand_section(sec):
            d = {}
            for _ in range(rng.randint(0, 4)):
                k = rng.choice(key_pool[sec]) if key_pool[sec] and rng.random() < 0.6 else 'zz.r%d' % rng.randint(0, 3)
                d[k] = copy.deepcopy(rng.choice(VALUE_POOL))
            return d

        def rand_layer():
            layer = {}
            for sec in SECTIONS + ('zzsection',):
                if rng.random() < 0.45:
                    layer[sec] = rand_section(sec if sec in SECTIONS else 'options')
            return layer
        user = rand_layer() if rng.random() < 0.8 else {}
        if rng.random() < 0.2:
            user['context'] = {'name': 'div'}
        glob_ = {}
        for name in (rty, rsyn, rng.choice(all_syn), 'zzother'):
            if rng.random() < 0.5:
                glob_[name] = rand_layer()
        patches = []
        for _ in range(rng.choice([0, 0, 1, 2])):
            sec = rng.choice(SECTIONS)
            k = rng.choice(key_pool[sec]) if key_pool[sec] and rng.random() < 0.5 else 'zz.r%d' % rng.randint(0, 3)
            if rng.random() < 0.3:
                patches.append((0, '', sec, k, rng.choice(MARKERS)))
            else:
                patches.append((1, rng.choice([rty, rsyn, rsyn, 'zzother']), sec, k, rng.choice(MARKERS)))
        c = mk_case('random', ty, syn, user, glob_, patches)
        c['class'] = class_of(tb, rty, rsyn)
        if 'context' not in user and rng.random() < 0.5:
            # also through expand(): the oracle compares with the flattened configuration, the expand model
            # (proofs/ConfigExpand.v) with its own result (values of undocumented types are outside the model)
            c['abbr'] = 'p10+zzq' if rty == 'stylesheet' else rng.choice(['div>p', 'ul>li*2', 'a+br', 'p{${zzv}}', 'zzq>a:link'])
        cases.append(c)
    return cases


def load_corpus():
    out = []
    for path in sorted(glob.glob(os.path.join(common.VERIF, 'corpus', 'C20', '*.json'))):
        with open(path, encoding='utf-8') as f:
            obj = json.load(f)
        c = obj.get('case', obj)
        c.setdefault('kind', 'corpus')
        c.setdefault('patches', [])
        c.setdefault('user', {})
        c.setdefault('global', {})
        c.setdefault('type', None)
        c.setdefault('syntax', None)
        out.append(c)
    return out


# ------------------------------------------------------------------ model side
def enc_dict_ids(ids, d):
    return enc_list(lambda kv: enc_str(kv[0]) + [ids.id_of(kv[1])], list(d.items()))


def enc_layer(ids, layer):
    """Only the dict-valued entries of a layer config are layers' sections."""
    items = [(k, v) for k, v in layer.items() if isinstance(v, dict) and k not in ('context',)]
    return enc_list(lambda kv: enc_str(kv[0]) + enc_dict_ids(ids, kv[1]), items)


def enc_opt_str(s):
    return [0] if s is None else [1] + enc_str(s)


def case_ids(tb, case):
    ids = cu.CaseIds(tb.ids)
    if case['kind'] == 'cell-fresh':
        for mk in MARKERS:           # marker of layer i = -(1 + i), as ConfigTables.marker
            ids.id_of(mk)
    return ids


def wire_init(tb, case, ids, sections):
    w = [1] + enc_opt_str(case['type']) + enc_opt_str(case['syntax'])
    w += enc_layer(ids, case['user'])
    w += enc_list(lambda kv: enc_str(kv[0]) + enc_layer(ids, kv[1]), list(case['global'].items()))
    w += enc_list(lambda p: [p[0]] + enc_str(p[1]) + enc_str(p[2]) + enc_str(p[3]) + [ids.id_of(p[4])], case['patches'])
    w += enc_list(enc_str, list(sections))
    return w


def wire_cell(case):
    return [2] + enc_str(case['type']) + enc_str(case['syntax']) + enc_str(case['sec']) + [int(b) for b in case['bits']]


def wire_spec(tb, case, ids, ty, syn, sec, key):
    w = [3] + enc_str(ty) + enc_str(syn) + enc_str(sec) + enc_str(key)
    w += enc_layer(ids, case['user'])
    w += enc_list(lambda kv: enc_str(kv[0]) + enc_layer(ids, kv[1]), list(case['global'].items()))
    w += enc_list(lambda p: [p[0]] + enc_str(p[1]) + enc_str(p[2]) + enc_str(p[3]) + [ids.id_of(p[4])], case['patches'])
    return w


def rd_dict(r):
    return dict(r.list(lambda: (r.str(), r.int())))


def decode_init(w, sections):
    if w == [-99]:
        return None
    r = Reader(w)
    out = {'type': r.str(), 'syntax': r.str(), 'sections': {}}
    for sec in sections:
        out['sections'][sec] = rd_dict(r) if r.int() else None
    return out if r.done() else None


def impl_ids(ids, obs, sections):
    if obs is None:
        return None
    return {'type': obs['type'], 'syntax': obs['syntax'],
            'sections': {sec: ({k: ids.id_of(v) for k, v in obs['sections'][sec].items()}
                               if isinstance(obs['sections'][sec], dict) else None) for sec in sections}}


# ------------------------------------------------------------------ run
def fail_key(case, clause):
    return '%s:%s/%s:%s:%s:%s' % (clause, case['type'], case['syntax'], case.get('sec', '*'), case.get('key', '*'),
                                  ''.join(map(str, case.get('bits', []))) or case['kind'])


# ---- workers (process pool): implementation + oracle + wires of one chunk of cases
_TB = None
_FLAT_CACHE = {}


def _tables():
    global _TB
    if _TB is None:
        _TB = Tables()
    return _TB


def summarize(tb, case, res, rng, with_model):
    """Picklable summary of one observed case (values replaced by ids, wires for the model prepared)."""
    kind = case['kind']
    ty, syn = resolved_names(tb, case)
    sm = {'failures': res['failures'][:4], 'fatal': res['fatal'], 'expand': res['expand'], 'patterns': res['patterns'],
          'cell_pat': None, 'sample': None, 'unknown_snap': None, 'model': None, 'spec': [], 'xmodel': None, 'effect_win': None}
    if kind == 'effect':
        e = (res['expected'] or {}).get('options', {}).get(case['key'])
        sm['effect_win'] = (e[1], not e[0], e[2]) if e else None
        kf = getattr(fx.BY_NAME.get(case.get('effect')), 'keyform', None)
        if kf and e:
            sm['keyform'] = (kf[0], kf[1], fx.keyform_shape(e[0], kf[0]))
    if kind.startswith('cell'):
        sec, key = case['sec'], case['key']
        e = (res['expected'] or {}).get(sec, {}).get(key)
        sm['cell_pat'] = e[2] if e else '000000'
        if res['obs'] is not None:
            sm['sample'] = {'type': res['obs']['type'], 'syntax': res['obs']['syntax'],
                            '%s[%r]' % (sec, key): repr(res['obs']['sections'][sec].get(key, '<absent>'))
                            if isinstance(res['obs']['sections'][sec], dict) else '<not a dict>'}
            if case.get('class') == 'unknown' and not case['bits'][4]:
                sm['unknown_snap'] = hash(strict(res['obs']['sections']))
    if with_model and tb.ids is not None:
        ids = case_ids(tb, case)
        if kind == 'cell-fresh':
            sec = case['sec']
            i = impl_ids(ids, res['obs'], [sec])
            sm['model'] = ('cell', wire_cell(case), [sec], i['sections'][sec] if i else None)
        else:
            secs = [case['sec']] if case.get('sec') else list(SECTIONS)
            w = wire_init(tb, res['eff'], ids, secs)
            sm['model'] = ('init', w, secs, impl_ids(ids, res['obs'], secs))
        if res['expand'] is not None:
            # the EXPAND model (proofs/ConfigExpand.v): extracted for a markup type, evaluated inside Coq for the
            # stylesheet type (its pipeline model uses floats)
            try:
                if 'context' in case['user']:
                    # a call with a scope `context` is outside the expand model's domain (ConfigExpand.v: is_absent
                    # k_context): judged by the oracle and the Config model only; not spent on the in-Coq sample
                    sm['xmodel'] = ('context', None)
                elif ty == 'stylesheet':
                    sm['xmodel'] = ('coq', xu.coq_case(tb, res['eff'], case['abbr']))
                else:
                    sm['xmodel'] = ('wire', xu.wire_expand(tb, res['eff'], case['abbr']))
            except Exception as e:           # a value shape the encoders do not know: reported, not hidden
                sm['xmodel'] = ('unencodable', repr(e)[:200])
        if kind in ('natural', 'random', 'corpus', 'aliased') and res['expected']:
            # the SPEC's own answer (spec_lookup) for sampled keys, against the oracle
            for sec in SECTIONS:
                ks = sorted(res['expected'][sec]) + ['zz.undefined']
                for key in rng.sample(ks, min(2, len(ks))):
                    e = res['expected'][sec].get(key)
                    sm['spec'].append((sec, key, wire_spec(tb, res['eff'], ids, ty, syn, sec, key),
                                       [0] if e is None else [1, ids.id_of(e[0])]))
    return sm


def worker(arg):
    cases, seed, with_model = arg
    import random
    rng = random.Random(seed)
    tb = _tables()
    out = []
    for case in cases:
        res = observe(tb, case)
        out.append(summarize(tb, case, res, rng, with_model))
        if res['fatal']:
            tb.restore()
    return out


XSTATE = {'coq': []}      # stylesheet cases collected for the in-Coq evaluation at the end of the run


def expand_corr(ctx):
    return ctx.cov['correspondence'].setdefault('expand_model', {
        'markup_cases_extracted_model': 0, 'stylesheet_cases_in_coq': 0, 'stylesheet_cases_not_sampled': 0,
        'disagreements': 0, 'outside_model': 0, 'unencodable': 0})


def expand_disagree(ctx, case, sm, got, where):
    xc = expand_corr(ctx)
    xc['disagreements'] += 1
    if xc['disagreements'] <= 5:
        ctx.say('DISAGREE expand model (%s) case %s\n  impl %r\n  model %r' % (
            where, json.dumps(case)[:400], sm['expand']['rich'], got))
    if not sm['failures']:
        ctx.broken.append({'kind': 'correspondence', 'file': 'config-expand-model-' + where, 'input': json.dumps(case)[:600],
                           'impl': repr(sm['expand']['rich'])[:300], 'model': repr(got)[:300]})


def run_cases(ctx, tb, model, cases, label, pool, xmodel=None):
    if not cases:
        return
    size = max(20, min(400, len(cases) // (4 * common.NPROC) + 1))
    chunks = [cases[i:i + size] for i in range(0, len(cases), size)]
    args = [(ch, ctx.rng.randrange(1 << 30), model is not None) for ch in chunks]
    sums = [sm for part in pool.map(worker, args, chunksize=1) for sm in part]
    unknown_seen = {}
    wires, metas = [], []
    for case, sm in zip(cases, sums):
        ctx.count_eval()
        bad = False
        if sm['failures']:
            bad = True
            clause, text = sm['failures'][0]
            ctx.property_failure(fail_key(case, clause), '%s: %s' % (clause, text),
                                 {'component': 'config', 'case': case, 'why': [t for _, t in sm['failures']]})
        cover_case(ctx, tb, case, sm)
        # all unknown names give the same configuration (same cell, different name)
        if sm['unknown_snap'] is not None and not bad:
            sig = (case['kind'], case['type'], case['sec'], tuple(case['bits']))
            prev = unknown_seen.setdefault(sig, (sm['unknown_snap'], case['syntax']))
            if prev[0] != sm['unknown_snap']:
                ctx.property_failure(fail_key(case, 'unknown-syntax'),
                                     'unknown-syntax: the unknown syntax names %r and %r give different configurations' % (
                                         prev[1], case['syntax']),
                                     {'component': 'config', 'case': case, 'why': ['differs from ' + repr(prev[1])]})
        if sm['model'] is not None:
            wires.append(sm['model'][1])
            metas.append(('main', case, sm, None))
            for sp in sm['spec']:
                wires.append(sp[2])
                metas.append(('spec', case, sm, sp))
    if xmodel is not None:
        xw, xm = [], []
        for case, sm in zip(cases, sums):
            x = sm.get('xmodel')
            if x is None:
                continue
            if x[0] == 'wire':
                xw.append(x[1])
                xm.append((case, sm))
            elif x[0] == 'coq':
                XSTATE['coq'].append((case, sm, x[1]))
            elif x[0] == 'context':
                xc0 = expand_corr(ctx)
                xc0['context_cases_oracle_only'] = xc0.get('context_cases_oracle_only', 0) + 1
            else:
                expand_corr(ctx)['unencodable'] += 1
        xouts = []
        for start in range(0, len(xw), 4000):
            part = xw[start:start + 4000]
            xouts += xmodel.run(part, procs=max(1, min(common.NPROC, len(part))))
        xc = expand_corr(ctx)
        for (case, sm), w in zip(xm, xouts):
            got = xu.decode_expand(w)
            xc['markup_cases_extracted_model'] += 1
            if got == ('outside',):
                xc['outside_model'] += 1
                if case['kind'].startswith('cell'):      # the table's cells are inside the model by construction
                    expand_disagree(ctx, case, sm, got, 'extracted')
            elif not xu.agree(tuple(sm['expand']['rich']), got):
                expand_disagree(ctx, case, sm, got, 'extracted')
    if model is None:
        return
    n_dis = n_cmp = n_spec = 0
    outs = []
    for start in range(0, len(wires), 4000):
        outs += model.run(wires[start:start + 4000], procs=common.NPROC)
    for (what, case, sm, sp), w in zip(metas, outs):
        has_bad = bool(sm['failures'])
        if what == 'spec':
            n_spec += 1
            sec, key, _, want = sp
            if w != want:
                n_dis += 1
                ctx.say('DISAGREE config SPEC spec_lookup %s[%r] case %s: spec %r oracle %r' % (sec, key, json.dumps(case)[:300], w, want))
                ctx.broken.append({'kind': 'correspondence', 'file': 'config-spec-vs-oracle', 'input': json.dumps(case)[:600],
                                   'impl': repr(want), 'model': repr(w)})
            continue
        n_cmp += 1
        kind, _, secs, i = sm['model']
        if kind == 'cell':
            m = None if w == [-99] else rd_dict(Reader(w))
        else:
            m = decode_init(w, secs)
        if m is None or i != m:
            n_dis += 1
            if n_dis <= 5:
                ctx.say('DISAGREE config %s case %s\n  %s' % (kind, json.dumps(case)[:400], diff_repr(i, m)))
            if not has_bad:
                ctx.broken.append({'kind': 'correspondence', 'file': 'config-' + kind, 'input': json.dumps(case)[:600],
                                   'impl': diff_repr(i, m)[:400], 'model': ''})
    c = ctx.cov['correspondence'].setdefault('config_' + label, {'cases': 0, 'disagreements': 0, 'spec_lookups': 0})
    c['cases'] += n_cmp
    c['disagreements'] += n_dis
    c['spec_lookups'] += n_spec


EFFECT_KINDS = ('effect', 'empty-winner', 'keyshape')     # kinds of which the thorough in-Coq tie takes a sample per group


def coq_expand_tie(ctx, thorough):
    """The stylesheet cases of the run through the FULL expand model, evaluated inside Coq (the stylesheet pipeline
    model uses floats): all of them in the thorough tier (of the effect table a sample per syntax name and option), a
    seeded sample that covers every (syntax name, section) in the quick tier."""
    items = XSTATE['coq']
    xc = expand_corr(ctx)
    if not items:
        return
    if thorough or os.environ.get('C20_EXPAND_ALL') == '1':
        # every case of the tables of the property; of the effect table (whose subject is the ORACLE's documented-effect
        # clause, every case of which the oracle judges) a seeded sample covering every (syntax name, option, kind)
        chosen = [n for n, it in enumerate(items) if it[0]['kind'] not in EFFECT_KINDS]
        groups = {}
        for n, (case, sm, term) in enumerate(items):
            if case['kind'] in EFFECT_KINDS:
                groups.setdefault((case['type'], case['syntax'], case.get('key'), case['kind']), []).append(n)
        for k in sorted(groups, key=repr):
            chosen += ctx.rng.sample(groups[k], min(4, len(groups[k])))
        chosen.sort()
    else:
        groups = {}
        for n, (case, sm, term) in enumerate(items):
            groups.setdefault((case['type'], case['syntax'], case.get('sec'), case['kind']), []).append(n)
        chosen = []
        for k in sorted(groups, key=repr):
            g = groups[k]
            chosen += ctx.rng.sample(g, min(4, len(g)))
        budget = int(os.environ.get('C20_EXPAND_QUICK', '160'))
        if len(chosen) > budget:
            chosen = sorted(ctx.rng.sample(chosen, budget))
    xc['stylesheet_cases_not_sampled'] += len(items) - len(chosen)
    outs = xu.coq_eval([items[n][2] for n in chosen], 'cfgx', shard=max(2, min(40, len(chosen) // (2 * common.NPROC) + 1)))
    for n, got in zip(chosen, outs):
        case, sm, _ = items[n]
        xc['stylesheet_cases_in_coq'] += 1
        if got == ('outside',):
            xc['outside_model'] += 1
            if case['kind'].startswith('cell'):
                expand_disagree(ctx, case, sm, got, 'in-coq')
        elif not xu.agree(tuple(sm['expand']['rich']), got):
            expand_disagree(ctx, case, sm, got, 'in-coq')


def diff_repr(i, m):
    if not isinstance(i, dict) or not isinstance(m, dict):
        return 'impl %r / model %r' % (i, m)
    if 'sections' in i and 'sections' in m:
        parts = []
        if (i['type'], i['syntax']) != (m['type'], m['syntax']):
            parts.append('names impl %r model %r' % ((i['type'], i['syntax']), (m['type'], m['syntax'])))
        for sec in i['sections']:
            parts.append(sec + ': ' + diff_repr(i['sections'][sec], m['sections'].get(sec)))
        return '; '.join(parts)
    ks = [k for k in set(i) | set(m) if i.get(k, 'absent') != m.get(k, 'absent')]
    return 'differ at %r' % [(k, i.get(k, 'absent'), m.get(k, 'absent')) for k in sorted(ks)[:6]]


def cover_case(ctx, tb, case, sm):
    kind = case['kind']
    cls = case.get('class', '?')
    ctx.cover('%s:%s' % (kind, cls))
    ty, syn = resolved_names(tb, case)
    if kind.startswith('cell'):
        sec, key = case['sec'], case['key']
        pat = sm['cell_pat']
        ctx.cover('pattern:%s:%s' % (kind, pat))
        ctx.cover('section:%s:%s' % (ty, sec))
        if pat.count('1') >= 2:
            ctx.nontrivial((kind, ty, syn, sec, key, pat, tuple(case['bits'])))
        if sm['expand'] is not None:
            ctx.cover('expand:%s:%s:%s' % (ty, sec, sm['expand']['visible'] or sm['expand']['out'][0]))
        n = len(ctx.cov['samples'])
        if (n < 6 and sum(case['bits']) >= 3 and cls != 'known' and n % 2 == (kind == 'cell-visible')) or \
                (n < 10 and kind == 'cell-visible' and sum(case['bits']) >= 4 and ty == 'stylesheet'):
            ctx.sample({'case': case, 'impl': sm['sample'], 'expand': sm['expand']['out'] if sm['expand'] else None}, limit=12)
    elif kind == 'effect':
        verdict = sm['expand']['visible'] if sm['expand'] else 'not-expanded'
        ctx.cover('effect:%s:%s:%s' % (ty, case['key'], verdict))
        ctx.cover('effect-variant:%s' % case.get('variant'))
        cx = (case.get('user') or {}).get('context')
        if cx is not None:
            name = str(cx.get('name'))
            ctx.cover('effect-scope:%s:%s:%s' % (ty, name if name.startswith('@@') or ty == 'markup' else 'value-scope', verdict))
        if sm.get('keyform'):
            ctx.cover('effect-keyform:%s:%s:%s:mapping-%s:%s' % ((case['key'],) + tuple(sm['keyform']) + (verdict,)))
        win = sm.get('effect_win')
        if win is not None:
            ctx.cover('effect-winner:%s:%s' % (LAYERS[win[0]], 'empty-or-false-value' if win[1] else 'other-value'))
            if win[2].count('1') >= 2:
                ctx.nontrivial((kind, ty, syn, case['effect'], win[2], json.dumps([case['user'], case['global'], case['patches']],
                                                                                     sort_keys=True)))
        if verdict == 'effect-witness' and len([x for x in ctx.cov['samples'] if 'effect' in x]) < 3 and win and win[1]:
            ctx.sample({'effect': case['effect'], 'case': case, 'expand': sm['expand']['out']}, limit=16)
    else:
        if kind == 'empty-winner':
            ctx.cover('empty-winner:%s:%s:%s' % (ty, case['sec'], ''.join(map(str, case['bits']))))
        if kind == 'keyshape':
            ctx.cover('keyshape:%s:%s:%s:%s' % (ty, case['sec'], case.get('shape'), case.get('variant')))
            ctx.cover('keyshape-winner:%s' % LAYERS[max(i for i, b in enumerate(case['bits']) if b)])
            if sm['expand'] is not None:
                ctx.cover('keyshape-expand:%s:%s:%s' % (ty, case['sec'], sm['expand']['visible'] or sm['expand']['out'][0]))
        multi = 0
        for sec in SECTIONS:
            for pat, n in (sm['patterns'].get(sec) or {}).items():
                if pat.count('1') >= 2:
                    multi += n
        ctx.cover('%s:keys-defined-by->=2-layers' % kind, multi)
        if multi:
            ctx.nontrivial((kind, json.dumps(case, sort_keys=True)))


def run(ctx):
    thorough = ctx.tier == 'thorough'
    ok = ctx.build(['props/C20.vo', 'run/ConfigRun.vo', 'run/CfgexpandRun.vo', 'run/CfgexpandShow.vo',
                    'proofs/ConfigExpandCss.vo'])
    if ok:
        ctx.obligations('props/C20.v')
    model = ctx.model('config') if ok else None
    xmodel = ctx.model('cfgexpand') if ok else None
    XSTATE['coq'] = []
    tb = Tables()
    if tb.ids is None:       # the tables have a shape the value abstraction does not know: still run the oracle
        ctx.say('value ids unavailable (%s): model comparison skipped' % tb.ids_error)
        model = None
    n_rand = 20000 if thorough else 1500
    table = gen_table(tb)
    natural = gen_natural(tb)
    corpus = load_corpus()
    aliased = gen_aliased(tb)
    rnd = gen_random(ctx, tb, n_rand)
    effects = gen_effects(ctx, tb, thorough)      # after gen_random: the random stream of earlier runs is unchanged
    effects += gen_empty_winner(tb, thorough)
    shapes = gen_key_shapes(ctx, tb, thorough)    # after every earlier consumer of ctx.rng
    scoped = gen_scoped_effects(ctx, tb, thorough)   # last consumer of ctx.rng among the generators
    ctx.cov['rule'] = (
        'EXHAUSTIVE table: both abbreviation types x every syntax name (known: SYNTAXES[type]; cross: syntaxes of the other '
        'type; pseudo: keys of SYNTAX_CONFIG that are no listed syntax %r; unknown: %r) x {variables, snippets, options} x '
        'all 2^6 subsets of {built-in defaults, type defaults, syntax defaults, global type, global syntax, user} in which the '
        'probe is planted (= the 2^5 subsets of overriding layers, with and without a built-in default; for unknown names the '
        'syntax-defaults layer cannot exist: 2^5), once with a fresh probe key and once with a key whose effect is visible in '
        'expand() output %r; observed on Config(user, global) (all three sections, whole dicts) and through '
        'emmet.expand(abbr, config, global_config).  Natural table: unpatched tables, 2^3 subsets of caller layers redefining '
        'real built-in keys of every built-in definedness pattern.  EFFECT table (documented-effect oracle, independent of '
        'the implementation: harness/cfgeffect_util.py): syntax names %r x %d markup + %d stylesheet options with a documented '
        'visible effect %r x winning layer {global type, global syntax, call} x every value of the documented type '
        '(the explicit empty / False / 0 / [] / {} value always included) with the other layers silent | all less specific '
        'caller layers defining another value | a planted syntax-defaults entry defining another value (%s), plus no '
        'caller layer at all (real built-in / real syntax default effective) and a planted syntax default alone; on the '
        'unpatched tables, so the real syntax defaults (jsx.enabled of jsx/svelte, output.selfClosingStyle of xml/xsl/xhtml, '
        'markup.attributes of jsx/vue, stylesheet.after/between of sass/stylus) are among the beaten layers; the output must '
        'show the documented effect of the effective value (and equal the flattened run).  FORM entries of the effect table '
        '(%d markup + %d stylesheet, cfgeffect_util.MARKUP_FORM_EFFECTS / CSS_FORM_EFFECTS): the string-valued options on '
        'abbreviations with ANOTHER FEATURE, so that a consumer reached only through that feature is judged too -- '
        'stylesheet.after (before a following declaration and as the last thing of the output), stylesheet.between, '
        'output.newline, stylesheet.intUnit / floatUnit on declarations of the forms %r (`!important` flag, several values, '
        'float, colour, flag without value); output.selfClosingStyle / attributeQuotes / indent / newline / baseIndent on '
        'nested, repeated and attribute carrying elements; same layer stacks (%s).  KEY-FORM entries (%d, '
        'cfgeffect_util.MARKUP_KEYFORM_EFFECTS): the mapping-valued options markup.attributes and markup.valuePrefix in every '
        'KEY FORM of the effective mapping (no entry | NAME only | NAME* only | both | entries for another attribute only) x '
        'every way of writing the attribute %r (single / doubled / tripled shorthand operator, bracket form, nested '
        'repeated element, after another attribute; class, id, for), full entries of the effect table (every winning layer x '
        'key form, the layer stacks of the plain entries; the real jsx / vue syntax defaults with their starred keys among '
        'the beaten layers): the attribute name / value prefix of the output is the one the EFFECTIVE mapping states for '
        'that way of writing (NAME* for a repeated operator, else NAME, else unchanged), no other layer\'s.  SCOPE entries (the call\'s `context`; '
        '%d stylesheet entries of the effect table, cfgeffect_util.CSS_SCOPE_EFFECTS, options %r): '
        'stylesheet.fuzzySearchMinScore with the values %r on abbreviations that are prefixes of the one candidate the case '
        'supplies (%r: abbreviation, documented score) matched as property name without context and under @@property, as '
        'raw snippet name without context and under @@section, and as the typed VALUE in value scope (context names the '
        'CSS property whose snippet holds the keyword); intUnit / floatUnit / unitAliases / shortHex in value scope; all '
        'with the layer stacks of the plain entries.  SCOPED table (gen_scoped_effects): every effect entry without a '
        'context of its own repeated under the contexts that leave its documented effect unchanged %r (%s; %d cases); a '
        'call with a `context` is outside the expand MODEL (oracle and Config model only); the flattened run keeps the '
        'call\'s context.  KEY SHAPES (gen_key_shapes; the '
        'statement speaks of EVERY snippet and variable key): syntax names as for the effect table x keys %r (every letter '
        'case pattern, digits, the separators the abbreviation syntax allows in a name, re-cased names of built-in keys) x '
        'winning layer = each of the six layers, the key planted in that layer alone | alone while every other layer '
        'defines the key\'s case siblings under that layer\'s marker | in the layer and every less specific one while every '
        'more specific layer defines the case siblings (%s; stylesheet snippets are found by the documented '
        'case-insensitive fuzzy search: no siblings there); observed on Config and through expand() of the abbreviation '
        'that names the key as written: the winner\'s marker and no other.  Empty-winner cells: visible probe '
        'of every section with the EMPTY STRING in the winning caller layer above marker-carrying layers.  Aliased configurations: the caller\'s dictionaries share objects '
        'with each other or ARE the live built-in tables (user section is DEFAULT_CONFIG[section], global config is '
        'SYNTAX_CONFIG, the user config is also a global layer).  Plus corpus and %d random configurations (absent/unknown '
        'type, unrelated names and sections, random patches).  A case is non-trivial when at least two layers define a judged '
        'key (a real precedence decision); distinct by (type, syntax, section, key, subset) resp. by configuration.'
        % (sorted(k for k in tb.base['SYNTAX_CONFIG'] if not any(k in v for v in tb.base['SYNTAXES'].values())),
           UNKNOWN_NAMES, {'%s/%s' % k: v[:2] for k, v in VISIBLE.items()},
           {ty: [x for x, _ in effect_names(tb, ty, thorough)] for ty in tb.base['SYNTAXES']},
           len(fx.MARKUP_EFFECTS), len(fx.CSS_EFFECTS), sorted(set(e.key for es in fx.EFFECTS.values() for e in es)),
           'all three variants' if thorough else 'one variant per (name, option, layer, value) drawn from the seeded rng',
           len(fx.MARKUP_FORM_EFFECTS), len(fx.CSS_FORM_EFFECTS), [f[0] for f in fx.CSS_FORMS],
           'every winning layer and variant' if thorough else 'one winning layer and variant per (name, entry, value) drawn '
           'from the seeded rng',
           len(fx.MARKUP_KEYFORM_EFFECTS), [f[1] for f in fx.KEYFORM_FORMS],
           len(fx.CSS_SCOPE_EFFECTS), sorted(set(e.key for e in fx.CSS_SCOPE_EFFECTS)), fx.FUZZY_VALUES, fx.FUZZY_ABBRS,
           fx.UNCHANGED_UNDER,
           'every (name, entry, context, winning layer, value), one variant drawn from the seeded rng' if thorough else
           'per (name, entry) one context, winning layer, value and variant drawn from the seeded rng', len(scoped),
           {'%s/%s' % k: v for k, v in KEY_SHAPES.items()},
           'all three variants' if thorough else 'one variant per (name, section, key, layer) drawn from the seeded rng',
           n_rand))
    with multiprocessing.Pool(common.NPROC) as pool:
        if tb.ids is None:
            xmodel = None
        run_cases(ctx, tb, model, corpus, 'corpus', pool, xmodel)
        run_cases(ctx, tb, model, table, 'table', pool, xmodel)
        run_cases(ctx, tb, model, natural, 'natural', pool, xmodel)
        run_cases(ctx, tb, model, aliased, 'aliased', pool, xmodel)
        run_cases(ctx, tb, model, effects, 'effects', pool, xmodel)
        run_cases(ctx, tb, model, shapes, 'keyshapes', pool, xmodel)
        run_cases(ctx, tb, model, scoped, 'scoped-effects', pool, xmodel)
        run_cases(ctx, tb, model, rnd, 'random', pool, xmodel)
    if xmodel is not None:
        coq_expand_tie(ctx, thorough)
    ctx.cov['additional_theorems'] = [
        'proofs/ConfigExpandCss.v expand_model_layers_congruent: the expand model with the REAL stylesheet pipeline model in '
        'its stylesheet branch gives equal results for layer stacks with equal effective lookups (instance of '
        'C20_expand_layers_congruent; compiled with the build; depends on the kernel PrimFloat/Uint63 primitives only)',
        'proofs/ConfigExpandCss.v expand_model_markup_branch: for a resolved type other than stylesheet the extracted '
        'markup half computes the full expand model']
    if tb.modified_strict():
        ctx.property_failure('purity:tables-after-run', 'purity: the built-in tables differ (type-strict comparison) after the run',
                             {'component': 'config', 'case': None, 'why': ['strict snapshot differs']})
    ctx.cov['exhaustive'] = True
    ctx.cov['exhaustive_space'] = {
        'types': list(tb.base['SYNTAXES']),
        'syntax_names': {ty: [s for s, _ in names_for(tb, ty)] for ty in tb.base['SYNTAXES']},
        'sections': list(SECTIONS), 'layer_subsets': 64, 'probes_per_cell': 2, 'table_cells': len(table),
        'natural_cells': len(natural), 'aliased_cases': len(aliased), 'key_shape_cases': len(shapes),
        'key_shapes': {'%s/%s' % k: v for k, v in KEY_SHAPES.items()},
        'effect_cases': len(effects), 'scoped_effect_cases': len(scoped),
        'keyform_entries': [e.name for e in fx.MARKUP_KEYFORM_EFFECTS],
        'scope_entries': [e.name for e in fx.CSS_SCOPE_EFFECTS], 'scope_contexts': fx.UNCHANGED_UNDER,
        'effect_entries': [e.name for es in fx.EFFECTS.values() for e in es]}
    ctx.assumptions += [
        'values of options/snippets/variables are abstracted to ids in the model comparison (the property is about WHICH '
        'layer wins); the oracle compares the implementation\'s values themselves (identity or type-strict structure)',
        'domain: configs are dicts with str keys whose variables/snippets/options entries, when present, are dicts; '
        'type and syntax, when present, are str',
        'built-in layers are varied by temporarily replacing emmet.config.DEFAULT_CONFIG / SYNTAX_CONFIG with planted copies '
        '(harness side; merged_data reads the module globals at call time)',
        'a name is an unknown syntax when it is neither listed in SYNTAXES nor a key of SYNTAX_CONFIG; type names used as '
        'syntax names are keys of the shared table and obey the precedence clause as written (see module docstring)',
        'the stylesheet pipeline never reads variables: stylesheet x variables cells are observed on Config only',
        'documented-effect clause: the stated effects are those of the Emmet documentation for the option values (hard-coded in '
        'harness/cfgeffect_util.py with their source); stated for the HTML formatter (every markup syntax except haml, pug, '
        'slim), for the indentation formatters only where all three share the effect, and for the stylesheet formatter; an '
        'effective value outside the documented type, or a template value of comment.before/after, has no stated effect '
        '(then only the flattened-configuration clause judges the output)',
        'expand() adds text=None to the caller\'s config (markup.parse save/restore): C08\'s subject, ignored by the purity '
        'comparison on the expand path; Config(user, global) itself is compared strictly',
    ]


def _replay_alone(case):
    tb = Tables()
    return [(c, t) for c, t in observe(tb, case)['failures'][:5]]


def replay(ctx, obj):
    rp = obj.get('replay', obj)
    case = rp.get('case')
    if not case:
        print('replay names a broken obligation, no input: %s' % json.dumps(rp)[:500])
        return 1
    # the call alone, in a process of its own (so that it cannot leave anything behind for the second look)
    with multiprocessing.get_context('fork').Pool(1) as pool:
        alone = pool.apply(_replay_alone, (case,))
    if alone:
        for clause, text in alone:
            print('%s: %s' % (clause, text))
        return 1
    # a failure that needs earlier calls in the same process (a memo keyed too coarsely, ...): the run saw the case
    # after its neighbours of the table; replay them (same syntax name, both types) in this still pristine process and
    # then look at the case
    tb = Tables()
    ty, syn = resolved_names(tb, case)
    near = [c for c in gen_table(tb) if c['syntax'] == syn and (case.get('sec') is None or c.get('sec') == case.get('sec'))]
    if not near:
        near = [c for c in gen_table(tb) if c['syntax'] in ('html', 'css', 'zzz')]
    near.sort(key=lambda c: resolved_names(tb, c)[0] == ty)      # the other abbreviation type first
    for c in near:
        if c == case:
            continue
        r = observe(tb, c)
        if r['fatal']:
            tb.restore()
    res = observe(tb, case)
    if res['failures']:
        print('holds when the call is made alone in a fresh process, FAILS after %d other configurations were resolved / '
              'expanded in the same process (the result depends on earlier calls):' % len(near))
        for clause, text in res['failures'][:5]:
            print('%s: %s' % (clause, text))
        return 1
    print('property holds on %s' % json.dumps(case)[:300])
    return 0
