"""C08 -- Expansion is a pure function of its arguments (a property of call HISTORIES).

ORACLE (implementation only, harness/history_util.oracle): every history runs in its own pristine process;
every call of it (not only the final probe) is compared with the same call made alone in a fresh interpreter
state, with a fresh cache dict and without any cache; the caller's dicts / Config objects are deep-compared
before and after every call (raising calls included); every module-level container, function default and class
attribute of emmet.* is fingerprinted before and after every call; live instances of emmet classes are counted
before the history and after the caller has dropped everything it owns (gc-based: support, not proof).

TIE (model correspondence): the history state machine coq/model/History.v, extracted (coq/run/HistoryRun.v),
predicts the STATE after every call -- text slot of every caller dict, which snippets every cache dict holds a
table for, size of get_block_name's default lookup, raised/returned -- and is compared with the state observed
in the implementation.  Second tie: the same state machine over the REAL markup pipeline model (command 2 of
HistoryRun: History.step with parse / resolve / stringify = model/Markup*.v) predicts the actual output string
and the text slots of every modelled markup call made inside a history.  Third tie: History.step over the REAL
stylesheet pipeline model (run/HistoryStyle.v, evaluated inside Coq because the scorer uses PrimFloat) predicts
the output string of every stylesheet call of a history and which table every cache dict holds.

Two further history classes come from harness/history_classes.py: one caller-owned global_config object with type-level
and syntax-level sections passed with calls of differing syntaxes ("globals"/"@gref" in the history format), and
stylesheet values that are function calls with explicit arguments against snippets with function keywords.

Two more come from harness/history_routes.py: EQUAL configurations whose mappings were built in another key order
(via "reorder") with names that differ only in letter case, and the TWO-STEP ROUTE (one caller-owned tree from
emmet.markup_abbreviation / stylesheet_abbreviation written out several times with stringify_markup /
stringify_stylesheet: "op" parse / stringify in the history format).  Reordered calls go through the ties as equal
copies; histories with two-step calls are judged by the oracle only (the history state machine has expand steps only).

One more comes from harness/history_defaults.py: DEFAULT VALUES of user stylesheet snippets at the numeric boundaries
(zero in every spelling, zero with a unit alias / a unit, non-zero numbers with and without alias, next to keywords,
colours, fields, function calls), the snippet named without a value through ONE cache dict shared by configurations with
equal snippets and differing number-writing options (stylesheet.unitAliases / intUnit / floatUnit / unitless / shortHex).

Two more come from harness/history_optvals.py: OPTION VALUES IN EVERY ACCEPTED SHAPE (list-valued options written as one
string / empty / one name, switches written as 0 / 1 / '' / 'yes' / None, empty tables) through ONE caller-owned Config
object used for several calls, and MARKUP CONFIGURATIONS THAT SHARE ONE CACHE DICT while differing in one option of
every family that shapes markup output (comment.*, output.*, markup.*, bem.*, jsx), in syntax, snippets, variables,
context or text.  Calls whose option values are not of the documented type are judged by the oracle and the history
state machine only (the pipeline models take options of the documented types).

C08_SKIP_CORPUS=1 leaves the committed corpus out (sanity runs that must find a defect from generated input)."""
import glob
import json
import os
import re
from concurrent.futures import ThreadPoolExecutor

import common
import history_util as hu
import history_nested as hn
import history_classes as hc
import history_routes as hr
import history_defaults as hd
import history_optvals as ho

KEYS_SUPPORT = ('objects-kept-alive',)

_T0 = [None]


def _phase(label):
    """C08_TIMING=1: wall time of the phases of run() on stderr (development aid, no effect on the check)"""
    import sys
    import time
    if os.environ.get('C08_TIMING'):
        now = time.time()
        if _T0[0] is not None:
            sys.stderr.write('C08 phase %-28s %6.1fs\n' % (label, now - _T0[0]))
        _T0[0] = now


# ------------------------------------------------------------------ model encoding
def _tid(texts, t):
    k = json.dumps(t)
    if k not in texts:
        texts[k] = len(texts) + 1
    return texts[k] if t else -texts[k]


def _slot(texts, spec):
    if 'text' not in spec:
        return [0]
    if spec['text'] is None:
        return [1]
    return [2, _tid(texts, spec['text'])]


def encode_history(h, r):
    """wire case for the extracted model + what is needed to read its answer; None if outside the model"""
    if hr.has_ops(h):
        return None   # two-step calls: the state machine has expand steps only (oracle only)
    seq = list(h['calls']) + [h['probe']]
    nd = len(h['dicts'])
    texts = {}
    slots = [_slot(texts, s) for s in h['dicts']]
    default_id = nd + len(seq)
    snids = {}
    calls = []
    for k, c in enumerate(seq):
        fr = r['fresh'][k]
        if 'worker_error' in fr or fr['stage'] in (8, 9):
            return None
        via = c['via']
        if via == 'default':
            slots.append([0])
            calls.append([0, default_id, fr['stage'], 0, k])
            continue
        di = h['objs'][c['d']] if via == 'obj' else c['d']
        spec = h['dicts'][di]
        if via in ('copy', 'nocache', 'reorder'):
            cfg = nd + k
            slots.append(_slot(texts, spec))
        else:
            cfg = di
            slots.append([0])
        if spec.get('type') == 'stylesheet':
            fp = r['tables'][di]
            key = fp if fp is not None else 'bad:' + json.dumps(spec.get('snippets'), sort_keys=True)
            if key not in snids:
                snids[key] = len(snids) + 1
            if (fr['stage'] == 1) != (fp is None):
                return None
            cache = [1, spec['cache']] if (spec.get('cache') is not None and via != 'nocache') else [0]
            calls.append([1] + cache + [snids[key], 1 if fp is not None else 0, 1 if fr['stage'] == 2 else 0, k])
        else:
            calls.append([0, cfg, fr['stage'], 0, k])
    slots.append([0])  # expand()'s own default dict
    w = [1, len(slots)]
    for s in slots:
        w += s
    w += [h.get('ncaches', 0), len(calls)]
    for c in calls:
        w += c
    fps = {v: (k if not k.startswith('bad:') else None) for k, v in snids.items()}
    return w, slots, fps, default_id


def decode_model(out, nslots, ncaches, ncalls):
    rd = common.Reader(out)
    res = []
    for _ in range(ncalls):
        tag = rd.int()
        if tag == 0:
            rd.int()
            rd.opt(rd.int)
            o = 'ok'
        else:
            rd.int()
            o = 'err'
        slots = []
        for _ in range(nslots):
            t = rd.int()
            slots.append([t] if t < 2 else [t, rd.int()])
        caches = []
        for _ in range(ncaches):
            t = rd.int()
            caches.append(None if t == 0 else (rd.int(), rd.int()))
        res.append({'out': o, 'slots': slots, 'caches': caches, 'bem': rd.int()})
    if not rd.done():
        raise ValueError('trailing model output')
    return res


def slot_name(model_slot, init_slot):
    if model_slot == [0]:
        return 'absent'
    if model_slot == [1]:
        return 'none'
    return 'same' if model_slot == init_slot else 'other'


def compare_state(h, r, enc, model_out):
    """list of differences between the model's predicted state and the observed one"""
    w, slots, fps, default_id = enc
    seq = list(h['calls']) + [h['probe']]
    nd = len(h['dicts'])
    m = decode_model(model_out, len(slots), h.get('ncaches', 0), len(seq))
    diffs = []
    for k, (c, rec, mo) in enumerate(zip(seq, r['history']['calls'], m)):
        if rec['out'][0] != mo['out']:
            diffs.append('call %d: implementation %s, model %s' % (k, rec['out'][0], mo['out']))
        want = [slot_name(mo['slots'][i], slots[i]) for i in range(nd)]
        if rec['slots'] != want:
            diffs.append('call %d: text slots %r, model %r' % (k, rec['slots'], want))
        if rec['tslot'] is not None:
            wt = slot_name(mo['slots'][nd + k], slots[nd + k])
            if rec['tslot'] != wt:
                diffs.append('call %d: text slot of the transient dict %r, model %r' % (k, rec['tslot'], wt))
        if rec['dslot'] != slot_name(mo['slots'][default_id], [0]):
            diffs.append('call %d: expand() default dict text slot %r, model %r' % (k, rec['dslot'], slot_name(mo['slots'][default_id], [0])))
        for j, ((keys, fp), me) in enumerate(zip(rec['caches'], mo['caches'])):
            if me is None:
                if fp is not None or keys:
                    diffs.append('call %d: cache %d holds %r, model: empty' % (k, j, keys))
            else:
                src, tbl = me
                if tbl != src or fp is None or fp != fps.get(src):
                    diffs.append('call %d: cache %d does not hold convert_snippets of the snippets the model says it was built from (set %d)' % (k, j, src))
        if rec['bem_after_gc'] != mo['bem']:
            diffs.append('call %d: get_block_name default lookup has %d entries, model %d' % (k, rec['bem_after_gc'], mo['bem']))
    return diffs


# ------------------------------------------------------------------ markup half over the real pipeline model (MK)
ERR_NAMES = {1: 'ScannerException', 2: 'TokenScannerException'}
INTERNAL_NAMES = {10: 'IndexError', 11: 'TypeError', 12: 'ValueError', 13: 'Exception'}


def _mslot(spec):
    if 'text' not in spec:
        return [0]
    t = spec['text']
    if t is None:
        return [1]
    if isinstance(t, str):
        return [2, 1] + common.enc_str(t)
    return [2, 2] + common.enc_list(common.enc_str, t)


def encode_markup_history(h, r):
    """the markup calls of `h` for command 2 of the history model (History.step over the MK pipeline model:
    real abbreviations, real configurations, real output strings).  Calls outside MK (BEM, callbacks, lorem,
    global_config) are left out: they do not touch the text slots (checked for every call by the state tie)."""
    import markup_util as mu
    if hr.has_ops(h):
        return None
    seq = list(h['calls']) + [h['probe']]
    nd = len(h['dicts'])
    slots = [_mslot(s) for s in h['dicts']]
    default_id = nd + len(seq)
    calls, which = [], []
    for k, c in enumerate(seq):
        via = c['via']
        if via == 'default':
            spec, cfg = {}, default_id
            slots.append([0])
        else:
            di = h['objs'][c['d']] if via == 'obj' else c['d']
            spec = h['dicts'][di]
            if via in ('copy', 'nocache', 'reorder'):
                cfg = nd + k
                slots.append(_mslot(spec))
            else:
                cfg = di
                slots.append([0])
        if spec.get('type') == 'stylesheet':
            continue
        if '@global' in spec or '@gref' in spec or '@tabstop' in json.dumps(spec.get('options') or {}):
            continue
        if not ho.documented_types(spec.get('options')):
            continue   # an option value of another type than the documented one: oracle + state tie only
        clean = {kk: v for kk, v in spec.items() if kk not in ('cache', '@global', '@gref')}
        if mu.mentions_lorem(c['abbr'], clean):
            continue
        try:
            w = [cfg] + mu.enc_config(clean) + common.enc_str(c['abbr'])
        except mu.NotModelled:
            continue
        calls.append(w)
        which.append(k)
    if not calls:
        return None
    slots.append([0])
    w = [2, len(slots)]
    for s in slots:
        w += s
    w.append(len(calls))
    for c in calls:
        w += c
    return w, slots, which, default_id


def compare_markup(h, r, enc, out):
    w, slots, which, default_id = enc
    nd = len(h['dicts'])
    rd = common.Reader(out)
    diffs = []
    for k in which:
        rec = r['history']['calls'][k]
        tag = rd.int()
        if tag == 0:
            mo = ['ok', rd.str()]
        elif tag == 1:
            kind = rd.int()
            rd.opt(rd.int)
            mo = ['err', ERR_NAMES.get(kind, 'kind%d' % kind)]
        elif tag == 2:
            mo = ['err', INTERNAL_NAMES.get(rd.int(), 'internal')]
        else:
            mo = ['fuel']
        ms = []
        for i in range(len(slots)):
            t = rd.int()
            if t == 2:
                t2 = rd.int()
                ms.append([2, t2] + (common.enc_str(rd.str()) if t2 == 1 else common.enc_list(common.enc_str, rd.list(rd.str))))
            else:
                ms.append([t])
        if mo != ['fuel'] and rec['out'] != mo and rec['out'] != ['err', 'RecursionError']:
            diffs.append('call %d expand(%r): implementation %r, model %r' % (k, (list(h['calls']) + [h['probe']])[k]['abbr'], rec['out'], mo))
        want = [slot_name(ms[i], slots[i]) for i in range(nd)]
        if rec['slots'] != want:
            diffs.append('call %d: text slots %r, model %r' % (k, rec['slots'], want))
        if rec['tslot'] is not None and rec['tslot'] != slot_name(ms[nd + k], slots[nd + k]):
            diffs.append('call %d: transient dict text slot %r, model %r' % (k, rec['tslot'], slot_name(ms[nd + k], slots[nd + k])))
    if not rd.done():
        diffs.append('trailing model output')
    return diffs


# ------------------------------------------------------------------ stylesheet half over the real pipeline model (ST)
STYLE_HEADER = ('From Coq Require Import PrimFloat.\n'
                'From Emmet Require Import lib.Base lib.StyleLib model.CssResolve run.StyleShow run.HistoryStyle.\n'
                'Local Open Scope N_scope.\n')
CSS_ERR = {'scanner': 'ScannerException', 'token': 'TokenScannerException'}


def encode_css_history(h):
    """the stylesheet calls of `h` as a Coq term for run/HistoryStyle.v (History.step over the ST pipeline model,
    evaluated inside Coq because the scorer uses PrimFloat); None when a stylesheet call is outside ST's
    configuration language (then the model could not follow the cache dicts)."""
    import style_util as su
    if hr.has_ops(h):
        return None
    seq = list(h['calls']) + [h['probe']]
    calls, which = [], []
    for k, c in enumerate(seq):
        if c['via'] == 'default':
            continue
        di = h['objs'][c['d']] if c['via'] == 'obj' else c['d']
        spec = h['dicts'][di]
        if spec.get('type') != 'stylesheet':
            continue
        if '@global' in spec or '@gref' in spec:
            return None
        opts = dict(spec.get('options') or {})
        tab = False
        if 'output.field' in opts:
            if opts.pop('output.field') != '@tabstop':
                return None
            tab = True
        if any(o not in su.OPTION_OV for o in opts):
            return None
        if not ho.documented_types(opts):
            return None   # an option value of another type than the documented one: oracle + state tie only
        ctxd = spec.get('context')
        cfg = su.Cfg(spec.get('syntax') or 'css', opts, spec.get('snippets') or {}, ctxd['name'] if ctxd else None, tab)
        cache = spec.get('cache') if c['via'] != 'nocache' else None
        calls.append('(%s, %s, %s)' % ('None' if cache is None else '(Some %d%%nat)' % cache, cfg.coq(), su.cstr(c['abbr'])))
        which.append((k, di))
    if len(calls) < 2:
        return None
    return '(%d%%nat, [%s])' % (h.get('ncaches', 0), ';\n  '.join(calls)), which


def css_tie(ctx, hs, rs, limit):
    """returns ({history index: [differences]}, stats)"""
    import subprocess
    import style_util as su
    stats = {'histories': 0, 'calls_compared': 0, 'disagreements': 0}
    items = []
    prio = {'corpus': 0, 'random': 1, 'pair': 2}
    order = sorted(range(len(hs)), key=lambda k: (prio.get(hs[k][0].split(':')[0], 3), k))
    # a fixed share for the histories with function-call values (every third pair history, then random ones)
    fn = [k for k in range(len(hs)) if hs[k][0] == 'fnargs-pair'][::3] + [k for k in range(len(hs)) if hs[k][0] == 'fnargs-random']
    fn = fn[:max(20, limit // 8)]
    # and one for the histories with reordered equal configurations / names that differ only in letter case
    fn += ([k for k in range(len(hs)) if hs[k][0] == 'order-pair'][::4] + [k for k in range(len(hs)) if hs[k][0] == 'order-random'])[:max(16, limit // 10)]
    # and one for the default values at the numeric boundaries under differing number-writing options
    fn += ([k for k in range(len(hs)) if hs[k][0] == 'defaults-pair'][::5] + [k for k in range(len(hs)) if hs[k][0] == 'defaults-random'])[:max(16, limit // 10)]
    order = fn + [k for k in order if k not in set(fn)]
    for k in order:
        (label, h), r = hs[k], rs[k]
        if len(items) >= limit:
            break
        if 'worker_error' in r['history']:
            continue
        e = encode_css_history(h)
        if e is not None:
            items.append((k, e))
    if not items:
        return {}, stats
    d = os.path.join(common.BUILD, 'c08style-%d' % os.getpid())
    os.makedirs(d, exist_ok=True)
    for fn in os.listdir(d):
        os.remove(os.path.join(d, fn))
    nsh = max(1, min(common.NPROC, len(items) // 4 or 1))
    shards = [items[i::nsh] for i in range(nsh)]
    for si, sh in enumerate(shards):
        with open(os.path.join(d, 'hist_%d.v' % si), 'w') as f:
            f.write(STYLE_HEADER + 'Eval vm_compute in (run_css_histories [\n' + ';\n'.join(e[0] for _, e in sh) + ']).\n')
    cmd = ('ls hist_*.v | xargs -P%d -I{} sh -c \'timeout 1500 coqc -Q "%s" Emmet {} > {}.out 2>&1 || echo FAIL {}\''
           % (common.NPROC, common.COQ))
    subprocess.run(cmd, shell=True, cwd=d, stdout=subprocess.PIPE, stderr=subprocess.STDOUT, text=True)
    diffs = {}
    for si, sh in enumerate(shards):
        path = os.path.join(d, 'hist_%d.v.out' % si)
        try:
            with open(path) as f:
                lists = su.parse_coq_lists(f.read())
            if len(lists) != 2 * sum(len(e[1]) for _, e in sh):
                raise ValueError('expected %d lists, got %d' % (2 * sum(len(e[1]) for _, e in sh), len(lists)))
        except Exception as e:
            ctx.broken.append({'kind': 'model-evaluation', 'file': 'hist_%d.v' % si,
                               'log_tail': (open(path).read()[-800:] if os.path.exists(path) else '') + repr(e)})
            continue
        it = iter(lists)
        for k, (term, which) in sh:
            h, r = hs[k][1], rs[k]
            seq = list(h['calls']) + [h['probe']]
            stats['histories'] += 1
            if hs[k][0].startswith('fnargs'):
                stats['histories_with_function_call_values'] = stats.get('histories_with_function_call_values', 0) + 1
            if hs[k][0].startswith('defaults'):
                stats['histories_with_boundary_default_values'] = stats.get('histories_with_boundary_default_values', 0) + 1
            if hs[k][0].startswith('order'):
                stats['histories_with_reordered_configurations_or_case_variant_names'] = stats.get('histories_with_reordered_configurations_or_case_variant_names', 0) + 1
            dd = []
            for (ck, di) in which:
                res, cs = su.decode_show(next(it)), next(it)
                rec = r['history']['calls'][ck]
                stats['calls_compared'] += 1
                if res[0] == 'ok':
                    mo = ['ok', res[1]]
                elif res[0] in CSS_ERR:
                    mo = ['err', CSS_ERR[res[0]]]
                elif res[0] == 'internal':
                    mo = ['err', res[1]]
                else:
                    mo = None
                if mo is not None and rec['out'] != mo and rec['out'] != ['err', 'RecursionError']:
                    dd.append('call %d expand(%r): implementation %r, model %r' % (ck, seq[ck]['abbr'], rec['out'], mo))
                for j, src in enumerate(cs):
                    fp = rec['caches'][j][1]
                    want = None if src == 0 else r['tables'][which[src - 1][1]]
                    if fp != want:
                        dd.append('call %d: cache %d %s, model: %s' % (
                            ck, j, 'is empty' if fp is None else 'holds a table', 'empty' if src == 0 else
                            'the table of the snippets of call %d' % which[src - 1][0]))
            if dd:
                stats['disagreements'] += 1
                diffs[k] = dd
    if not diffs and not any(b.get('kind') == 'model-evaluation' for b in ctx.broken):
        import shutil
        shutil.rmtree(d, ignore_errors=True)   # case files are kept only when something is wrong
    return diffs, stats


# ------------------------------------------------------------------ evidence
def cover_history(ctx, h, r):
    seq = list(h['calls']) + [h['probe']]
    ctx.cover('history_len_%02d' % len(h['calls']))
    shared_cache_sets = {}
    nested_fail = False
    for k, (c, rec) in enumerate(zip(seq, r['history'].get('calls', []))):
        if nested_fail and rec['kind'] == 'markup':
            ctx.cover('markup_call_after_a_call_that_raised_inside_a_nested_snippet')
        ctx.cover('call_%s_%s%s' % (rec['kind'], rec['out'][0], ('_stage%d' % rec['stage']) if rec['stage'] else ''))
        ctx.cover('via_' + c['via'])
        if c.get('op'):
            ctx.cover('two_step_%s_%s_%s' % (c['op'], rec['kind'], rec['out'][0]))
        if c['via'] == 'reorder':
            ctx.cover('call_through_an_equal_configuration_in_another_key_order_perm%d' % c.get('perm', 0))
        if rec['kind'] == 'markup' and rec['out'][0] == 'err' and rec.get('open_levels') is not None:
            ctx.cover('raised_with_%d_snippet_levels_open' % min(rec['open_levels'], 4))
            if rec['open_levels'] > 0:
                nested_fail = True
        if c['via'] != 'default' and '@global' in h['dicts'][h['objs'][c['d']] if c['via'] == 'obj' else c['d']]:
            ctx.cover('call_with_global_config')
        if c['via'] != 'default' and '@gref' in h['dicts'][h['objs'][c['d']] if c['via'] == 'obj' else c['d']]:
            ctx.cover('call_with_shared_global_config_object')
        if rec['kind'] == 'stylesheet' and hc.is_fn_call_abbr(c.get('abbr', '')):
            ctx.cover('stylesheet_call_with_function_arguments' + ('_output_has_function' if rec['out'][0] == 'ok' and '(' in rec['out'][1] else ''))
        if c['via'] != 'default':
            di = h['objs'][c['d']] if c['via'] == 'obj' else c['d']
            spec = h['dicts'][di]
            if spec.get('type') == 'stylesheet' and spec.get('cache') is not None and c['via'] != 'nocache':
                shared_cache_sets.setdefault(spec['cache'], set()).add(
                    (json.dumps(spec.get('snippets'), sort_keys=True), json.dumps(spec.get('options'), sort_keys=True)))
            if spec.get('type') != 'stylesheet' and rec['stage'] == 2 and spec.get('text'):
                ctx.cover('failing_resolution_with_truthy_text')
            if (spec.get('options') or {}).get('bem.enabled') and spec.get('type') != 'stylesheet':
                ctx.cover('bem_call')
    nt = False
    if hr.has_ops(h):
        n_out, other = hr.write_outs(h)
        ctx.cover('tree_written_out_up_to_%d_times' % min(n_out, 5))
        if other:
            ctx.cover('tree_written_out_with_a_configuration_other_than_the_one_it_was_parsed_with')
        if any(c.get('op') == 'stringify' for c in seq) and any(not c.get('op') for c in seq):
            ctx.cover('two_step_calls_mixed_with_expand_calls')
        nt = n_out >= 2
    if any(c['via'] == 'reorder' for c in seq) or label_is_order(h):
        cv = hr.case_variant_names(h)
        if cv:
            ctx.cover('reordered_configuration_with_names_differing_only_in_letter_case')
        if cv and any(v for v in shared_cache_sets.values()):
            ctx.cover('reordered_case_variant_table_sharing_a_cache_dict')
        nt = nt or cv
    shapes, shared_dv = hd.default_value_shapes(h)
    for sh in shapes:
        ctx.cover('snippet_default_value_holds_' + sh)
        if shared_dv:
            ctx.cover('snippet_default_value_holds_%s_cache_shared_by_differing_number_options' % sh)
    for c, rec in zip(seq, r['history'].get('calls', [])):
        if rec['kind'] == 'stylesheet' and hd.names_default(h, c):
            ctx.cover('stylesheet_call_writes_a_snippet_default_value_%s' % rec['out'][0])
    for bucket, uses in ho.option_shapes(h):
        ctx.cover('option_' + bucket)
        if uses >= 2:
            ctx.cover('option_%s_through_one_config_object_used_%s_times' % (bucket, '2' if uses == 2 else '3_or_more'))
            if not bucket.endswith('_written_as_list'):
                nt = True
    n_mkc, fams = ho.markup_cache_sharing(h)
    if n_mkc >= 2:
        ctx.cover('one_cache_dict_used_by_%s_differing_markup_configurations' % ('2' if n_mkc == 2 else '3_or_more'))
        for f in sorted(fams):
            ctx.cover('markup_configurations_on_one_cache_dict_differ_in_' + f)
        nt = True
    if h.get('globals'):
        nsyn, both = hc.global_layering(h)
        ctx.cover('shared_global_config_passed_with_%d_syntaxes' % min(nsyn, 4))
        if both:
            ctx.cover('global_config_defines_a_key_on_type_and_syntax_level')
        nt = both and nsyn > 1
    if any(len(v) > 1 for v in shared_cache_sets.values()):
        ctx.cover('histories_sharing_a_cache_between_different_snippets_or_options')
        nt = True
    return nt


def label_is_order(h):
    """a history that holds two equal dict specs in differing key order (the caller keeps both)"""
    ds = h['dicts']
    for i in range(len(ds)):
        for j in range(i + 1, len(ds)):
            if ds[i] == ds[j] and json.dumps(ds[i]) != json.dumps(ds[j]):
                return True
    return False


# ------------------------------------------------------------------ run
def load_corpus():
    out = []
    for p in sorted(glob.glob(os.path.join(common.VERIF, 'corpus', 'C08', '*.json'))):
        with open(p) as f:
            o = json.load(f)
        out.append((os.path.basename(p), o['history']))
    return out


def gen(ctx):
    rng = ctx.rng
    # C08_SKIP_CORPUS=1: sanity runs that must find a re-introduced defect with generated histories alone
    hs = [] if os.environ.get('C08_SKIP_CORPUS') else [('corpus:' + n, h) for n, h in load_corpus()]
    pairs = hu.pair_histories()
    if not os.environ.get('C08_ONLY_RANDOM'):   # sanity runs of the SEARCH layer
        hs += [('pair', h) for h in pairs]
    extra = []
    try:
        import abbr_gen as g
        names = g.safe_names()
        for _ in range(60):
            st = g.rand_stmt(rng, names, rng.randint(1, 8), max_depth=3)
            if g.total_copies(g.unroll(g.denote_stmt(st))) <= 60:
                extra.append(g.render(st))
    except Exception:
        extra = []
    n_rand = 260 if ctx.tier == 'quick' else 6000
    hs += [('random', hu.rand_history(rng, 12, extra)) for _ in range(n_rand)]
    # calls that stop (raise / meet a circular reference) INSIDE nested snippet resolution, then the enclosing snippets
    if not os.environ.get('C08_ONLY_RANDOM'):
        hs += [('nested-pair', h) for h in hn.nested_pair_histories()]
    n_nested = 90 if ctx.tier == 'quick' else 2000
    hs += [('nested-random', hn.rand_nested_history(rng)) for _ in range(n_nested)]
    # ONE caller-owned global configuration with type-level AND syntax-level sections, passed with calls of differing syntaxes
    if not os.environ.get('C08_ONLY_RANDOM'):
        hs += [('global-pair', h) for h in hc.global_pair_histories()]
    n_cls = 28 if ctx.tier == 'quick' else 800
    hs += [('global-random', hc.rand_global_history(rng)) for _ in range(n_cls)]
    # stylesheet values that are function calls WITH arguments, against snippets that have function keywords
    if not os.environ.get('C08_ONLY_RANDOM'):
        hs += [('fnargs-pair', h) for h in hc.fnargs_pair_histories()]
    hs += [('fnargs-random', hc.rand_fnargs_history(rng)) for _ in range(n_cls)]
    # equal configurations in another key order, names that differ only in letter case (harness/history_routes.py)
    if not os.environ.get('C08_ONLY_RANDOM'):
        hs += [('order-pair', h) for h in hr.order_pair_histories()]
    hs += [('order-random', hr.rand_order_history(rng)) for _ in range(30 if ctx.tier == 'quick' else 900)]
    # default values of user stylesheet snippets at the numeric boundaries, one cache dict, differing number-writing options
    if not os.environ.get('C08_ONLY_RANDOM'):
        hs += [('defaults-pair', h) for h in hd.default_value_pair_histories()]
    hs += [('defaults-random', hd.rand_default_value_history(rng)) for _ in range(40 if ctx.tier == 'quick' else 1200)]
    # the two-step route: one caller-owned parsed tree written out several times
    if not os.environ.get('C08_ONLY_RANDOM'):
        hs += [('twostep-pair', h) for h in hr.two_step_pair_histories()]
    hs += [('twostep-random', hr.rand_two_step_history(rng)) for _ in range(36 if ctx.tier == 'quick' else 1100)]
    # option values in every accepted shape through reused Config objects (harness/history_optvals.py)
    if not os.environ.get('C08_ONLY_RANDOM'):
        hs += [('optshape-pair', h) for h in ho.option_shape_pair_histories()]
    hs += [('optshape-random', ho.rand_option_shape_history(rng)) for _ in range(30 if ctx.tier == 'quick' else 900)]
    # markup configurations that share one cache dict and differ in one option family / syntax / snippets / variables / text
    if not os.environ.get('C08_ONLY_RANDOM'):
        hs += [('mkcache-pair', h) for h in ho.markup_cache_pair_histories()]
    hs += [('mkcache-random', ho.rand_markup_cache_history(rng)) for _ in range(40 if ctx.tier == 'quick' else 1200)]
    return hs


def run(ctx):
    _phase('start')
    ok = ctx.build(['props/C08.vo', 'run/HistoryRun.vo', 'run/HistoryStyle.vo', 'proofs/HistoryWorlds.vo', 'proofs/HistoryFull.vo'])
    if ok:
        ctx.obligations('props/C08.v')
    model = ctx.model('history') if ok else None
    ctx.cov['rule'] = (
        'histories = committed corpus (one minimal history per repaired defect), all ordered (call, probe) pairs over a '
        'compact pool with everything shareable shared random histories of 1..12 calls plus a '
        'probe over 1..7 configurations: markup and stylesheet, succeeding and failing (malformed abbreviation, malformed '
        'user snippet, snippets that do not convert), the same dict object / an equal copy / a shared Config object / no '
        'config, cache dicts shared between differing units, snippets, syntaxes and contexts, BEM, wrap text (str, list, '
        'empty), contexts; calls that stop INSIDE nested snippet resolution (harness/history_nested.py): user snippets that name '
        'user snippets (1..3 levels), user snippets that name built-in snippets, and documented built-in chains (! -> doc -> '
        'meta:vp, input:t -> inp -> input, ri:d -> img:s -> img, ...) whose inner name the user overrides, the innermost body '
        'malformed (open quote / bracket / group / field, stray parenthesis), circular or well-formed, reached as first child, '
        'after a sibling, in a group, repeated, deeper, with attributes; followed by calls that use the enclosing snippets '
        'through the same dict, an equal copy, a Config object, a well-formed / circular twin, another syntax and no '
        'configuration (all ordered (stopping call, probe) pairs over a compact pool + random histories of 1..6 calls; '
        'raised_with_N_snippet_levels_open counts the depth really reached); LAYERED, SHARED GLOBAL CONFIGURATIONS '
        '(harness/history_classes.py): ONE caller-owned global_config object (history keys "globals"/"@gref") with type-level '
        '(markup, stylesheet) AND syntax-level (html, jsx, pug, xml, xsl, haml, slim / css, scss, sass, less, stylus, sss) sections '
        'that define the same key (options, snippets, variables) on both levels, on one level, or empty, passed with calls of '
        'differing syntaxes and types through dicts, equal copies and Config objects built from it, next to a second shared global, '
        'a private equal "@global" and the call\'s own options/snippets/variables (all ordered (call, probe) pairs of syntaxes of '
        'one type over 2 fixed global configurations + random histories of 1..6 calls; every shared global is deep-compared before/'
        'after EVERY call); FUNCTION-CALL VALUES WITH ARGUMENTS: stylesheet snippets that have function keywords (documented '
        'built-in trf, cp, gtc, gtr, gac, cnt, animtf and user-defined tables), the keyword named by a 1-letter / 2-letter / full '
        'abbreviation after : or -, with no call, (), fewer / as many / more arguments than the keyword has, comma- or space-'
        'separated numbers, units, colours, strings, nested calls, followed through the same cache dict (same dict, equal copy, '
        'Config object, other options / other snippet table, no cache) by the same keyword with fewer or no arguments (one '
        '(call with arguments, probe) family per keyword + random histories of 1..6 calls); EQUAL ARGUMENTS IN ANOTHER KEY '
        'ORDER, NAMES THAT DIFFER ONLY IN LETTER CASE (harness/history_routes.py): the call made through an equal (==) configuration '
        'whose mappings -- the dict itself, snippets, options and their nested tables (markup.attributes, markup.valuePrefix, '
        'stylesheet.unitAliases), variables, context attributes, the sections of a private global configuration -- were built in '
        'another key order (via "reorder": reversed and three fixed permutations), transient, or kept by the caller as a second '
        'dict / Config object, sharing one cache dict with the original, with other options on the same cache, without cache; '
        'user stylesheet and markup snippet tables and variable tables holding names that differ only in letter case (Foo/foo, '
        'BOX/box/Box, next to and over built-in names), named by abbreviations as written / lower / upper / capitalised / '
        'swapped, alone, with a value, in + and > chains (per table ordered (cache-filling call, probe) pairs + random '
        'histories of 1..6 calls); THE TWO-STEP ROUTE ("op": parse / stringify): ONE caller-owned tree from '
        'emmet.markup_abbreviation / stylesheet_abbreviation written out 1..5 times with stringify_markup / stringify_stylesheet, '
        'with the configuration it was parsed with (same Config object, same dict, equal copy, reordered copy), with a preview '
        'configuration (other output options, other syntax), around ordinary expand() calls of the same and other abbreviations, '
        're-parsed, parse raising (then nothing to write); trees whose elements carry every attribute shape the writers treat '
        'specially (class, doubled class shorthand, id, quoted / unquoted / empty / boolean / implied values, fields in values and '
        'text, numbering, repeats, href, self-closing, implicit names, BEM shorthands) under html, xml, xsl, jsx, vue, svelte, pug, '
        'haml, slim and the options that rewrite names or values on output (markup.attributes, markup.valuePrefix, jsx.enabled, '
        'tag / attribute case, quotes, compact booleans, self-closing style, reversed attributes, comments, BEM, tabstop fields, '
        'unformatted output); stylesheet trees (numbers, units, colours, gradients, function calls, user snippets, !important) '
        '(one fixed family per configuration + random histories of 3..8 calls); DEFAULT VALUES OF USER STYLESHEET SNIPPETS AT '
        'THE NUMERIC BOUNDARIES (harness/history_defaults.py): default values made of zero in every spelling (0, 0.0, -0, 00, .0), '
        'zero with a unit alias (0p, 0x, 0e, 0r, 0.0p, -0x), zero with a unit (0px, 0%), non-zero integers / floats / negatives / '
        'fractions without unit, with a unit alias, with a unit, next to keywords, colours, fields with numeric placeholders, '
        'strings and function calls with numeric arguments, as one token, several space-separated tokens, comma lists and | '
        'alternatives; the snippet named WITHOUT a value (the default is written), with !, in + chains and with a typed value at '
        'the same boundaries, through ONE cache dict shared by configurations with equal snippets and differing '
        'stylesheet.unitAliases / intUnit / floatUnit / unitless / shortHex / output.field (same dict, equal copy, Config '
        'object, no cache; per default value every option set of a fixed ring of 4 is the first caller of the cache in some '
        'history + random tables, option sets and histories of 1..6 calls; a fixed share goes through the stylesheet '
        'pipeline model); OPTION VALUES IN EVERY ACCEPTED SHAPE THROUGH REUSED CONFIGURATIONS (harness/history_optvals.py): the '
        'options whose documented value is a list of names (inlineElements, output.formatSkip, output.formatForce, '
        'output.booleanAttributes, comment.trigger, stylesheet.keywords, stylesheet.unitless) written as a list, a list in another '
        'order, a one-name list, an empty list and as ONE string (space-, comma-, comma+space-, newline-separated, stray white '
        'space, one name, empty), switches written as 0 / 1 / \'\' / \'yes\' / None, output.inlineBreak 0, empty tables for '
        'markup.attributes / markup.valuePrefix / stylesheet.unitAliases; per option and shape ONE caller-owned Config object '
        'used for the same abbreviation twice, another one and the first again, next to the dict it was built from and an equal '
        'copy, abbreviations on which the option is visible (one family per option x shape + random histories of 2..6 calls '
        'with 1..3 such options per configuration, random subsets of the names, raising calls in between; '
        'option_<name>_written_as_<shape>_through_one_config_object_used_N_times counts them); MARKUP CONFIGURATIONS THAT SHARE ONE '
        'CACHE DICT: markup configurations with `cache` that differ in one option of every family that shapes markup output '
        '(comment.enabled / before / after / trigger incl. \'\' and None to switch a part off; output.indent / newline / '
        'baseIndent / format / formatLeafNode / formatSkip / formatForce / inlineBreak / inlineElements; tagCase / attributeCase / '
        'attributeQuotes / selfClosingStyle / compactBoolean / booleanAttributes / reverseAttributes / markup.attributes / '
        'markup.valuePrefix / markup.href / jsx.enabled / output.field; bem.*) or in syntax, snippets, variables, context, text: '
        'per variant defaults-first (the first caller passes no option at all) and variant-first, per family every rotation of '
        'the ring of its variants (every variant once the FIRST caller of the cache dict), every third ring with a stylesheet '
        'configuration on the same cache dict in between, + random histories of 1..6 calls over 2..4 random combinations, same '
        'dict / equal copy / Config object / no cache.  Calls whose option values are not of the documented type are judged by '
        'the oracle and the history state machine only (the pipeline models take options of the documented types); the '
        'markup calls of the cache-sharing histories go through the markup pipeline model.  The calls with a global '
        'configuration are judged by the oracle and the state tie only (the pipeline models take a resolved configuration '
        'without global layers); a fixed share of the function-call histories and of the reordered / case-variant histories goes '
        'through the stylesheet pipeline model (a reordered call is an equal copy to the models); histories with two-step calls '
        'are judged by the oracle only (the history state machine has expand steps only).  Oracle per call: result = result of the same call alone in a pristine process (forked from a '
        'server that imported emmet and never called it; a sample is re-checked against really fresh interpreters), = '
        'result without cache; caller dicts/Config objects deep-equal before/after; module state of emmet.* unchanged; '
        'no emmet instance stays alive (gc: support, not proof); a call through a reordered configuration = the same call with '
        'the mappings in the written order (both pristine); write-out number n of a caller-owned tree = the same tree parsed and '
        'written out once in a pristine process, and parse + one write-out with one configuration = expand() of it (pristine); weak '
        'containers of emmet.* are judged when the caller has dropped its trees (their entries are keyed by nodes the caller holds).  '
        'non-trivial = a tree written out twice or more, or one cache dict used by two or more differing markup configurations, '
        'or a Config object used twice or more whose list-valued / switch option is written in another shape than its documented type, or a reordered configuration whose tables hold names differing only in '
        'letter case, or a history in which one cache dict is used '
        'by configurations with different snippets or options, or a call raises on a configuration with text, or one global '
        'configuration object that defines a key on both levels is passed with calls of two or more syntaxes; distinct by content.')
    ctx.cov['partial_clause'] = ('"keeps no per-call data alive" is a statement about the CPython heap: the model covers the '
                                 'containers it names (theorem C08_no_growth), the harness measures container fingerprints of '
                                 'emmet.* and live-instance counts (gc.get_objects) -- support, not proof.')
    _phase('build+obligations')
    hs = gen(ctx)
    pool = hu.Pool()
    if os.environ.get('C08_TIMING'):
        import collections
        import time
        for lab in sorted(set(l.split(':')[0] for l, _ in hs)):
            t0 = time.time()
            sub = [h for l, h in hs if l.split(':')[0] == lab]
            pool.run(sub)
            import sys
            sys.stderr.write('C08 pool %-16s %4d histories %6.1fs\n' % (lab, len(sub), time.time() - t0))
    _phase('gen')
    rs = pool.run([h for _, h in hs])
    _phase('pool.run')
    corr = {'histories': 0, 'calls_compared': 0, 'disagreements': 0, 'outside_model': 0}
    wires, idx = [], []
    for k, ((label, h), r) in enumerate(zip(hs, rs)):
        if 'worker_error' in r['history'] or 'worker_error' in str(r.get('tables'))[:30]:
            continue
        enc = encode_history(h, r) if model is not None else None
        if enc is None:
            corr['outside_model'] += 1
            continue
        wires.append(enc[0])
        idx.append((k, enc))
    mouts = model.run(wires) if model is not None and wires else []
    disagree = {}
    for (k, enc), mo in zip(idx, mouts):
        label, h = hs[k]
        corr['histories'] += 1
        corr['calls_compared'] += len(h['calls']) + 1
        try:
            diffs = compare_state(h, rs[k], enc, mo)
        except Exception as e:
            diffs = ['model output unreadable: %r' % (e,)]
        if diffs:
            corr['disagreements'] += 1
            disagree[k] = diffs
    _phase('state tie')
    # markup half over the real pipeline model: real output strings of calls made inside histories
    mcorr = {'histories': 0, 'calls_compared': 0, 'disagreements': 0}
    if model is not None:
        mw, midx = [], []
        for k, ((label, h), r) in enumerate(zip(hs, rs)):
            if 'worker_error' in r['history']:
                continue
            e2 = encode_markup_history(h, r)
            if e2 is not None:
                mw.append(e2[0])
                midx.append((k, e2))
        for (k, e2), mo in zip(midx, model.run(mw) if mw else []):
            mcorr['histories'] += 1
            mcorr['calls_compared'] += len(e2[2])
            try:
                d2 = compare_markup(hs[k][1], rs[k], e2, mo)
            except Exception as e:
                d2 = ['model output unreadable: %r' % (e,)]
            if d2:
                mcorr['disagreements'] += 1
                disagree.setdefault(k, []).extend(d2)
    _phase('markup tie')
    # stylesheet half over the real pipeline model, evaluated inside Coq
    scorr = {'histories': 0, 'calls_compared': 0, 'disagreements': 0}
    if ok:
        d3, scorr = css_tie(ctx, hs, rs, 170 if ctx.tier == 'quick' else 1700)
        for k, dd in d3.items():
            disagree.setdefault(k, []).extend(dd)
    _phase('stylesheet tie (coqc)')
    n_fail = 0
    unexplained = []
    for k, ((label, h), r) in enumerate(zip(hs, rs)):
        fails = hu.oracle(h, r)
        ctx.count_eval(len(h['calls']) + 1)
        nt = cover_history(ctx, h, r)
        ctx.cover('histories_' + label.split(':')[0])
        if nt or any(c['stage'] == 2 and c['kind'] == 'markup' for c in r['history'].get('calls', [])):
            ctx.nontrivial(json.dumps(h, sort_keys=True))
        seen = set()
        for key, what, detail in fails:
            if key in seen:
                continue
            seen.add(key)
            n_fail += 1
            if key.startswith('harness:'):
                ctx.broken.append({'kind': 'harness-crash', 'file': what[:300]})
                continue
            small = h
            if n_fail <= 3 and len(h['calls']) > 1 and ctx.match_known(key) is None:
                try:
                    small = hu.shrink(pool, h, key)
                except Exception:
                    small = h
            ctx.property_failure(key, what, {'key': key, 'history': small, 'original_history': h if small is not h else None,
                                             'why': what, 'source': label,
                                             'support_only': key in KEYS_SUPPORT})
        if k in disagree and not fails:
            unexplained.append(k)
        elif k in disagree:
            ctx.cover('disagreements_explained_by_a_property_failure')
    # SEARCH: a state disagreement without a wrong result in the history itself -> look for a probe that shows it
    searched = 0
    for k in unexplained:
        label, h = hs[k]
        found = None
        # (not needed when the run already holds a concrete failing history: the check fails with that input)
        if searched < 3 and not any(not v['no_input'] for v in ctx.violations):
            searched += 1
            m = re.match(r'call (\d+)', disagree[k][0])
            cands = hu.search_candidates(h, int(m.group(1)) if m else len(h['calls']))[:120]
            for cand, r in zip(cands, pool.run(cands)):
                fs = [f for f in hu.oracle(cand, r) if not f[0].startswith('harness:')]
                if fs:
                    found = (cand, fs[0])
                    break
        if found:
            cand, (key, what, detail) = found
            ctx.cover('disagreements_explained_by_search')
            ctx.property_failure(key, what, {'key': key, 'history': cand, 'why': what,
                                             'source': 'search after a state disagreement in a %s history: %s' % (label, disagree[k][0]),
                                             'support_only': key in KEYS_SUPPORT})
        else:
            ctx.broken.append({'kind': 'model-correspondence', 'file': 'history %d (%s): %s' % (k, label, '; '.join(disagree[k])[:600]),
                               'history': h})
    ctx.cov['correspondence'] = {'history-state-machine': corr, 'history-over-markup-pipeline-model': mcorr,
                                 'history-over-stylesheet-pipeline-model': scorr}
    ctx.cov['additional_theorems'] = ['proofs/HistoryWorlds.v css_history_is_expand_css: through any cache dict, after any history, the '
                                      'history model over the stylesheet pipeline model returns what the cache-less expand_css returns '
                                      '(compiled with the build; depends on the kernel PrimFloat primitives only)',
                                      'proofs/HistoryFull.v full_markup_probe / full_css_probe: ONE history state machine over both real '
                                      'pipeline models (markup parts = the world of C08_markup_history_is_expand_markup, stylesheet parts = '
                                      'the stylesheet model): after any history a markup probe = expand_markup_str of the caller\'s '
                                      'configuration and a stylesheet probe = expand_css (compiled with the build; PrimFloat primitives only)']
    ctx.cov['model_link'] = ('C08_markup_history_is_expand_markup: the world executed by the second tie (HistoryRun.mk_world, command 2) is '
                             'proved to return expand_markup_str of the caller\'s configuration after any history (mk_world_is, by '
                             'reflexivity, + C08_executed_world_is_expand_markup); C08_state_size_bounded / C08_cache_entry_origin: the '
                             'model-level reading of "keeps no per-call data alive" (state size bounded by the number of cache dicts the '
                             'caller shares, independent of the history length; a cache dict holds the table of ONE call).')
    _phase('oracle+search')
    # the fork server's "fresh state" is re-checked against really fresh interpreters
    n_once = 24 if ctx.tier == 'quick' else 200
    picks = []
    for k in range(len(hs)):
        h = hs[k][1]
        seq = list(h['calls']) + [h['probe']]
        j = ctx.rng.randrange(len(seq))
        if 'worker_error' not in rs[k]['fresh'][j]:
            picks.append((k, j))
    picks = ctx.rng.sample(picks, min(n_once, len(picks)))

    def once(kj):
        k, j = kj
        h = hs[k][1]
        seq = list(h['calls']) + [h['probe']]
        pc = None
        if seq[j].get('op') == 'stringify':
            gov = [c for c in seq[:j] if c.get('op') == 'parse' and c.get('tree') == seq[j].get('tree')]
            pc = gov[-1] if gov else None
        return pool.once(h, seq[j], pc=pc)
    with ThreadPoolExecutor(max_workers=common.NPROC) as ex:
        outs = list(ex.map(once, picks))
    bad = 0
    for (k, j), o in zip(picks, outs):
        if o['out'] != rs[k]['fresh'][j]['out']:
            bad += 1
            ctx.broken.append({'kind': 'fork-server-not-fresh', 'file': 'history %d call %d: forked %r, fresh interpreter %r'
                               % (k, j, rs[k]['fresh'][j]['out'], o['out'])})
    ctx.cov['fresh_interpreter_recheck'] = {'calls': len(picks), 'different': bad}
    _phase('fresh-interpreter recheck')
    for k in range(3, min(len(hs), 600), 97):
        label, h = hs[k]
        ctx.sample({'source': label, 'history': h,
                    'results': [c['out'] if c['out'][0] == 'err' else ['ok', c['out'][1][:60]] for c in rs[k]['history'].get('calls', [])]})


def replay(ctx, obj):
    rp = obj.get('replay', {})
    if 'history' not in rp:
        print('replay names a broken obligation, no input: %s' % str(rp)[:300])
        return 1
    pool = hu.Pool(1)
    h = rp['history']
    r = pool.run([h])[0]
    fails = hu.oracle(h, r)
    print('history: %s' % json.dumps(h))
    for rec in r['history'].get('calls', []):
        print('  %s %r' % (rec['kind'], rec['out']))
    for key, what, _ in fails:
        print('FAILS %s: %s' % (key, what))
    want = rp.get('key')
    still = [f for f in fails if want is None or f[0] == want]
    if not still:
        print('the property holds on this history now')
    return 1 if still else 0
