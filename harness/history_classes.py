"""C08 generators for two further classes of histories (used by harness/props/c08.py only).

1. LAYERED, SHARED GLOBAL CONFIGURATIONS.  The third argument of expand() (second of Config) is a caller-owned dict
   with one section per TYPE ('markup', 'stylesheet') and one per SYNTAX ('html', 'jsx', 'pug', 'stylus', ...), each
   holding options / snippets / variables.  An editor plugin keeps ONE such object and passes it with every call,
   whatever the syntax of the file at hand.  Explored here: global configurations in which the same key (options,
   snippets, variables) is defined on BOTH levels, on one level only, or is empty; the same object passed
   with calls of differing syntaxes and types (history format: "globals" + "@gref", harness/history_worker.py),
   through dicts, equal copies and Config objects built from it; every ordered (call, probe) pair of syntaxes over
   a few fixed global configurations, plus random histories.

2. FUNCTION-CALL VALUES WITH EXPLICIT ARGUMENTS.  A stylesheet value may be a function call (`trf:r(45)`,
   `cp:r(1 2 3 4)`, `gtc:m(1, 2)`) whose name is matched against the function keywords of the resolved snippet and
   whose arguments are merged with the keyword's own.  Explored here: snippets WITH function keywords (documented
   built-in ones and user-defined ones), the keyword named by a 1-letter / 2-letter / full abbreviation after ':'
   or '-', given no call at all, an empty argument list, fewer / as many / more arguments than the keyword has,
   comma- and space-separated, numbers, units, colours, strings, nested calls; calls with arguments followed by
   calls of the same keyword with fewer or no arguments through the same cache dict (same dict, equal copy,
   a configuration with other options sharing the cache, no cache).

Nothing here is an expectation: the tables only steer the generators.  Every call is judged by history_util.oracle
(the same call alone in a pristine process, with a fresh cache and without cache; caller-owned dicts -- shared global
configurations included -- deep-equal before and after every call).  The built-in snippet names below are the
documented ones of Emmet's CSS snippet set (docs.emmet.io/cheat-sheet; emmet/snippets/css.json upstream): `trf` =
transform with scale/rotate/translate/skew... keywords, `cp` = clip:auto|rect(), `gtc`/`gtr` = grid-template-* with
repeat()/minmax(), `gac` = grid-auto-columns with minmax(), `cnt` = content with attr()/counter()/counters(),
`animtf` = animation-timing-function with cubic-bezier().  If the library's table differs the calls simply match
nothing (the evidence counts what was really produced: fn_call_output_has_function)."""
import json
import random


def _copy(o):
    return json.loads(json.dumps(o))


# ====================================================================== 1. layered, shared global configurations
MK_SYN = ['html', 'jsx', 'pug', 'xml', 'xsl', 'haml', 'slim']
CSS_SYN = ['css', 'scss', 'sass', 'less', 'stylus', 'sss']

G_VALUES = {
    ('markup', 'options'): [{'output.indent': '  '}, {'output.attributeQuotes': 'single'}, {'output.selfClosingStyle': 'xhtml'},
                            {'output.tagCase': 'upper'}, {'comment.enabled': True}, {'output.compactBoolean': True},
                            {'bem.enabled': True}, {'output.inlineBreak': 1, 'output.indent': ' '}, {}],
    ('markup', 'snippets'): [{'gs': 'section.g>p'}, {'gs': 'x-y', 'gt': 'a.t'}, {'a': 'a[href=#]'}, {'gt': 'em{t}'},
                             {'gs': 'Gs[title]/'}, {}],
    ('markup', 'variables'): [{'lang': 'de'}, {'lang': 'fr', 'charset': 'koi8'}, {'charset': 'latin1'}, {}],
    ('stylesheet', 'options'): [{'stylesheet.intUnit': 'pt'}, {'stylesheet.intUnit': 'rem'}, {'stylesheet.floatUnit': 'vw'},
                                {'stylesheet.shortHex': False}, {'stylesheet.between': ' = '}, {'stylesheet.after': ''},
                                {'stylesheet.intUnit': 'mm', 'stylesheet.floatUnit': 'cm'}, {}],
    ('stylesheet', 'snippets'): [{'gfoo': 'margin:3'}, {'gfoo': 'padding:2.5', 'foo': 'top:1'}, {'m': 'margin-top'},
                                 {'foo': 'width:2 3.5'}, {}],
    ('stylesheet', 'variables'): [{'lang': 'de'}, {}],
}
KEYS = ('options', 'snippets', 'variables')
# abbreviations on which options / snippets / variables of the sections above are visible
G_MK_ABBRS = ['a', 'gs', 'gt', 'img', 'br+gs', 'html[lang=${lang}]', 'ul>li*2', '!', 'input[disabled.]', 'gs>gt', 'p>a+em',
              'meta[charset=${charset}]', '.b>._e', 'div>span']
G_CSS_ABBRS = ['m10', 'gfoo', 'foo', 'p1.5', 'c#f', 'm', 'foo10', 'lh1.5', 'm10+p2.5']


def rand_layered_global(rng, both=True, every_type=False):
    """a global configuration with type-level and syntax-level sections; with `both` at least one key is defined on
    both levels of one type (with `every_type`: of either type).  Returns (global, {type: [syntaxes that have a section]})"""
    while True:
        g, syn, layered = {}, {}, set()
        for typ, pool in (('markup', MK_SYN), ('stylesheet', CSS_SYN)):
            if rng.random() < 0.15 and not every_type:
                continue
            tsec = {k: _copy(rng.choice(G_VALUES[(typ, k)])) for k in KEYS if rng.random() < 0.6}
            if tsec or rng.random() < 0.5:
                g[typ] = tsec
            syn[typ] = rng.sample(pool, rng.randint(1, 3))
            for s in syn[typ]:
                ssec = {k: _copy(rng.choice(G_VALUES[(typ, k)])) for k in KEYS if rng.random() < 0.6}
                g[s] = ssec
                if any(k in tsec and tsec[k] and ssec[k] for k in ssec):
                    layered.add(typ)
        if g and (not both or (len(layered) == 2 if every_type else layered)):
            return g, syn


def _gdicts(syn, rng=None, cache=False, n_others=2):
    """one configuration per syntax (those with a section of their own and others of the same type), all naming the
    shared global 0"""
    dicts = []
    for typ, pool in (('markup', MK_SYN), ('stylesheet', CSS_SYN)):
        if typ not in syn:
            continue
        own = list(syn[typ])
        others = [s for s in pool if s not in own]
        for s in own + others[:n_others]:
            d = {'syntax': s, '@gref': 0}
            if typ == 'stylesheet':
                d['type'] = 'stylesheet'
                if cache:
                    d['cache'] = 0
            dicts.append(d)
        # the type named alone: the syntax defaults to html / css
        dicts.append({'type': typ, '@gref': 0})
    return dicts


def _kind(d):
    return 'stylesheet' if d.get('type') == 'stylesheet' else 'markup'


def global_pair_histories(n_globals=2):
    """every ordered pair (call with syntax A, probe with syntax B != A, same type) over a few fixed layered global
    configurations, all calls passing the SAME global object; the first call uses one fixed abbreviation per type,
    the probe two"""
    rng = random.Random(80808)   # fixed: this part is the same in every run
    out = []
    for gi in range(n_globals):
        g, syn = rand_layered_global(rng, every_type=True)
        every = _gdicts(syn, n_others=1)
        for i0, di in enumerate(every):
            # the configurations of one type only (the others would only be built, never called)
            dicts = [d for d in every if _kind(d) == _kind(di)]
            i = dicts.index(di)
            for j, dj in enumerate(dicts):
                if i == j:
                    continue
                # at least one side has a section of its own in the global configuration
                if di.get('syntax') not in g and dj.get('syntax') not in g:
                    continue
                css = _kind(di) == 'stylesheet'
                first = 'm10' if css else 'a'
                probes = ('gfoo', 'p1.5+m10') if css else ('gs>a', 'html[lang=${lang}]>img')
                for pa in probes:
                    via = 'obj' if (i + j + gi) % 5 == 0 else 'dict'
                    objs = [i] if via == 'obj' else []
                    out.append({'dicts': dicts, 'globals': [g], 'ncaches': 0, 'objs': objs,
                                'calls': [{'abbr': first, 'via': via, 'd': 0 if via == 'obj' else i}],
                                'probe': {'abbr': pa, 'via': 'dict', 'd': j}})
    return out


def rand_global_history(rng, max_len=6):
    g, syn = rand_layered_global(rng, both=rng.random() < 0.85)
    globs = [g]
    ncaches = rng.choice([0, 1])
    dicts = _gdicts(syn, rng, cache=bool(ncaches))
    rng.shuffle(dicts)
    dicts = dicts[:rng.randint(2, 5)]
    if rng.random() < 0.3:
        # a second caller-owned global configuration next to the first
        g2, _ = rand_layered_global(rng, both=False)
        globs.append(g2)
        t = _copy(rng.choice(dicts))
        t['@gref'] = 1
        dicts.append(t)
    for d in dicts:
        # the call's own configuration on top of the global layers
        if rng.random() < 0.25:
            typ = _kind(d)
            k = rng.choice(KEYS)
            v = _copy(rng.choice(G_VALUES[(typ, k)]))
            if v:
                d[k] = v
        if _kind(d) == 'markup' and rng.random() < 0.15:
            d['text'] = rng.choice(['hello', ['x', 'y']])
    if rng.random() < 0.25:
        # the same configuration with a private, equal global configuration ("@global": not shared)
        t = _copy(rng.choice(dicts))
        t['@global'] = _copy(globs[t.pop('@gref')])
        dicts.append(t)
    objs = [i for i in range(len(dicts)) if rng.random() < 0.3]

    def call():
        r = rng.random()
        if objs and r < 0.3:
            k = rng.randrange(len(objs))
            di, via, ref = objs[k], 'obj', k
        else:
            di = rng.randrange(len(dicts))
            via, ref = ('dict' if r < 0.8 else 'copy'), di
        pool = G_CSS_ABBRS if _kind(dicts[di]) == 'stylesheet' else G_MK_ABBRS
        return {'abbr': rng.choice(pool), 'via': via, 'd': ref}
    calls = [call() for _ in range(rng.randint(1, max_len))]
    probe = call()
    return {'dicts': dicts, 'globals': globs, 'ncaches': ncaches, 'objs': objs, 'calls': calls, 'probe': probe}


def global_layering(h):
    """evidence only: (number of distinct syntaxes with which the calls of `h` pass one shared global, does some global
    define one key on both levels of a type)"""
    syns, both = {}, False
    for c in list(h['calls']) + [h['probe']]:
        if c['via'] == 'default':
            continue
        d = h['dicts'][h['objs'][c['d']] if c['via'] == 'obj' else c['d']]
        if d.get('@gref') is not None:
            syns.setdefault(d['@gref'], set()).add((_kind(d), d.get('syntax')))
    for g in list(h.get('globals', [])) + [d['@global'] for d in h['dicts'] if '@global' in d]:
        for typ, pool in (('markup', MK_SYN), ('stylesheet', CSS_SYN)):
            for s in pool:
                if any(k in g.get(typ, {}) and k in g.get(s, {}) for k in KEYS):
                    both = True
    return max([len(v) for v in syns.values()] or [0]), both


# ====================================================================== 2. function-call values with explicit arguments
# (snippet table of the caller or None, [(snippet name, [function keywords it has])])
FN_TABLES = [
    (None, [('trf', ['scale', 'rotate', 'translate', 'skewX', 'scale3d', 'translate3d', 'rotateX']), ('cp', ['rect']),
            ('gtc', ['repeat', 'minmax']), ('gtr', ['repeat', 'minmax']), ('gac', ['minmax']),
            ('cnt', ['attr', 'counter', 'counters']), ('animtf', ['cubic-bezier'])]),
    ({'foo': 'transform:scale(x, y)|rotate(a)|skew(ax, ay)'}, [('foo', ['scale', 'rotate', 'skew']), ('trf', ['scale', 'rotate'])]),
    ({'foo': 'clip:auto|rect(t r b l)', 'bar': 'margin:10'}, [('foo', ['rect']), ('cp', ['rect'])]),
    ({'fw': 'width:calc(a)|min(a, b)|max(a, b, c)|auto', 'foo': 'filter:blur(r)|none'},
     [('fw', ['calc', 'min', 'max']), ('foo', ['blur'])]),
    ({'foo': 'margin:10', 'gt': 'grid-template:repeat(2, auto)|minmax(250px, 1fr)'}, [('gt', ['repeat', 'minmax']), ('gtc', ['repeat'])]),
]
FN_ARGS = ['()', '(1)', '(2, 3)', '(2,3)', '(1 2 3 4)', '(1, 2, 3, 4, 5)', '(#f00)', '(10px)', '(1.5)', "('x')", '(a(1), 2)',
           '(-1)', '(auto)', '(1, 2, 3)', '(45deg)', '(7 8)']
FN_OPTIONS = [None, None, {'stylesheet.intUnit': 'pt'}, {'stylesheet.fuzzySearchMinScore': 0.3}, {'output.field': '@tabstop'},
              {'stylesheet.shortHex': False}, {'stylesheet.between': ' '}]


def _kw_forms(kw):
    return [kw[0], kw[:2], kw]


def fn_abbr(rng, entries, args=None):
    name, kws = rng.choice(entries)
    r = rng.random()
    if r < 0.08:
        return name
    kw = rng.choice(_kw_forms(rng.choice(kws)))
    if args is None:
        args = rng.choice(FN_ARGS) if rng.random() < 0.6 else ''
    a = name + rng.choice([':', '-', ':']) + kw + args
    if rng.random() < 0.1:
        a += rng.choice(['!', '+' + name, '+m10'])
    return a


def _fn_dict(table, options=None, cache=0, syntax=None):
    d = {'type': 'stylesheet'}
    if table is not None:
        d['snippets'] = _copy(table)
    if options is not None:
        d['options'] = _copy(options)
    if cache is not None:
        d['cache'] = cache
    if syntax is not None:
        d['syntax'] = syntax
    return d


def fnargs_pair_histories():
    """compact exhaustive part: ONE call that passes explicit arguments to a function keyword, then ONE probe that
    names the same keyword with no call / fewer arguments, or the snippet alone -- through the same dict, an equal
    copy and a configuration with other options, all sharing the cache dict"""
    out = []
    n = 0
    for table, entries in FN_TABLES:
        dicts = [_fn_dict(table), _fn_dict(table, {'stylesheet.intUnit': 'pt', 'stylesheet.floatUnit': 'rem'})]
        for name, kws in entries:
            for kw in kws[:3]:
                for si, (sep, form, args) in enumerate(((':', kw[0], '(2, 3)'), ('-', kw[:2], '(1 2 3 4)'), (':', kw, '(7)'))):
                    n += 1
                    if si != (n - 1) // 3 % 3:
                        continue   # thinned: every keyword with one of the three shapes, in rotation
                    first = {'abbr': name + sep + form + args, 'via': 'dict', 'd': 0}
                    bare = name + sep + form
                    out.append({'dicts': dicts, 'ncaches': 1, 'objs': [], 'calls': [first],
                                'probe': {'abbr': bare, 'via': 'dict', 'd': 0}})
                    out.append({'dicts': dicts, 'ncaches': 1, 'objs': [], 'calls': [first],
                                'probe': {'abbr': bare + '(9)', 'via': 'copy', 'd': 0}})
                    if n % 2:
                        out.append({'dicts': dicts, 'ncaches': 1, 'objs': [], 'calls': [first],
                                    'probe': {'abbr': name + ':' + kw, 'via': 'dict', 'd': 1}})
    return out


def rand_fnargs_history(rng, max_len=6):
    table, entries = rng.choice(FN_TABLES)
    ncaches = rng.choice([1, 1, 1, 2])
    dicts = [_fn_dict(table, rng.choice(FN_OPTIONS), rng.randrange(ncaches), rng.choice([None, None, 'scss', 'stylus', 'sass']))
             for _ in range(rng.randint(1, 3))]
    if rng.random() < 0.3:
        # same cache dict, built-in snippets only / another user table: the keyword sets differ
        t2, e2 = rng.choice(FN_TABLES)
        dicts.append(_fn_dict(t2, None, 0))
        entries = entries + e2
    objs = [i for i in range(len(dicts)) if rng.random() < 0.25]

    def call(args=None):
        r = rng.random()
        if objs and r < 0.25:
            k = rng.randrange(len(objs))
            return {'abbr': fn_abbr(rng, entries, args), 'via': 'obj', 'd': k}
        via = 'dict' if r < 0.75 else ('copy' if r < 0.93 else 'nocache')
        return {'abbr': fn_abbr(rng, entries, args), 'via': via, 'd': rng.randrange(len(dicts))}
    calls = [call() for _ in range(rng.randint(1, max_len))]
    probe = call()
    if rng.random() < 0.6:
        # the probe names the keyword of an earlier call again: without call, with an empty list, with one argument
        c0 = rng.choice(calls)
        base = c0['abbr'].split('(')[0].split('+')[0].rstrip('!')
        probe = dict(probe, abbr=base + rng.choice(['', '', '()', '(5)']))
    return {'dicts': dicts, 'ncaches': ncaches, 'objs': objs, 'calls': calls, 'probe': probe}


def is_fn_call_abbr(abbr):
    return '(' in abbr
