"""BEM addon (emmet/markup/addon/bem.py): tie between coq/model/MarkupBem.v (hooked into
model/MarkupResolve.v transform_node) and the implementation.

`run_bem(ctx, model)` is called by harness/c07_markup.py (C07 is the property that speaks about BEM
configurations: "never an internal error ... also when BEM ... or a context are configured"); the observable
compared here is the FULL expand() output (string, or error class + position), model vs implementation,
through MarkupRun command 2.  0 disagreements required.

Streams:
  * exhaustive class strings: every string up to length N over the alphabet `a b - _ 1` + space, as the
    (quoted) class attribute of the LAST element of 1, 2 and 3 nested elements whose ancestors carry fixed block
    classes, with and without a context class, default and custom element/modifier separators;
  * exhaustive pairs/triples of short class strings on a chain of 2 / 3 nested elements (this is where the
    module-lifetime cache of get_block_name shows: a node that queries its own block during its own expansion
    is seen by its descendants in its intermediate state) and on siblings (entries created by one subtree are
    seen by the next);
  * dotted-class abbreviations `.x>.y+.z` over the alphabet of harness/c07_markup's BEM sweep;
  * re.I code points: U+0130 U+0131 U+017F U+212A and other non-ASCII letters/digits in every regex position;
  * fields / numbering / repeaters / snippets / implicit names / lorem mixes under random BEM configurations.
"""
import itertools

from common import enc_str
from markup_util import enc_config, NotModelled, decode_expand, impl_expand, canon_cfg

ALPHA = ['a', 'b', '-', '_', '1', ' ']


def bem_opts(element=None, modifier=None, **extra):
    o = {'bem.enabled': True}
    if element is not None:
        o['bem.element'] = element
    if modifier is not None:
        o['bem.modifier'] = modifier
    o.update(extra)
    return o


CFG_PLAIN = {'options': bem_opts(**{'output.format': False})}
CFG_CTX = {'options': bem_opts(**{'output.format': False}), 'context': {'name': 'div', 'attributes': {'class': 'x-blk q'}}}
CFG_SEP = {'options': bem_opts('-', '--', **{'output.format': False})}
CFG_SEP2 = {'options': bem_opts('', '', **{'output.format': False}), 'context': {'name': 'p', 'attributes': {'class': '_m cb'}}}
CFG_CTX_NOCLASS = {'options': bem_opts(), 'context': {'name': 'ul'}}
CFG_CTX_EMPTY = {'options': bem_opts(), 'context': {}}
CFG_CTX_NONECLASS = {'options': bem_opts(), 'context': {'attributes': {'class': None}}}
MAIN_CFGS = [CFG_PLAIN, CFG_CTX, CFG_SEP, CFG_SEP2]
ALL_CFGS = MAIN_CFGS + [CFG_CTX_NOCLASS, CFG_CTX_EMPTY, CFG_CTX_NONECLASS,
                        {'options': bem_opts(), 'syntax': 'pug'}, {'options': bem_opts(), 'syntax': 'haml'},
                        {'options': bem_opts(), 'syntax': 'slim'}, {'options': bem_opts(), 'syntax': 'jsx'},
                        {'options': bem_opts(**{'comment.enabled': True})},
                        {'options': bem_opts(**{'output.reverseAttributes': True})},
                        {'options': bem_opts(), 'syntax': 'xsl'},
                        {'options': bem_opts(), 'text': ['x', 'y']},
                        {'options': bem_opts(), 'snippets': {'foo': '.b_m>.-e', 'bar': 'foo.-x>._y', 'bz': 'p.-q+p._r'}}]


def strings(alpha, n):
    for k in range(0, n + 1):
        for tup in itertools.product(alpha, repeat=k):
            yield ''.join(tup)


def quoted(cls):
    return '[class="%s"]' % cls


def gen_cases(ctx):
    """-> list of (abbr, cfg, tag)"""
    quick = ctx.tier == 'quick'
    rng = ctx.rng
    cases = []
    # (1) exhaustive class strings on the last element of 1-3 nested elements
    n1 = 4 if quick else 5
    shells = ['p%s', 'div.blk>p%s', 'div.b-x>div.-el>p%s', 'div.-a>div.mid_m>p%s']
    for s in strings(ALPHA, n1):
        full = len(s) <= (3 if quick else 4)
        for si, sh in enumerate(shells):
            for ci, cfg in enumerate(MAIN_CFGS):
                if full or (si + ci) % 4 == len(s) % 4 or (si <= 1 and ci == 0):
                    cases.append((sh % quoted(s), cfg, 'exh-class'))
    # (2) exhaustive pairs / triples of short class strings on chains and siblings (the cache)
    short = [s for s in strings(['a', 'b', '-', '_', ' '], 3) if s.strip() == s]
    pairs = list(itertools.product(short, repeat=2))
    for a, b in pairs:
        cases.append(('p%s>p%s' % (quoted(a), quoted(b)), CFG_PLAIN, 'exh-chain2'))
        cases.append(('p%s>p%s' % (quoted(a), quoted(b)), CFG_CTX, 'exh-chain2'))
    tiny = ['', 'a', 'b', '-a', '-b', '--a', '_a', '__a', 'a-', 'a_b', 'a -b', '-a b', '-a_b', 'b -a', '-a -b', '_a -b', 'a-b', '1', '-1', 'a__b_c']
    trip = list(itertools.product(tiny, repeat=3))
    if quick:
        trip = rng.sample(trip, 2500)
    for a, b, c in trip:
        cases.append(('p%s>p%s>p%s' % (quoted(a), quoted(b), quoted(c)), CFG_PLAIN, 'exh-chain3'))
    sib = list(itertools.product(tiny, repeat=3))
    if quick:
        sib = rng.sample(sib, 1500)
    for a, b, c in sib:
        cases.append(('p%s>p%s+p%s' % (quoted(a), quoted(b), quoted(c)), rng.choice(MAIN_CFGS), 'exh-siblings'))
        if not quick:
            cases.append(('p%s>(p%s>i.-x.--y)+p%s' % (quoted(a), quoted(b), quoted(c)), CFG_PLAIN, 'exh-siblings'))
    # (3) dotted abbreviations over the class alphabet of the C07 sweep
    dots = list('ab.-_>+^*2$')
    nd = 4 if quick else 5
    for k in range(1, nd + 1):
        for tup in itertools.product(dots, repeat=k):
            s = ''.join(tup)
            if '.' not in s:
                continue
            if k == nd and rng.random() < (0.8 if quick else 0.5):
                continue
            cases.append((s, CFG_PLAIN if k < nd else rng.choice(MAIN_CFGS), 'exh-dotted'))
    # (4) re.I: code points the class [a-z] also accepts under IGNORECASE, other letters/digits
    odd = ['İ', 'ı', 'ſ', 'K', 'é', '٣', '²', 'K', 'S', 'I', 'k', 's', 'i', 'Z', 'z', '0', '9']
    for c in odd:
        for d in odd[:6] + ['a', '-', '_']:
            for tpl in ('%s%s', '%s-%s', '-%s%s', '_%s%s', '-a%s%s', '_a%s-%s', '%s_%s', '-%s_%s', 'b -%s%s', '%s- -%s'):
                cls = tpl % (c, d)
                cases.append(('div%s>p.-e._m' % quoted(cls), CFG_PLAIN, 'unicode'))
                cases.append(('div.b>p%s' % quoted(cls), CFG_PLAIN, 'unicode'))
    for ws in ['\t', '\n', ' ', ' ', '\x1f', '\x0b', '​', '﻿']:
        for cls in ('a%sb' % ws, '%s-a' % ws, '-a%s' % ws, 'b%s-a%s_m' % (ws, ws)):
            cases.append(('div%s>p.-e' % quoted(cls), CFG_PLAIN, 'whitespace'))
            cases.append(('div.b>p%s' % quoted(cls), CFG_CTX, 'whitespace'))
    # (5) mixes: fields, numbering, repeaters, snippets, implicit names, several class attributes, every syntax
    frags = ['div', 'p', 'ul', 'li', 'span', 'a', '.b', '.b_m', '.-e', '._m', '.--e', '.-e_m', '.b__e', '.b-x', '.c$', '.-e$', '>', '>', '>', '+',
             '^', '(', ')', '*2', '*3', '[class]', '[class=]', '[class="x -y"]', "[class='-z _w']", '[class=-q]', '[class.]', '[class=${1:fld}]',
             '[class=-${2}]', '[class={-x}]', '[title=t]', '.${1:n}', '.-${3:e}', '{t}', '{-e}', 'foo', 'bar', 'bz', 'label>input', 'input.-i',
             '.-e.-e', '.a.a', '.-', '.--', '._', '.__', '#i', '.x.-e>.-f', '.-e.x>.-f', '.b>.-e>.-x', '.-1', '.1', '.A-B', '.-E_M', '/', '[class=a][class=-b]',
             '[class=a class=-b]', '.p[class]', '.b[!class=-n]', '.q[class.=_r]']
    n_mix = 3000 if quick else 30000
    for _ in range(n_mix):
        s = ''.join(rng.choice(frags) for _ in range(rng.randint(1, 7)))
        cases.append((s, rng.choice(ALL_CFGS), 'mix'))
    fixed = ['div.b_m', 'div.b._m', 'div.b_m1._m2', 'div.b>div._m', 'div.b>div._m1>div._m2', 'div.b>div._m1-m2', 'div.b>div.-e', 'div.b>div.---e',
             'div.b>div.-e>div.-e', 'div', 'div.b1>div.b2_m1>div.-e1+div.---e2_m2', 'div.b>div.-m1-m2', 'div.b_m_o', 'div.b_m.c', 'div.b>div._m.c',
             '.b>.-e>.-x', '.b>.-e>.--x', '.b>.e>.-x+.-y', '.b>.x.-e>.-f', '.b>.-e.x>.-f', '[class]>.-e', '.b>.-e-_m', '.b>.-e_m_n', '.b>.__x', '.b__e_m',
             'ul.nav>.-item*2>a.-link._active', 'foo', 'bar', 'foo>bz', 'bar*2', '.b>foo', 'p.b>{t}+.-e', 'lorem.x']
    for s in fixed:
        for cfg in ALL_CFGS:
            cases.append((s, cfg, 'fixed'))
    return cases


def run_bem(ctx, model, cases=None, label='bem'):
    """Full expand() output, model vs implementation, on the BEM streams.  Every disagreement is a broken
    correspondence (ctx.broken) unless the C07 oracle finds the implementation failing on that input."""
    import c07_markup
    if cases is None:
        cases = gen_cases(ctx)
    cfg_enc = {}
    wires, kept = [], []
    from lorem_oracle import lorem_like, model_draws
    for abbr, cfg, tag in cases:
        if lorem_like(abbr, cfg):
            # lorem text: the implementation runs under the oracle of the case, the model gets the same draws
            try:
                wires.append([2] + enc_config(cfg, model_draws(abbr, cfg)) + enc_str(abbr))
                kept.append((abbr, cfg, tag))
            except NotModelled:
                ctx.cover('bem:not-modelled')
            continue
        k = canon_cfg(cfg)
        if k not in cfg_enc:
            try:
                cfg_enc[k] = enc_config(cfg)
            except NotModelled:
                cfg_enc[k] = None
        if cfg_enc[k] is None:
            ctx.cover('bem:not-modelled')
            continue
        wires.append([2] + cfg_enc[k] + enc_str(abbr))
        kept.append((abbr, cfg, tag))
    outs = model.run(wires) if model is not None else [None] * len(kept)
    dis = 0
    changed = 0
    for (abbr, cfg, tag), w in zip(kept, outs):
        im = impl_expand(abbr, cfg)
        ctx.count_eval()
        ctx.cover('bem:%s:%s' % (tag, im[0] if im[0] != 'err' else 'err%d' % im[1]))
        bad = c07_markup.oracle(abbr, cfg, ('internal', im[1]) if im[0] == 'internal' else im)
        if bad:
            ctx.property_failure('markup:%s|%s' % (abbr, canon_cfg(cfg)),
                                 'markup expand(%r, %s): %s' % (abbr, canon_cfg(cfg), bad),
                                 {'component': 'markup', 'abbr': abbr, 'config': cfg, 'impl': repr(im)[:300], 'why': bad})
        if im[0] == 'ok':
            # does BEM change anything here?  (non-triviality of the stream)
            off = dict(cfg)
            off['options'] = dict(cfg.get('options') or {}, **{'bem.enabled': False})
            if impl_expand(abbr, off) != im:
                changed += 1
                ctx.nontrivial(('bem', canon_cfg(cfg), abbr))
        if w is None:
            continue
        mo = decode_expand(w)
        if mo != im:
            dis += 1
            if dis <= 5:
                ctx.say('DISAGREE bem expand %r cfg=%s\n  impl  %r\n  model %r' % (abbr, canon_cfg(cfg), str(im)[:400], str(mo)[:400]))
                if not bad:
                    ctx.broken.append({'kind': 'correspondence', 'file': 'markup-bem-expand-output', 'input': abbr,
                                       'config': canon_cfg(cfg), 'impl': repr(im)[:300], 'model': repr(mo)[:300]})
    c = ctx.cov['correspondence'].setdefault('markup_bem_expand_output(full string, model = implementation)',
                                             {'cases': 0, 'disagreements': 0})
    c['cases'] += len(kept) if model is not None else 0
    c['disagreements'] += dis
    c['cases_where_bem_changes_the_output'] = c.get('cases_where_bem_changes_the_output', 0) + changed
    return dis
