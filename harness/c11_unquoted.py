"""C11: round trip after a complete HTML tag whose UNQUOTED ATTRIBUTE VALUES use the whole value alphabet --
in particular the three kinds of brackets, properly nested in every order and depth.

Documented facts used here (HTML Living Standard 13.1.2.3 "Attributes", unquoted attribute value syntax; nothing is
read from the library):
  * an unquoted attribute value is a non-empty run of characters that "must not contain any literal ASCII
    whitespace, any U+0022 ("), U+0027 ('), U+003D (=), U+003C (<), U+003E (>), or U+0060 (`) characters".
    EVERY other character is a value character: ( ) [ ] { } , ; . # $ % & * + ! ? @ ^ | ~ \\ / _ - : letters, digits and
    everything outside ASCII.  JSX and template languages write such values all the time:
    items={[1,2]}  on={fn(a,b)}  style={{x:1}}  rows=[{a:1},{b:2}]  v=f(x)[0].y
  * an unquoted value that is followed by another attribute or by the `/` of a self-closing tag is separated from it
    by white space; directly before `>` no white space is needed.
The tag with such a value is a COMPLETE HTML TAG, so (round-trip clause of C11) a valid abbreviation directly right of
it comes back exactly.

Streams built here (all go through the implementation, the two property oracles of extract_util and the Coq model):
  value_char_sweep     every value character in every place of a value x every tag shape
  bracket_sweep        EVERY properly nested bracket word over ( ) [ ] { } with up to N pairs (every order of kinds,
                       every nesting shape) x filler layouts x every tag shape, plus really written values
  random embeddings    random values (runs of the whole alphabet, nested groups of random kinds up to depth 6, closers
                       without opener outside every group) in random tags with several attributes, for every
                       generated abbreviation

Two sub-classes FAIL ON THE UNCHANGED LIBRARY and are therefore switched off (reported, not listed):
  UNQ_NOT_PROPERLY_NESTED   a value whose brackets are not properly nested: an opener without closer (a=(x , a=[1 ),
                            a closer without opener INSIDE a pair (a=(x]) ), crossing pairs (a={[}] ).  HTML gives the
                            brackets of a value no meaning, but is_html.consume_attribute_with_unquoted_value() gives up
                            at an opener that does not match the pending closer: '<div a=(x>p' gives 'x>p'.
  UNQ_SLASH_BEFORE_NAME_END a value in which a `/` is followed by name characters only (letters and digits of any
                            script, - :) up to its end (href=/about, src=img/logo, href=http://x.y/z, p=a/٣):
                            is_html() reads `/name` as the end of a closing tag and reports 'not a tag':
                            '<a href=/about>p' gives '/about>p'.
Their texts still go through the is_html correspondence stream (model and implementation must agree on them).
"""
import itertools

from extract_util import RT, RIGHTS, CLOSERS, TAG_SWEEP_ABBRS, TAG_SWEEP_ABBRS_CSS, auto_closed_tail, gen_clean_tag

# ------------------------------------------------------------------ switches (see the module text)
UNQ_NOT_PROPERLY_NESTED = True        # listed finding roundtrip:unquoted-value-brackets-not-properly-nested; genuine defect of the unchanged library: '<div a=(x>p' -> 'x>p', '<div a={[}]>p' -> None
UNQ_SLASH_BEFORE_NAME_END = True      # listed finding roundtrip:unquoted-value-slash-before-name-characters; genuine defect of the unchanged library: '<a href=/about>p' -> '/about>p'

# ------------------------------------------------------------------ the value alphabet (HTML 13.1.2.3)
UNQ_FORBIDDEN = ' \t\n\f\r"\'=<>`'
OPENERS = '([{'
PAIR = {'(': ')', '[': ']', '{': '}'}
NAME_CHARS = 'ABCDEFGHIJKLMNOPQRSTUVWXYZabcdefghijklmnopqrstuvwxyz0123456789-:'
# every printable ASCII character that may stand in an unquoted value, and characters outside ASCII (letter, digit,
# CJK, no-break space and ideographic space -- no ASCII white space, hence value characters --, an astral character)
UNQ_ASCII = ''.join(chr(i) for i in range(33, 127) if chr(i) not in UNQ_FORBIDDEN)
UNQ_NON_ASCII = ['é', '٣', '日', ' ', '　', '\U0001F600']
UNQ_PLAIN = [c for c in UNQ_ASCII if c not in '()[]{}'] + UNQ_NON_ASCII          # everything but brackets

# '@' marks the swept character
VALUE_PLACES = [('alone', '@'), ('first', '@x'), ('middle', 'x@y'), ('last', 'x@'), ('doubled', '@@'), ('before-punctuation', 'x@.y'),
                ('after-slash', 'x/@')]

# 'V' marks the value; (kind, shape)
VALUE_TAG_SHAPES = [
    ('last-attribute', '<div a=V>'), ('last-attribute', '<a b="c" d=V>'), ('last-attribute', 'text <i x:y=V>'),
    ('before-white-space', '<div a=V >'), ('before-white-space', '<div a=V\t>'),
    ('before-self-closing', '<br a=V />'),
    ('before-attribute', '<div a=V b=c>'), ('before-attribute', '<div a=V b>'), ('before-attribute', '<div a=V b="c d">'),
    ('before-attribute', "<div a=V  data-x='1' e>"),
    ('between-attributes', '<p>hi</p><td k=1 a=V z=V>'),
]

# values as they are really written (JSX, Vue / Angular templates, plain HTML without quotes)
REALISTIC_VALUES = ['{[1,2]}', '{items[0]}', '{fn(a,b)}', '{{x:1}}', '[{a:1},{b:2}]', '{props.x}', 'f(x)[0].y', '(a[0])',
                    '{a?b:c}', '{x&&y}', '{...p}', '{[a,(b)]}', '({[x]})', '[(x)]', '{()}', '[[1,2],[3,4]]', '{f(g[h{i}])}',
                    '100%', '#top', 'a,b', 'x;y', '$v', '@m', 'a+b', 'a*2', 'x^y', 'a|b', 'a~b', '!x', '?q', 'a\\b', '*',
                    'x)', 'a]', '}', ')(x)', '{a}]', 'f(x)}', ']]', 'text/css;q', 'a/b.c', '1.5em', 'rgb(0,0,0)', 'calc(1+(2*3))']
NOT_NESTED_VALUES = ['(x', '[1', '{', 'x(', 'f(a', 'a[0', '{[1,2]', '(x])', '{a]}', '{[}]', '([)]', '[(])', '}{', ')(', '{(})',
                     '(()', '[[]', '{{x}', 'f(x)(', '(a)[', '{[(x])}']
SLASH_VALUES = ['/٣', 'a/é', '/', '/x', '/about', 'x/y', 'img/logo', 'http://x.y/z', 'a/b/c', '/a/', 'x/', '//', 'x//y', '/-', '/:', 'f(x)/y',
                '{a}/b', '(/x)']


def slash_before_name_end(value):
    """a `/` followed by name characters only (letters and digits of ANY script, - :) up to the end of the value;
    a value that ends in `/` is one of them"""
    i = value.rfind('/')
    return i >= 0 and all(c in '-:' or c.isalnum() for c in value[i + 1:])


def properly_nested(value):
    """every opener has its closer of the same kind, pairs do not cross, and a closer without opener stands outside
    every pair (what is left of it is then properly nested on its own)"""
    stack = []
    for c in value:
        if c in OPENERS:
            stack.append(PAIR[c])
        elif c in CLOSERS:
            if stack:
                if stack.pop() != c:
                    return False
            # closer without opener at top level: allowed
    return not stack


def value_explored(value):
    """is a value inside the explored (switched-on) part of the class?"""
    if not value or any(c in UNQ_FORBIDDEN for c in value):
        return False
    if not UNQ_NOT_PROPERLY_NESTED and not properly_nested(value):
        return False
    if not UNQ_SLASH_BEFORE_NAME_END and slash_before_name_end(value):
        return False
    return True


def nesting_depth(value):
    d = m = 0
    for c in value:
        if c in OPENERS:
            d += 1
            m = max(m, d)
        elif c in CLOSERS and d:
            d -= 1
    return m


def value_kind(value):
    """bucket of a value for the coverage record"""
    kinds = {c for c in value if c in OPENERS}
    if not properly_nested(value):
        return 'brackets-not-properly-nested'
    d = nesting_depth(value)
    if d >= 2:
        # are two DIFFERENT kinds nested in one another?
        stack = []
        mixed = False
        for c in value:
            if c in OPENERS:
                if stack and stack[-1] != c:
                    mixed = True
                stack.append(c)
            elif c in CLOSERS and stack:
                stack.pop()
        return 'nested-brackets-of-%s-depth-%s' % ('different-kinds' if mixed else 'one-kind', d if d < 4 else '4+')
    if d == 1:
        return 'brackets-not-nested-%d-kind%s' % (len(kinds), '' if len(kinds) == 1 else 's')
    if any(c in CLOSERS for c in value):
        return 'closer-without-opener'
    if '/' in value:
        return 'slash'
    if all(c in NAME_CHARS for c in value):
        return 'name-characters-only'
    return 'punctuation' if value.isascii() else 'non-ascii'


# ------------------------------------------------------------------ properly nested bracket words
def dyck_shapes(n):
    """all properly nested words of n pairs, as strings over 'o' (open) / 'c' (close)"""
    if n == 0:
        return ['']
    out = []
    for k in range(n):          # first pair encloses k pairs, n-1-k pairs follow
        for inner in dyck_shapes(k):
            for rest in dyck_shapes(n - 1 - k):
                out.append('o' + inner + 'c' + rest)
    return out


def bracket_words(max_pairs):
    """every properly nested word over the three kinds of brackets with 1..max_pairs pairs"""
    out = []
    for n in range(1, max_pairs + 1):
        for shape in dyck_shapes(n):
            for kinds in itertools.product(OPENERS, repeat=n):
                w, stack, k = [], [], 0
                for s in shape:
                    if s == 'o':
                        w.append(kinds[k])
                        stack.append(PAIR[kinds[k]])
                        k += 1
                    else:
                        w.append(stack.pop())
                out.append(''.join(w))
    return out


FILLERS = ['x', '1,2', 'a.b', '0', 'k:v', 'i+1', 'é', 'p*2', '$n', 'a;b', '-1', '#f']
LAYOUTS = ['bare', 'inside', 'call', 'everywhere']


def dress(word, layout, k):
    """a bracket word with value text put into its gaps: bare {[]} / inside every pair {x[1,2]} /
    a name before and text inside f{x[1,2]} / text in every gap f{x[1,2]a.b}0"""
    if layout == 'bare':
        return word
    out = []
    if layout in ('call', 'everywhere'):
        out.append(['f', 'items', 'a.b', 'on-x'][k % 4])
    for i, c in enumerate(word):
        out.append(c)
        if c in OPENERS or layout == 'everywhere':
            out.append(FILLERS[(k + i) % len(FILLERS)])
    return ''.join(out)


# ------------------------------------------------------------------ exhaustive streams
def _tags_for(value, k, all_shapes):
    shapes = VALUE_TAG_SHAPES if all_shapes else [VALUE_TAG_SHAPES[k % len(VALUE_TAG_SHAPES)], VALUE_TAG_SHAPES[0]]
    seen = set()
    for where, shape in shapes:
        if shape in seen:
            continue
        seen.add(shape)
        # the second value place of a shape (if any) gets a plain neighbour so that one value is swept at a time
        left = shape.replace('V', value, 1).replace('V', 'w')
        yield where, left


def _embed(out, lk, left, k, markup_abbrs, css_abbrs):
    a = markup_abbrs[k % len(markup_abbrs)]
    rk, right = RIGHTS[k % len(RIGHTS)] if k % 4 == 0 else RIGHTS[0]
    for look in (True, False):
        out.append(RT(left, a, right, 0, {'type': 'markup', 'lookAhead': look}, lk, rk))
    if k % 3 == 0:
        a = css_abbrs[k % len(css_abbrs)]
        out.append(RT(left, a, right, 0, {'type': 'stylesheet', 'lookAhead': bool(k % 2)}, lk, rk))


def value_char_values():
    """(character class, place, value): every value character in every place of a value"""
    out = []
    for c in list(UNQ_ASCII) + UNQ_NON_ASCII:
        for place, pat in VALUE_PLACES:
            out.append((c, place, pat.replace('@', c)))
    return out


def value_char_sweep(markup_abbrs=None, css_abbrs=None):
    """round-trip cases: every value character x every place x every tag shape x look-ahead on/off (+ stylesheet);
    returns (cases, {position of the value in the tag: cases, 'skipped': values of the switched-off classes})"""
    ma, ca = markup_abbrs or TAG_SWEEP_ABBRS, css_abbrs or TAG_SWEEP_ABBRS_CSS
    out, stats = [], {}
    k = 0
    for c, place, value in value_char_values():
        if not value_explored(value):
            stats['skipped'] = stats.get('skipped', 0) + 1
            continue
        for where, left in _tags_for(value, k, True):
            k += 1
            n = len(out)
            _embed(out, 'tag:unquoted-value:character-%s' % place, left, k, ma, ca)
            stats[where] = stats.get(where, 0) + len(out) - n
    return out, stats


def bracket_values(max_pairs):
    """properly nested bracket words in every layout, the really written values, and (when switched on) the values
    of the two classes that fail on the unchanged library"""
    vals = []
    k = 0
    for w in bracket_words(max_pairs):
        for layout in LAYOUTS:
            k += 1
            vals.append(dress(w, layout, k))
    vals.extend(REALISTIC_VALUES)
    vals.extend(NOT_NESTED_VALUES)
    vals.extend(SLASH_VALUES)
    seen = set()
    out = []
    for v in vals:
        if v not in seen:
            seen.add(v)
            out.append(v)
    return out


def bracket_sweep(max_pairs, markup_abbrs=None, css_abbrs=None):
    """round-trip cases: every bracket value x tag shapes (all shapes for words of <= 2 pairs and the listed values,
    two rotating shapes for longer words) x look-ahead on/off (+ stylesheet)"""
    ma, ca = markup_abbrs or TAG_SWEEP_ABBRS, css_abbrs or TAG_SWEEP_ABBRS_CSS
    out, stats = [], {}
    k = 0
    for v in bracket_values(max_pairs):
        if not value_explored(v):
            stats['skipped'] = stats.get('skipped', 0) + 1
            continue
        pairs = sum(1 for c in v if c in OPENERS)
        for where, left in _tags_for(v, k, pairs <= 2):
            k += 1
            n = len(out)
            _embed(out, 'tag:unquoted-value:%s' % value_kind(v), left, k, ma, ca)
            stats[where] = stats.get(where, 0) + len(out) - n
    return out, stats


# ------------------------------------------------------------------ random values and tags
def rand_group(rng, depth):
    """a properly nested group of random kinds, text in its gaps"""
    o = rng.choice(OPENERS)
    s = o
    for _ in range(rng.randint(0, 3)):
        r = rng.random()
        if depth > 0 and r < 0.45:
            s += rand_group(rng, depth - 1)
        else:
            s += rand_text(rng, 3)
    return s + PAIR[o]


def rand_text(rng, n):
    if rng.random() < 0.5:
        return rng.choice(FILLERS + ['a', 'b1', 'x-y', 'n:m', '100%', 'a,b', '?', '!', '\\', '|', '&', '~', '^', '*', '+', '.', '_', '@', '$'])
    return ''.join(rng.choice(UNQ_PLAIN) for _ in range(rng.randint(1, n)))


def rand_value(rng):
    """a random unquoted value: runs of the whole alphabet, nested groups of random kinds (depth <= 6), closers without
    opener outside the groups; when the classes are switched on also openers without closer and `/name` endings"""
    for _ in range(50):
        parts = []
        r = rng.random()
        if r < 0.2:
            parts.append(rng.choice(REALISTIC_VALUES))
        else:
            for _ in range(rng.randint(1, 4)):
                q = rng.random()
                if q < 0.5:
                    parts.append(rand_group(rng, rng.choice([0, 1, 1, 2, 2, 3, 5])))
                elif q < 0.9:
                    parts.append(rand_text(rng, 4))
                else:
                    parts.append(rng.choice(CLOSERS))
        if UNQ_NOT_PROPERLY_NESTED and rng.random() < 0.2:
            parts.insert(rng.randint(0, len(parts)), rng.choice(list(OPENERS) + NOT_NESTED_VALUES))
        if UNQ_SLASH_BEFORE_NAME_END and rng.random() < 0.2:
            parts.append(rng.choice(['/x', '/about', '/']))
        v = ''.join(parts)
        if value_explored(v):
            return v
    return 'x'


def rand_value_tag(rng):
    """a complete, well-formed start tag with 1..4 attributes of which at least one has a rich unquoted value;
    returns (tag, [the rich values])"""
    def ws(lo=1):
        return ''.join(rng.choice(' \t') for _ in range(rng.randint(lo, 2)))
    nm = rng.choice(['div', 'a', 'Foo', 'foo-bar', 'ns:el', 'h1', 'td', 'List', 'input'])
    n = rng.randint(1, 4)
    rich_at = {rng.randrange(n)} | {i for i in range(n) if rng.random() < 0.3}
    s = '<' + nm
    vals = []
    last_unquoted = False
    for i in range(n):
        s += ws()
        an = rng.choice(['a', 'items', 'data-x', 'x:y', 'b1', 'onClick', 'style', 'v-if', ':k'])
        last_unquoted = False
        if i in rich_at:
            v = rand_value(rng)
            vals.append(v)
            s += an + '=' + v
            last_unquoted = True
        else:
            r = rng.random()
            if r < 0.3:
                s += an
            elif r < 0.55:
                s += an + '=' + rng.choice(['b', 'c1', 'x-y', '10', 'true'])
                last_unquoted = True
            elif r < 0.85:
                s += an + '="' + rng.choice(['', 'b', 'b c', '<>', "it's", '{[(', ')]}', 'x > y']) + '"'
            else:
                s += an + "='" + rng.choice(['', 'b', 'b c', '"', '>', '{[']) + "'"
    # an unquoted value is separated from the `/` of a self-closing tag by white space (HTML 13.1.2.3)
    s += rng.choice(['', '', ws(), ws() + '/'] + ([] if last_unquoted else ['/']))
    return s + '>', vals


def value_rt(rng, abbr, markup, n):
    """n embeddings of one abbreviation right of a random tag with rich unquoted values"""
    ty = 'markup' if markup else 'stylesheet'
    closers = CLOSERS if markup else ')'
    out = []
    for _ in range(n):
        left, vals = rand_value_tag(rng)
        lk = 'tag:unquoted-value:' + value_kind(max(vals, key=nesting_depth))
        if rng.random() < 0.3:
            left = rng.choice(['x ', 'text ', '<p>hi</p>', '\t', 'a>b ', '<i>', gen_clean_tag(rng)]) + left
        rk, right = rng.choice(RIGHTS)
        for look in (True, False):
            out.append(RT(left, abbr, right, 0, {'type': ty, 'lookAhead': look}, lk, rk))
        tails = auto_closed_tail(abbr, markup)
        if tails and rng.random() < 0.5 and not (right[:1] and right[0] in closers):
            out.append(RT(left, abbr, right, rng.choice(tails), {'type': ty, 'lookAhead': True}, lk, 'auto-closed+' + rk))
    return out


# ------------------------------------------------------------------ texts for the is_html correspondence stream
def html_texts(rng, max_pairs, n_random):
    """tag texts with rich unquoted values for the is_html / consume_quoted correspondence: every value of the two sweeps
    (INCLUDING the two switched-off classes: model and implementation must agree on them too) in rotating tag shapes,
    random tags, and damaged variants"""
    texts = []
    k = 0
    vals = [v for _, _, v in value_char_values()] + bracket_values(max_pairs)
    for v in vals:
        k += 1
        for where, left in _tags_for(v, k, False):
            texts.append(left)
    extra = list(OPENERS) + NOT_NESTED_VALUES + SLASH_VALUES
    for _ in range(n_random):
        t, _v = rand_value_tag(rng)
        r = rng.random()
        if r < 0.25:        # a value of the switched-off classes put into the tag
            i = t.find('=')
            if i > 0:
                t = t[:i + 1] + rng.choice(extra) + t[i + 1:]
        elif r < 0.45 and len(t) > 2:      # damage it
            i = rng.randint(0, len(t) - 2)
            t = t[:i] + rng.choice(['', '', '=', '"', ' ', '<', '>', '(', ']', '{', '/']) + t[i + 1:]
        elif r < 0.5:
            t = t[1:]
        texts.append(t)
    return texts
