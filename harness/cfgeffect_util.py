"""C20, "documented effect" oracle for expand(): what the EFFECTIVE value of an option must look like in the output.

The other expand clauses of C20 compare expand() with expand() (layered against flattened configuration) or look for a
layer marker.  Both are blind to a change that makes the CONSUMER of an option prefer a less specific layer again: the
flattened run goes through the same consumer, and markers are never empty / never False.  Here every option with a
visible effect is given real values of its documented type -- always including the explicit empty / False / 0 / [] / {}
value -- and the output is judged against the effect the Emmet documentation states for the value that the oracle's own
merge of the six layers makes effective.

Independence: nothing here is read from the implementation.  The effects are the ones documented for Emmet's
configuration (https://docs.emmet.io/customization/preferences/ and the option comments of emmet/src/config.ts of the
upstream project, which py-emmet ports: "output.indent: string for one level of indentation", "output.newline: string
for line breaks", "output.selfClosingStyle: html -> <br>, xml -> <br/>, xhtml -> <br />", "output.compactBoolean",
"output.booleanAttributes", "output.inlineBreak: number of sibling inline elements that forces line breaks, 0 = never",
"output.formatSkip / formatForce / formatLeafNode", "output.reverseAttributes", "comment.*", "bem.*", "jsx.enabled",
"markup.attributes", "markup.valuePrefix", "stylesheet.between / after / intUnit / floatUnit / shortHex / unitAliases /
unitless").  The abbreviations use element and property names that come from snippets the CASE ITSELF supplies in the
call's config (zze..., zzp, zzm), so no expectation depends on the built-in snippet tables either.

Formatter families (documented): the syntaxes haml, pug and slim have indentation based formatters of their own; every
other markup syntax name (known or not) is printed by the HTML formatter.  Most output.* options speak about the HTML
formatter only; for the indent family only the effects common to all three formatters are stated.
"""

INDENT_FAMILY = ('haml', 'pug', 'slim')


def family(ty, syn):
    if ty == 'stylesheet':
        return 'css'
    return 'indent' if syn in INDENT_FAMILY else 'html'


def _s(x):
    return x if isinstance(x, str) else None


class Effect:
    """One option with a visible effect.
    key      option name
    abbr     abbreviation that shows it
    values   values planted into the layers (documented type; the explicit empty/false value is always among them)
    rivals   further values a wrong layer could contribute (the documented built-in default), never planted
    comp     companion entries of the CALL's config that the abbreviation needs (sections that do NOT mention `key`)
    show     show(v, fam, eff) -> None (nothing stated for this value/family) | (present, absent): substrings the
             output must / must not contain when `v` is the effective value; eff(name) = effective value of another
             option as the oracle merged it
    slot     True: `show` returns ONE string in which v is inserted literally; the strings for every other candidate
             value (values + rivals) that are not contained in it must be absent"""

    def __init__(self, ty, key, abbr, values, show, comp=None, rivals=(), slot=False, families=('html',)):
        self.ty, self.key, self.abbr, self.values, self.show = ty, key, abbr, list(values), show
        self.comp, self.rivals, self.slot, self.families = comp or {}, list(rivals), slot, families
        self.name = '%s/%s/%s' % (ty, key, abbr)
        self.form = False        # True: entry of the FORMS tables below (same option on another abbreviation feature)

    def witness(self, v, fam, eff):
        """-> None | (present, absent)"""
        if fam not in self.families:
            return None
        try:
            if not self.slot:
                return self.show(v, fam, eff)
            if not isinstance(v, str):
                return None
            here = self.show(v, fam, eff)
            if here is None:
                return None
            absent = []
            for r in self.values + self.rivals:
                if isinstance(r, str) and r != v:
                    there = self.show(r, fam, eff)
                    if there and there not in here and there not in absent:
                        absent.append(there)
            return [here] if here else [], absent
        except (TypeError, AttributeError, KeyError):
            return None          # an effective value outside the documented type: nothing is stated


# ------------------------------------------------------------------ markup
MARKUP_COMP = {'snippets': {'zzr': 'zzr[ka=va]'}}      # a snippet with an attribute of its own (reverseAttributes)


def _bool(present_true, absent_true, present_false, absent_false):
    def show(v, fam, eff):
        if v is True:
            return present_true, absent_true
        if v is False:
            return present_false, absent_false
        return None
    return show


def _enum(table):
    def show(v, fam, eff):
        if not isinstance(v, str) or v not in table:
            return None
        return [table[v]], [w for k, w in table.items() if k != v and w not in table[v]]
    return show


def _has(name, present_in, absent_in, present_out, absent_out):
    """list valued option: does it contain `name`?"""
    def show(v, fam, eff):
        if not isinstance(v, list):
            return None
        return (present_in, absent_in) if name in v else (present_out, absent_out)
    return show


def _nl(eff):
    return _s(eff('output.newline'))


def _ind(eff):
    return _s(eff('output.indent'))


def _inline_break(v, fam, eff):
    if isinstance(v, bool) or not isinstance(v, int) or 'zzi' not in (eff('inlineElements') or []):
        return None
    if 0 < v <= 2:
        return [], ['<zzi></zzi><zzi></zzi>']
    return ['<zze><zzi></zzi><zzi></zzi></zze>'], []


def _attr_name(v, fam, eff):
    if not isinstance(v, dict):
        return None
    name = v.get('class', 'class')
    if not isinstance(name, str):
        return None
    return ['%s="x"' % name], [n for n in ('class="x"', 'className="x"', 'Zq="x"') if n != '%s="x"' % name]


def _value_prefix(v, fam, eff):
    if not isinstance(v, dict):
        return None
    p = v.get('class*')
    if p is None:
        return [], ['Zq.x', 'styles.x']
    return ['%s.x' % p], [q for q in ('Zq.x', 'styles.x') if q != '%s.x' % p]


def _bem_enabled(v, fam, eff):
    sep = _s(eff('bem.element'))
    if sep is None or not sep:
        return None
    if v is True:
        return ['b%se' % sep], ['-e']
    if v is False:
        return ['-e'], ['b%se' % sep]
    return None


BOTH = ('html', 'indent')

MARKUP_EFFECTS = [
    Effect('markup', 'jsx.enabled', 'Foo.Bar', [False, True],
           _bool(['<Foo.Bar'], ['<Foo '], ['<Foo '], ['Foo.Bar'])),
    Effect('markup', 'jsx.enabled', 'zze.{theme}', [True, False],
           _bool(['={theme}'], ['>theme<'], ['>theme<'], ['{theme}'])),
    Effect('markup', 'output.selfClosingStyle', 'zze/', ['html', 'xml', 'xhtml'],
           _enum({'html': '<zze>', 'xml': '<zze/>', 'xhtml': '<zze />'})),
    Effect('markup', 'output.tagCase', 'Zze', ['', 'upper', 'lower'],
           _enum({'': '<Zze', 'upper': '<ZZE', 'lower': '<zze'})),
    Effect('markup', 'output.attributeCase', 'zze[Title=x]', ['', 'upper', 'lower'],
           _enum({'': 'Title=', 'upper': 'TITLE=', 'lower': 'title='}), families=BOTH),
    Effect('markup', 'output.attributeQuotes', 'zze[title=x]', ['single', 'double'],
           _enum({'single': "title='x'", 'double': 'title="x"'}), families=BOTH),
    Effect('markup', 'output.compactBoolean', 'zze[hidden.]', [False, True],
           _bool(['hidden'], ['hidden="hidden"'], ['hidden="hidden"'], [])),
    Effect('markup', 'output.booleanAttributes', 'zze[zzb]', [[], ['zzb']],
           _has('zzb', ['zzb="zzb"'], ['zzb=""'], ['zzb=""'], ['zzb="zzb"'])),
    Effect('markup', 'output.format', 'zze>zzf', [False, True],
           _bool([], ['<zze><zzf>'], ['<zze><zzf></zzf></zze>'], [])),
    Effect('markup', 'output.formatLeafNode', 'zze', [False, True],
           _bool([], ['<zze></zze>'], ['<zze></zze>'], [])),
    Effect('markup', 'output.formatSkip', 'zze>zzf', [[], ['zze']],
           lambda v, fam, eff: None if not isinstance(v, list) or not _nl(eff) or not _ind(eff) else
           (([_nl(eff) + '<zzf>'], [_ind(eff) + '<zzf>']) if 'zze' in v else ([_nl(eff) + _ind(eff) + '<zzf>'], []))),
    Effect('markup', 'output.formatForce', 'zze>zzf', [[], ['zzf']],
           _has('zzf', [], ['<zzf></zzf>'], ['<zzf></zzf>'], [])),
    Effect('markup', 'output.inlineBreak', 'zze>zzi*2', [0, 2, 3], _inline_break, comp={'options': {'inlineElements': ['zzi']}}),
    Effect('markup', 'inlineElements', 'zze>zzi', [[], ['zzi', 'zzj']],
           _has('zzi', ['<zze><zzi></zzi></zze>'], [], [], ['<zze><zzi>'])),
    Effect('markup', 'output.reverseAttributes', 'zzr[kb=vb]', [False, True],
           _bool(['kb="vb" ka="va"'], [], ['ka="va" kb="vb"'], []), comp=MARKUP_COMP),
    Effect('markup', 'comment.enabled', 'zze#a', [False, True],
           _bool(['<!--'], [], [], ['<!--'])),
    Effect('markup', 'comment.trigger', 'zze[title=x]', [[], ['title']],
           _has('title', ['<!--'], [], [], ['<!--']), comp={'options': {'comment.enabled': True}}),
    # comment.before / comment.after are templates ([#ID], [.CLASS] are interpolated): only bracket-free values are literal
    Effect('markup', 'comment.before', 'zze#a', ['', 'Zq'],
           lambda v, fam, eff: None if '[' in v else v + '<zze id', slot=True, comp={'options': {'comment.enabled': True}}),
    Effect('markup', 'comment.after', 'zze#a', ['', 'Zq'],
           lambda v, fam, eff: None if '[' in v else '</zze>' + v, slot=True, rivals=['\n<!--'], comp={'options': {'comment.enabled': True}}),
    Effect('markup', 'bem.enabled', 'zze.b>zzf.-e', [False, True], _bem_enabled, families=BOTH),
    Effect('markup', 'bem.element', 'zze.b>zzf.-e', ['', 'Zq'],
           lambda v, fam, eff: 'b%se' % v, slot=True, rivals=['__'], families=BOTH, comp={'options': {'bem.enabled': True}}),
    Effect('markup', 'bem.modifier', 'zze.b._m', ['', 'Zq'],
           lambda v, fam, eff: 'b b%sm' % v if fam == 'html' else 'b%sm' % v, slot=True, rivals=['_'], families=BOTH,
           comp={'options': {'bem.enabled': True}}),
    Effect('markup', 'markup.attributes', 'zze.x', [{}, {'class': 'Zq'}], _attr_name),
    Effect('markup', 'markup.valuePrefix', 'zze..x', [{}, {'class*': 'Zq'}], _value_prefix),
    Effect('markup', 'output.indent', 'zze>zzf', ['', 'Zq'],
           lambda v, fam, eff: None if _nl(eff) is None else _nl(eff) + v + ('<zzf>' if fam == 'html' else ''),
           slot=True, rivals=['\t'], families=BOTH),
    Effect('markup', 'output.newline', 'zze>zzf', ['', 'Zq', '\r\n'],
           lambda v, fam, eff: None if _ind(eff) is None else
           ('<zze>' + v + _ind(eff) + '<zzf></zzf>' + v + '</zze>' if fam == 'html' else 'zze' + v + _ind(eff)),
           slot=True, rivals=['\n'], families=BOTH),
    Effect('markup', 'output.baseIndent', 'zze>zzf', ['', 'Zq'],
           lambda v, fam, eff: None if _nl(eff) is None or _ind(eff) is None else
           _nl(eff) + v + _ind(eff) + ('<zzf>' if fam == 'html' else ''),
           slot=True, families=BOTH),
]

# ------------------------------------------------------------------ stylesheet
CSS_COMP = {'snippets': {'zzp': 'zz-prop', 'zzm': 'zz-marg'}}


def _after(eff):
    return _s(eff('stylesheet.after'))


def _css_format(v, fam, eff):
    a, n = _after(eff), _nl(eff)
    if a is None or not n:
        return None
    if v is True:
        return [a + n + 'zz-marg'], []
    if v is False:
        return [a + 'zz-marg'], [n + 'zz-marg']
    return None


def _unitless(v, fam, eff):
    u = _s(eff('stylesheet.intUnit'))
    if not isinstance(v, list) or not u:
        return None
    return ([], ['10' + u]) if 'zz-prop' in v else (['10' + u], [])


def _aliases(v, fam, eff):
    if not isinstance(v, dict):
        return None
    u = v.get('e', 'e')
    if not isinstance(u, str):
        return None
    return ['10' + u], [w for w in ('10Zq', '10em', '10e') if w not in '10' + u]


CSS_EFFECTS = [
    Effect('stylesheet', 'stylesheet.between', 'zzp10', ['', 'Zq'],
           lambda v, fam, eff: 'zz-prop' + v + '10', slot=True, rivals=[': ', ' '], families=('css',), comp=CSS_COMP),
    Effect('stylesheet', 'stylesheet.after', 'zzp10+zzm5', ['', 'Zq'],
           lambda v, fam, eff: None if _nl(eff) is None or not _s(eff('stylesheet.intUnit')) else
           '10' + eff('stylesheet.intUnit') + v + _nl(eff) + 'zz-marg',
           slot=True, rivals=[';'], families=('css',), comp=CSS_COMP),
    Effect('stylesheet', 'stylesheet.intUnit', 'zzp10', ['', 'Zq'],
           lambda v, fam, eff: None if _after(eff) is None else '10' + v + (_after(eff) or '\0END'),
           slot=True, rivals=['px'], families=('css',), comp=CSS_COMP),
    Effect('stylesheet', 'stylesheet.floatUnit', 'zzp1.5', ['', 'Zq'],
           lambda v, fam, eff: None if _after(eff) is None else '1.5' + v + (_after(eff) or '\0END'),
           slot=True, rivals=['em'], families=('css',), comp=CSS_COMP),
    Effect('stylesheet', 'stylesheet.shortHex', 'zzp#f', [False, True],
           _bool(['#fff'], ['#ffff'], ['#ffffff'], []), families=('css',), comp=CSS_COMP),
    Effect('stylesheet', 'stylesheet.unitAliases', 'zzp10e', [{}, {'e': 'Zq'}], _aliases, families=('css',), comp=CSS_COMP),
    Effect('stylesheet', 'stylesheet.unitless', 'zzp10', [[], ['zz-prop']], _unitless, families=('css',), comp=CSS_COMP),
    Effect('stylesheet', 'output.newline', 'zzp10+zzm5', ['', 'Zq', '\r\n'],
           lambda v, fam, eff: None if _after(eff) is None else _after(eff) + v + 'zz-marg',
           slot=True, rivals=['\n'], families=('css',), comp=CSS_COMP),
    Effect('stylesheet', 'output.baseIndent', 'zzp10+zzm5', ['', 'Zq'],
           lambda v, fam, eff: None if not _nl(eff) else _nl(eff) + v + 'zz-marg',
           slot=True, families=('css',), comp=CSS_COMP),
    Effect('stylesheet', 'output.format', 'zzp10+zzm5', [False, True], _css_format, families=('css',), comp=CSS_COMP),
]


# ------------------------------------------------------------------ abbreviation FORMS (feature interaction)
# The entries above show every option on ONE plain abbreviation.  A consumer of an option may sit on a path that only
# another abbreviation feature reaches (the `!important` writer, the value list, the last property of the
# abbreviation, a nested / repeated / attribute carrying element).  Each FORM below is one documented abbreviation
# feature with the text the documentation states for it; the option entries are repeated on every form.
#
# Stylesheet (https://docs.emmet.io/css-abbreviations/: "p!+m10e!" -> "padding: !important; margin: 10em !important;",
# "m10-20" -> "margin: 10px 20px;", "m1.5" -> "margin: 1.5em;", "c#3" -> "color: #333;"): one declaration is
#     <property><stylesheet.between><value>[ !important]<stylesheet.after>
# (name, suffix written after the snippet name `zzp`, value text as a function of (intUnit, floatUnit, shortHex))
CSS_FORMS = [
    ('important', '10!', lambda iu, fu, sh: '10' + iu + ' !important'),
    ('two-values', '10-20', lambda iu, fu, sh: '10' + iu + ' 20' + iu),
    ('two-values-important', '10-20!', lambda iu, fu, sh: '10' + iu + ' 20' + iu + ' !important'),
    ('float-important', '1.5!', lambda iu, fu, sh: '1.5' + fu + ' !important'),
    ('colour-important', '#f!', lambda iu, fu, sh: ('#fff' if sh else '#ffffff') + ' !important'),
    ('important-only', '!', lambda iu, fu, sh: '!important'),
]
CSS_PLAIN_FORM = ('plain', '10', lambda iu, fu, sh: '10' + iu)


def _form_val(form, eff, iu=None, fu=None, sh=None):
    """Value text of the form under the effective units (None: a unit option of another type -- nothing stated)."""
    iu = _s(eff('stylesheet.intUnit')) if iu is None else iu
    fu = _s(eff('stylesheet.floatUnit')) if fu is None else fu
    sh = eff('stylesheet.shortHex') if sh is None else sh
    if iu is None or fu is None or not isinstance(sh, bool):
        return None
    return form[2](iu, fu, sh)


def _fmt_on(eff):
    return eff('output.format') is True


def _css_form_effects():
    out = []

    def add(key, abbr, values, show, rivals=(), slot=True):
        out.append(Effect('stylesheet', key, abbr, values, show, comp=CSS_COMP, rivals=rivals, slot=slot, families=('css',)))

    def after_mid(form):       # terminator of a declaration that another one follows
        def show(v, fam, eff):
            val = _form_val(form, eff)
            return None if val is None or not _fmt_on(eff) or _nl(eff) is None else val + v + _nl(eff) + 'zz-marg'
        return show

    def after_end(form):       # terminator of the LAST declaration of the abbreviation
        def show(v, fam, eff):
            val = _form_val(form, eff)
            return None if val is None else val + v + END_MARK
        return show

    def between(form):
        def show(v, fam, eff):
            val = _form_val(form, eff)
            return None if val is None or form[0] == 'important-only' else 'zz-prop' + v + val
        return show

    def newline(form):
        def show(v, fam, eff):
            val = _form_val(form, eff)
            return None if val is None or _after(eff) is None or not _fmt_on(eff) else val + _after(eff) + v + 'zz-marg'
        return show

    def unit(form, which):
        def show(v, fam, eff):
            val = _form_val(form, eff, **{which: v})
            return None if val is None or _after(eff) is None else val + (_after(eff) or END_MARK)
        return show

    for form in [CSS_PLAIN_FORM] + CSS_FORMS:
        plain = form is CSS_PLAIN_FORM
        a = 'zzp' + form[1]
        add('stylesheet.after', 'zzm5+' + a, ['', 'Zq'], after_end(form), rivals=[';'])
        if plain:
            continue               # the other plain entries are in CSS_EFFECTS above
        add('stylesheet.after', a + '+zzm5', ['', 'Zq'], after_mid(form), rivals=[';'])
        if form[0] != 'important-only':
            add('stylesheet.between', a, ['', 'Zq'], between(form), rivals=[': ', ' '])
        add('output.newline', a + '+zzm5', ['', 'Zq', '\r\n'], newline(form), rivals=['\n'])
        if '10' in form[1]:
            add('stylesheet.intUnit', a, ['', 'Zq'], unit(form, 'iu'), rivals=['px'])
        if '1.5' in form[1]:
            add('stylesheet.floatUnit', a, ['', 'Zq'], unit(form, 'fu'), rivals=['em'])
    return out


# Markup (https://docs.emmet.io/abbreviations/syntax/: nesting `>`, multiplication `*`, attributes `[a=b c=d]`, `/`
# self-closing): the same option consumers on nested, repeated and attribute carrying elements.
def _quote(eff):
    q = eff('output.attributeQuotes')
    return {'single': "'", 'double': '"'}.get(q) if isinstance(q, str) else None


def _self_closing_with_attr(v, fam, eff):
    q = _quote(eff)
    table = {'html': '>', 'xml': '/>', 'xhtml': ' />'}
    if q is None or not isinstance(v, str) or v not in table:
        return None
    head = '<zze title=%sx%s' % (q, q)
    return [head + table[v]], [head + w for k, w in table.items() if k != v]


def _deep_newline(v, fam, eff):
    i = _ind(eff)
    if i is None:
        return None
    if fam != 'html':
        return 'zze' + v + i
    return '<zze>' + v + i + '<zzf>' + v + i + i + '<zzg></zzg>' + v + i + '</zzf>' + v + '</zze>'


MARKUP_FORM_EFFECTS = [
    Effect('markup', 'output.selfClosingStyle', 'zze[title=x]/', ['html', 'xml', 'xhtml'], _self_closing_with_attr),
    Effect('markup', 'output.selfClosingStyle', 'zzf>zze/*2', ['html', 'xml', 'xhtml'],
           _enum({'html': '<zze>', 'xml': '<zze/>', 'xhtml': '<zze />'})),
    Effect('markup', 'output.attributeQuotes', 'zzf>zze[title=x data-a=y]', ['single', 'double'],
           _enum({'single': "title='x' data-a='y'", 'double': 'title="x" data-a="y"'})),   # html family: pug separates by ', '
    Effect('markup', 'output.indent', 'zze>zzf>zzg', ['', 'Zq'],
           lambda v, fam, eff: None if _nl(eff) is None else _nl(eff) + v + v + ('<zzg>' if fam == 'html' else ''),
           slot=True, rivals=['\t'], families=BOTH),
    Effect('markup', 'output.indent', 'zze>zzf*2', ['', 'Zq'],
           lambda v, fam, eff: None if _nl(eff) is None else
           _nl(eff) + v + '<zzf></zzf>' + _nl(eff) + v + '<zzf></zzf>' + _nl(eff) + '</zze>',
           slot=True, rivals=['\t']),
    Effect('markup', 'output.newline', 'zze>zzf>zzg', ['', 'Zq', '\r\n'], _deep_newline, slot=True, rivals=['\n'],
           families=BOTH),
    Effect('markup', 'output.baseIndent', 'zze>zzf*2', ['', 'Zq'],
           lambda v, fam, eff: None if _nl(eff) is None or _ind(eff) is None else
           _nl(eff) + v + _ind(eff) + '<zzf></zzf>' + _nl(eff) + v + _ind(eff) + '<zzf></zzf>' + _nl(eff) + v + '</zze>',
           slot=True),
]
MARKUP_EFFECTS = MARKUP_EFFECTS + MARKUP_FORM_EFFECTS

END_MARK = '\0END'          # "the output ends here" inside a slot string (see judge)
CSS_FORM_EFFECTS = _css_form_effects()
CSS_EFFECTS = CSS_EFFECTS + CSS_FORM_EFFECTS
for _e in MARKUP_FORM_EFFECTS + CSS_FORM_EFFECTS:
    _e.form = True


# ------------------------------------------------------------------ SCOPE entries (the call's `context`)
# The entries above expand every abbreviation WITHOUT a `context`.  The stylesheet resolver has one code path per scope
# (documented in upstream emmet/src/stylesheet/index.ts `CSSAbbreviationScope` and in the README section "Context":
#   no context / '@@global'   every snippet may match the abbreviation's name
#   '@@property'              property snippets only
#   '@@section'               raw (non-property) snippets only
#   any other name            VALUE scope: the abbreviation is the value of the CSS property of that name; its keyword
#                             shorthands are matched against the keywords of that property's snippet, the output is the
#                             value alone)
# so a consumer of an option may sit in a scope branch that no context-free abbreviation reaches.
#
# `stylesheet.fuzzySearchMinScore` ("the minimum score (from 0 to 1) that fuzzy-matched abbreviation should achieve";
# 0 = every match is taken, 1 = the exact name only).  Independence from the implementation's scoring function: the
# abbreviations are PREFIXES of the one candidate, for which the documentation of the fuzzy match states the score in
# closed form ("ideal match: equal strings, score 1; next best match: the candidate starts with the abbreviation,
# score = 1 x share of matched characters"): 'yke' in 'ykeywordab' scores 3/10, 'ykeyword' scores 8/10.  Candidate
# names start with 'y': the first characters "must match", no CSS property, keyword or built-in snippet of the cheat
# sheet starts with 'y', and the candidates are supplied by the case itself -- so they are the only possible match.
FUZZY_KEY = 'stylesheet.fuzzySearchMinScore'
FUZZY_VALUES = [0, 0.5, 1]
FUZZY_CANDIDATE = 'ykeywordab'
FUZZY_ABBRS = [('yke', 3 / 10), ('ykeyword', 8 / 10)]
VALUE_SCOPE_COMP = {'context': {'name': 'yy-prop'}, 'snippets': {'yyp': 'yy-prop:%s|yother' % FUZZY_CANDIDATE}}


def _fuzzy(score, matched, unmatched=None):
    """matched: text the output shows when the candidate is taken; not shown otherwise (and `unmatched` shown)."""
    def show(v, fam, eff):
        if isinstance(v, bool) or not isinstance(v, (int, float)) or not 0 <= v <= 1:
            return None
        if score >= v:
            return [matched], []
        return ([unmatched] if unmatched else []), [matched]
    return show


def _scoped(tag, e):
    e.name += '@' + tag          # the same abbreviation appears under several scopes
    e.scope = tag
    return e


def _css_scope_effects():
    out = []

    def add(tag, key, abbr, values, show, comp, rivals=(), slot=False):
        out.append(_scoped(tag, Effect('stylesheet', key, abbr, values, show, comp=comp, rivals=rivals, slot=slot,
                                       families=('css',))))
    prop = {'snippets': {FUZZY_CANDIDATE: 'yy-prop'}}
    raw = {'snippets': {'ysectionab': '@yy-rule ${1}'}}
    for a, sc in FUZZY_ABBRS:
        # the abbreviation's NAME against the snippet names
        add('global', FUZZY_KEY, a + '10', FUZZY_VALUES, _fuzzy(sc, 'yy-prop'), prop)
        add('property', FUZZY_KEY, a + '10', FUZZY_VALUES, _fuzzy(sc, 'yy-prop'), dict(prop, context={'name': '@@property'}))
    for a, sc in (('yse', 3 / 10), ('ysection', 8 / 10)):
        add('global', FUZZY_KEY, a, FUZZY_VALUES, _fuzzy(sc, '@yy-rule'), raw)
        out[-1].contexts = [{'name': '@@global'}]      # a raw snippet: not admitted by '@@property' (see UNCHANGED_UNDER)
        add('section', FUZZY_KEY, a, FUZZY_VALUES, _fuzzy(sc, '@yy-rule'), dict(raw, context={'name': '@@section'}))
    for a, sc in FUZZY_ABBRS:
        # VALUE scope: the typed value against the keywords of the property's snippet; unmatched text stays as typed
        add('value', FUZZY_KEY, a, FUZZY_VALUES, _fuzzy(sc, FUZZY_CANDIDATE, a + END_MARK), VALUE_SCOPE_COMP)
    # the value formatting options in VALUE scope (README "Context": `expand('10', {context: {name: 'margin'}})`-style
    # calls give the value alone -- number with the effective unit, colour in the effective notation)
    add('value', 'stylesheet.intUnit', '10', ['', 'Zq'], lambda v, fam, eff: '10' + v + END_MARK, VALUE_SCOPE_COMP,
        rivals=['px'], slot=True)
    add('value', 'stylesheet.floatUnit', '1.5', ['', 'Zq'], lambda v, fam, eff: '1.5' + v + END_MARK, VALUE_SCOPE_COMP,
        rivals=['em'], slot=True)
    add('value', 'stylesheet.unitAliases', '10e', [{}, {'e': 'Zq'}], _aliases, VALUE_SCOPE_COMP)
    add('value', 'stylesheet.shortHex', '#f', [False, True], _bool(['#fff'], ['#ffff'], ['#ffffff'], []), VALUE_SCOPE_COMP)
    return out


CSS_SCOPE_EFFECTS = _css_scope_effects()
CSS_EFFECTS = CSS_EFFECTS + CSS_SCOPE_EFFECTS

# Scope contexts under which the documented effect of an entry WITHOUT a context of its own is the same (markup: the
# context names the PARENT element of the abbreviation and only decides implicit tag names -- every entry names its
# elements; stylesheet: every entry's snippets are property snippets, which '@@global' and '@@property' both admit; an
# entry with other needs names its own list in `contexts`).
UNCHANGED_UNDER = {'markup': [{'name': 'zzparent'}, {'name': 'ul'}, {'name': 'Table'}],
                   'stylesheet': [{'name': '@@property'}, {'name': '@@global'}]}

# ------------------------------------------------------------------ KEY-FORM entries (mapping-valued options)
# `markup.attributes` and `markup.valuePrefix` are MAPPINGS whose entries come in two documented key forms (option
# comments of upstream emmet/src/config.ts, which py-emmet ports):
#   markup.attributes   "Attribute name mapping. Can be used to change attribute names for output. For example, `class` ->
#                       `className` in JSX.  If a key ends with `*`, this value will be used for multiple shorthand
#                       attributes: `..` -> `styleName`"
#   markup.valuePrefix  "Prefixes for attribute values.  If specified, a value is treated as prefix for object notation and
#                       automatically converts attribute value into expression if `jsx` is enabled.  Same as in
#                       `markup.attributes` option, a `*` can be used."
# i.e. the entry under the plain attribute name speaks about the attribute however it was written; an entry under NAME*
# takes its place when the shorthand operator was repeated (`..x`, `##x`); without a NAME* entry the plain entry applies to
# the repeated form as well, and a NAME* entry alone says nothing about the single form or the bracket form `[name=x]`.
# The option value is ONE value of ONE layer (the most specific layer's mapping replaces the less specific ones wholesale:
# the precedence clause of C20 is per option key), so a caller layer that defines only the plain entry hides the starred
# entries of the jsx / vue syntax defaults.  The plain entries above show each mapping in one key form on one way of
# writing the attribute; here: every key form of the mapping (none / plain only / starred only / both / only entries for
# another attribute) x every way of writing the attribute (single, doubled and tripled shorthand operator, bracket form,
# on a nested repeated element, next to another attribute) for class, id and a bracket-only attribute (`for`).
# Mixed runs (`..x.y`, `.x..y`) are not stated anywhere (which operator of the merged class attribute counts): not used.
KEYFORM_ATTR_NAMES = ('class', 'className', 'styleName', ':class', 'id', 'for', 'htmlFor', 'Zq', 'Zs', 'Zo', 'Zo2')
KEYFORM_PREFIXES = ('Zp', 'Zr', 'Zo', 'Zo2', 'styles')
# (attribute, abbreviation, shorthand operator repeated?, tag of the form); the attribute value is always `w`
KEYFORM_FORMS = [
    ('class', 'zze.w', False, 'single'),
    ('class', 'zze..w', True, 'doubled'),
    ('class', 'zze...w', True, 'tripled'),
    ('class', 'zze[class=w]', False, 'bracket'),
    ('class', 'zzf>zze..w*2', True, 'doubled-nested-repeated'),
    ('class', 'zze[title=t]..w', True, 'doubled-after-other-attribute'),
    ('id', 'zze#w', False, 'single'),
    ('id', 'zze##w', True, 'doubled'),
    ('for', 'zze[for=w]', False, 'bracket'),
]


def keyform_values(attr, plain, starred):
    """The key forms of a mapping for one attribute: no entry, plain only, starred only, both, other attribute only."""
    return [{}, {attr: plain}, {attr + '*': starred}, {attr: plain, attr + '*': starred},
            {'zzother': 'Zo', 'zzother*': 'Zo2'}]


def keyform_shape(v, attr):
    if not isinstance(v, dict):
        return 'no-mapping'
    if not v:
        return 'empty'
    has = (attr in v, attr + '*' in v)
    return {(True, True): 'plain+starred', (True, False): 'plain-only', (False, True): 'starred-only',
            (False, False): 'other-attributes-only'}[has]


def _multi_lookup(v, attr, repeated):
    r = v.get(attr + '*') if repeated else None
    return r if r is not None else v.get(attr)


def _attr_name_form(attr, repeated):
    def show(v, fam, eff):
        if not isinstance(v, dict) or eff('output.attributeCase') not in ('', None):
            return None
        name = _multi_lookup(v, attr, repeated)
        if name is None:
            name = attr
        if not isinstance(name, str) or not name:
            return None                      # an empty / non-string name: nothing stated
        return [' %s=' % name], [' %s=' % n for n in KEYFORM_ATTR_NAMES if n != name]
    return show


def _value_prefix_form(attr, repeated):
    def show(v, fam, eff):
        if not isinstance(v, dict):
            return None
        p = _multi_lookup(v, attr, repeated)
        cands = ['%s.w' % c for c in KEYFORM_PREFIXES]
        if p is None:
            return [], cands
        if not isinstance(p, str) or not p:
            return None
        here = '%s.w' % p
        jsx, q = eff('jsx.enabled'), _quote(eff)
        if jsx is True:
            shown = '={%s}' % here           # "converts attribute value into expression if jsx is enabled"
        elif jsx in (False, None) and q is not None:
            shown = '=%s%s%s' % (q, here, q)
        else:
            shown = here
        return [shown], [c for c in cands if c != here]
    return show


def _keyform_effects():
    out = []
    for attr, abbr, repeated, tag in KEYFORM_FORMS:
        for key, show, vals in (('markup.attributes', _attr_name_form(attr, repeated), keyform_values(attr, 'Zq', 'Zs')),
                                ('markup.valuePrefix', _value_prefix_form(attr, repeated), keyform_values(attr, 'Zp', 'Zr'))):
            e = Effect('markup', key, abbr, vals, show)
            e.keyform = (attr, tag)
            out.append(e)
    return out


MARKUP_KEYFORM_EFFECTS = _keyform_effects()
MARKUP_EFFECTS = MARKUP_EFFECTS + MARKUP_KEYFORM_EFFECTS

EFFECTS = {'markup': MARKUP_EFFECTS, 'stylesheet': CSS_EFFECTS}
BY_NAME = {e.name: e for es in EFFECTS.values() for e in es}
assert len(BY_NAME) == sum(len(es) for es in EFFECTS.values()), 'effect entry names must be unique'
def judge(effect, v, fam, eff, out):
    """-> (verdict, problems): verdict 'witness' | 'nothing-stated'; problems = list of texts."""
    w = effect.witness(v, fam, eff)
    if w is None:
        return 'nothing-stated', []
    present, absent = w
    text = out + END_MARK
    bad = []
    for p in present:
        if p and p not in text:
            bad.append('must contain %r' % p.replace(END_MARK, '<end of output>'))
    for a in absent:
        if a and a in text:
            bad.append('must not contain %r' % a.replace(END_MARK, '<end of output>'))
    return 'witness', bad
