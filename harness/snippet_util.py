"""C14 helpers: a small textual reader of snippet definitions (independent of the implementation's
parser and resolver) that writes "the definition in place of the alias" for decorated aliases:
attributes / repeater go onto every top-level element of the definition, a child goes under its
textually last element (= the deepest last element for a parenthesis-free definition)."""
import re

NAME_RE = re.compile(r'[A-Za-z0-9:!$@_-]*')


def top_level_segments(d):
    """Split a definition at its top-level `+` operators.  Returns a list of (segment, is_top) chunks
    whose concatenation is d, or None when the definition uses parentheses (groups) outside
    brackets/braces/quotes (not handled textually).  Only chunks with is_top=True start a top-level element."""
    chunks = []
    cur = ''
    br = 0         # inside [...]
    cb = 0         # inside {...}
    quote = None
    level = 0      # element nesting: `>` +1, `^` -1
    top = True
    i = 0
    while i < len(d):
        c = d[i]
        if quote:
            cur += c
            if c == quote:
                quote = None
        elif cb:
            cb += (c == '{') - (c == '}')
            cur += c
        elif br and c in '"\'':
            quote = c
            cur += c
        elif c == '{':
            cb += 1
            cur += c
        elif c == '[':
            br += 1
            cur += c
        elif c == ']':
            br -= 1
            cur += c
        elif br:
            cur += c
        elif c in '()':
            return None
        elif c in '>+^':
            # an operator ends the current element; a trailing `+` (e.g. `ol+`) is part of the name
            if c == '+' and i + 1 == len(d):
                cur += c
            else:
                chunks.append((cur, top))
                chunks.append((c, False))
                cur = ''
                if c == '>':
                    level += 1
                elif c == '^':
                    level = max(0, level - 1)
                top = level == 0
        else:
            cur += c
        i += 1
    chunks.append((cur, top))
    return chunks


def head_end(seg):
    """Index where the element head (name, #id, .class, [attrs]) of a segment ends: before text `{`,
    `/` and `*`."""
    depth = 0
    quote = None
    for i, c in enumerate(seg):
        if quote:
            if c == quote:
                quote = None
            continue
        if depth and c in '"\'':
            quote = c
            continue
        if c == '[':
            depth += 1
            continue
        if c == ']':
            depth -= 1
            continue
        if depth:
            continue
        if c in '/*{':
            return i
    return len(seg)


def decorate_tops(d, deco, after_name=False, need_name=True):
    """The definition with `deco` written on every top-level element (after its attributes; directly
    after the name when after_name).  None when not expressible textually."""
    chunks = top_level_segments(d)
    if chunks is None:
        return None
    out = []
    for seg, top in chunks:
        if not top or seg == '':
            out.append(seg)
            continue
        name_end = NAME_RE.match(seg).end()
        if need_name and name_end == 0:
            return None            # a top-level text node: no element to write on
        e = name_end if after_name else head_end(seg)
        out.append(seg[:e] + deco + seg[e:])
    return ''.join(out)


def ends_with_element(d):
    """The textually last node is an element (not a text node) and the definition has no groups and no repeaters."""
    chunks = top_level_segments(d)
    if chunks is None:
        return False
    for seg, _ in chunks:
        if '*' in re.sub(r'\[[^\]]*\]|\{[^}]*\}', '', seg):
            return False           # a repeater: `x*2>b` repeats the child, the alias puts it into the last copy only
    last = chunks[-1][0]
    return NAME_RE.match(last).end() > 0 and not last.endswith('}')


def alias_pairs(key, d, reverse=False):
    """[(kind, abbreviation using the alias, the same with the definition in its place)]"""
    out = [('alone', key, d), ('repeat-in-parent', 'ul>%s*2' % key, 'ul>(%s)*2' % d)]
    deco = '.extra[t=v]'
    dd = decorate_tops(d, deco, after_name=reverse)
    if dd is not None:
        out.append(('attributes', key + deco, dd))
    if ends_with_element(d):
        out.append(('child', key + '>b', d + '>b'))
    return out


# ---------------------------------------------------------------- several kinds of alias data at once (C14)
_TAIL_RE = re.compile(r'(/?)(\*[0-9]*)?\Z')


def split_segment(seg):
    """(head, text, slash, repeater) of one element segment written as  head {text} / *N  (head = name, #id, .class,
    [attrs]; each of the other parts may be missing, text = the braces included).  None when the segment is written in
    another order (`p*2.a`, `p{t}.a`): not handled textually."""
    e = head_end(seg)
    head, rest = seg[:e], seg[e:]
    text = ''
    if rest.startswith('{'):
        depth = 0
        i = 0
        while i < len(rest):
            c = rest[i]
            if c == '\\':
                i += 2
                continue
            if c == '{':
                depth += 1
            elif c == '}':
                depth -= 1
                if depth == 0:
                    break
            i += 1
        if depth != 0 or i >= len(rest):
            return None
        text, rest = rest[:i + 1], rest[i + 1:]
    m = _TAIL_RE.match(rest)
    if not m:
        return None
    return head, text, m.group(1), m.group(2) or ''


def decorate_tops_combined(d, attrs='', text=None, slash=False, after_name=False):
    """The definition with SEVERAL kinds of alias data written on every top-level element at once: `attrs` (as
    decorate_tops), the text (in place of the element's own: text written on the alias replaces it), the self-closing
    mark.  The element's own repeater stays where it is.  None when not expressible textually (groups, a top-level
    text node, a segment written in an unusual order)."""
    chunks = top_level_segments(d)
    if chunks is None:
        return None
    out = []
    for seg, top in chunks:
        if not top or seg == '':
            out.append(seg)
            continue
        name_end = NAME_RE.match(seg).end()
        if name_end == 0:
            return None
        if seg.endswith('+') and len(seg) > 1 and chunks[-1][0] is seg:
            return None            # `ol+` style names: the trailing + belongs to the name
        parts = split_segment(seg)
        if parts is None:
            return None
        head, own_text, own_slash, own_rep = parts
        if attrs:
            head = (head[:name_end] + attrs + head[name_end:]) if after_name else head + attrs
        out.append(head + ('{%s}' % text if text is not None else own_text) + ('/' if slash else own_slash) + own_rep)
    return ''.join(out)
