"""Generated tables for the markup pipeline: ELEMENT_MAP (implicit names)."""
from gen_tables import HEADER, GenError, coq_str, coq_list, write_if_changed


def gen_implicit():
    from emmet.markup.implicit_tag import ELEMENT_MAP
    items = []
    for k, v in ELEMENT_MAP.items():
        if not (isinstance(k, str) and isinstance(v, str)):
            raise GenError('ELEMENT_MAP entry %r' % ((k, v),))
        items.append('(%s, %s)' % (coq_str(k), coq_str(v)))
    out = HEADER % 'emmet.markup.implicit_tag.ELEMENT_MAP'
    out += 'Definition element_map : list (list N * list N) :=\n  %s.\n' % coq_list(items)
    return write_if_changed('GenImplicit.v', out)


GENERATORS = [gen_implicit]


def gen_markup_snippets():
    from emmet.snippets import markup_snippets, xsl_snippets, pug_snippets
    out = HEADER % 'emmet.snippets (markup_snippets, xsl_snippets, pug_snippets after parse_snippets)'
    for name, tbl in (('markup_snippets', markup_snippets), ('xsl_snippets', xsl_snippets), ('pug_snippets', pug_snippets)):
        items = []
        for k, v in tbl.items():
            if not (isinstance(k, str) and isinstance(v, str)):
                raise GenError('%s entry %r' % (name, (k, v)))
            items.append('(%s, %s)' % (coq_str(k), coq_str(v)))
        out += 'Definition %s : list (list N * list N) :=\n  %s.\n\n' % (name, coq_list(items))
    return write_if_changed('GenMarkupSnippets.v', out)


GENERATORS.append(gen_markup_snippets)
