"""C16, WHITE SPACE OF EVERY KIND (used by c16_css.py / c16_html.py only).

The statement quantifies over EVERY string.  The other streams of C16 write blanks as ` `, tab, CR, LF only (their
alphabets are ASCII punctuation); text pasted from a web page or a word processor carries NO-BREAK SPACE and the other
Unicode separators, and which of them the matchers count as white space is exactly where their loops decide to stop.
The classes here put every white-space-like character into every place of a stylesheet / a tag where a blank can
stand, alone, repeated and mixed with ASCII blanks, in particular as the ONLY content of a block body, a property
value, a parenthesis, an attribute value.

Nothing here reads the library.  The table is written out from:
  * the Unicode `White_Space` property (PropList.txt): U+0009..000D, U+0020, U+0085, U+00A0, U+1680, U+2000..200A,
    U+2028, U+2029, U+202F, U+205F, U+3000;
  * the characters Python's str.isspace() / str.strip() / str.split() take in addition: U+001C..001F;
  * invisible format characters that travel with pasted text: U+200B ZERO WIDTH SPACE, U+2060 WORD JOINER,
    U+FEFF BYTE ORDER MARK / ZERO WIDTH NO-BREAK SPACE.
The check does not say which of them ARE white space for the matchers (the statement does not): the oracle is the
C16 statement only (no exception, 0 <= start <= end <= len, tag shape), whatever the library takes them for.
"""
import itertools

ASCII_BLANKS = [' ', '\t', '\n', '\r']
NBSP = '\xa0'
SPACES = ASCII_BLANKS + ['\x0b', '\x0c', '\x1c', '\x1d', '\x1e', '\x1f', '\x85', NBSP, '\u1680'] + \
    [chr(c) for c in range(0x2000, 0x200b)] + ['\u2028', '\u2029', '\u202f', '\u205f', '\u3000', '\u200b', '\u2060', '\ufeff']
ODD_SPACES = [c for c in SPACES if c not in ASCII_BLANKS]

# ------------------------------------------------------------------ CSS
# exhaustive: letter, block / declaration punctuation and two representatives of the other kinds of space (NBSP: Latin-1,
# no line break; FORM FEED: an ASCII control that str.strip() / str.isspace() take).  The ASCII blank is in the main
# exhaustive alphabet; mixes with it come from the shapes below.
CSS_SPACE_ALPHABET = ['a', '{', '}', ':', ';', NBSP, '\x0c']
# characters that are written in all forms of runs_of; the others in one form each (rotating)
REPRESENTATIVES = [NBSP, '\x0c', '\x1f', '\x85', '\u2003', '\u2028', '\u200b', '\ufeff']

# every place of a small stylesheet where a blank can stand; `%s` is filled with the same run everywhere
CSS_SHAPES = [
    '%s', 'a{%s}', 'a{b:%s}', 'a{b:%s;}', 'a{b:%s;c:d}', 'a{%sb:c%s}', 'a{%sb:c;%s}', 'a%s{b:c}', '%sa{}%s', 'a{b{%s}}', 'a{ b{%s} }',
    'a{b:c;%s}', 'a{b:f(%s)}', 'a{b:f(%s,%s)}', 'a{b%s:%sc}', 'a{b:c%s;%sd:e}', '@m (x){a{%s}c{d:e}}', 'a{%s}b{%s}', 'a{%s', 'a{b:%s',
    '%s}', 'a{/**/%s}', 'a{"x"%s}', 'a{b:"%s"}', 'a{b:%s!i}', '%s{%s}', 'a{%s;%s}', 'a{:%s}', 'a{b:c}%s', 'a{b{c:%s}}',
]


def runs_of(ch):
    """the forms in which one character is written into a slot: alone, doubled, after / before / between ASCII blanks,
    around a line break"""
    return [ch, ch * 2, ' ' + ch, ch + ' ', ' ' + ch + ' ', '\t' + ch + '\r\n', ch + '\n' + ch]


def css_space_exhaustive(n):
    """all strings of length <= n over CSS_SPACE_ALPHABET that hold at least one of the non-ASCII-blank spaces (the
    others belong to the main exhaustive stream)"""
    odd = set(CSS_SPACE_ALPHABET) & set(ODD_SPACES)
    for k in range(1, n + 1):
        for tup in itertools.product(CSS_SPACE_ALPHABET, repeat=k):
            if odd.intersection(tup):
                yield ''.join(tup)


def all_runs(n_forms=7):
    """the empty run; every representative in every form; every other character of SPACES in one form (rotating)"""
    out = ['']
    k = 0
    for ch in SPACES:
        forms = runs_of(ch)[:n_forms]
        if ch in REPRESENTATIVES:
            out += forms
        else:
            out.append(forms[k % len(forms)])
            k += 1
    return out


def css_space_shapes():
    """every shape x every run of all_runs (the same run in every slot of the shape)"""
    seen = set()
    for shape in CSS_SHAPES:
        for run in all_runs():
            s = shape.replace('%s', run)
            if s not in seen:
                seen.add(s)
                yield s


def rnd_run(rng, may_empty=False):
    """a run of 1..3 (0..3) white-space characters: mostly one odd space, alone or among ASCII blanks"""
    n = rng.choice([0, 1, 1, 2, 3] if may_empty else [1, 1, 2, 3])
    return ''.join(rng.choice(ODD_SPACES) if rng.random() < 0.6 else rng.choice(ASCII_BLANKS) for _ in range(n))


def _pairs(s, op, cl):
    """(i, j) of innermost op..cl pairs (text level; good enough to pick a body)"""
    out, last = [], None
    for i, c in enumerate(s):
        if c == op:
            last = i
        elif c == cl and last is not None:
            out.append((last, i))
            last = None
    return out


def space_mutate(rng, text, delims='{};:(),'):
    """A valid text -> the same text with other white space: 1..4 times one of
      respace   a maximal run of ASCII blanks is replaced by a drawn run,
      pad       a drawn run is inserted next to a delimiter (before or after),
      blank     the content of an innermost `{..}` / `(..)` pair or of a `:`..`;` value is replaced by a drawn run
                (a body / value that is white space ONLY),
      edge      a drawn run is put at the very start or end."""
    for _ in range(rng.choice([1, 1, 2, 3, 4])):
        r = rng.random()
        if r < 0.3:
            runs = []
            i = 0
            while i < len(text):
                if text[i] in ' \t\r\n':
                    j = i
                    while j < len(text) and text[j] in ' \t\r\n':
                        j += 1
                    runs.append((i, j))
                    i = j
                else:
                    i += 1
            if runs:
                a, b = rng.choice(runs)
                text = text[:a] + rnd_run(rng) + text[b:]
                continue
        if r < 0.6:
            at = [i for i, c in enumerate(text) if c in delims]
            if at:
                i = rng.choice(at) + rng.randrange(2)
                text = text[:i] + rnd_run(rng) + text[i:]
                continue
        if r < 0.9:
            spans = _pairs(text, '{', '}') + _pairs(text, '(', ')') + _pairs(text, ':', ';') + _pairs(text, ':', '}') + \
                _pairs(text, '"', '"') + _pairs(text, '=', '>')
            if spans:
                a, b = rng.choice(spans)
                text = text[:a + 1] + rnd_run(rng) + text[b:]
                continue
        if rng.random() < 0.5:
            text = rnd_run(rng) + text
        else:
            text = text + rnd_run(rng)
    return text


# ------------------------------------------------------------------ HTML
# every place of a tag / a small document where a blank can stand
HTML_SHAPES = [
    '<a%s>', '<a%sb>', '<a%sb=c>', '<a b%s=%sc>', '<a b=c%s>', '<a b="%s">', "<a b='%s'c>", '<a%s/>', '<a b%s/>', '</a%s>', '<%sa>', '</%sa>',
    '<a>%s</a>', '<a%s></a%s>', '<a%sb=c%sd=e></a>', '<b type=%sa><a></b>', '<b%stype=a><a></b>', '<b type="%s"><a></b>', '<a b={%s}>',
    '<a [b]%s=%s"c">', '<!--%s-->', '<![CDATA[%s]]><a>', '<?%s?><a>', '<!%sa><b>', '<a%s', '<a b=%s', '<a b="%s', '%s<a>%s', '<a><b%s></a>',
    '<script%s><a></script%s>', '<script type=%s"x"><a></a></script>', '<br%s>x</br>',
]


def html_space_shapes():
    seen = set()
    for shape in HTML_SHAPES:
        for run in all_runs(5):
            s = shape.replace('%s', run)
            if s not in seen:
                seen.add(s)
                yield s
