"""Development driver for the BEM tie: runs harness/bem_util.run_bem outside ./check.
usage: VERIF_REPO=... python harness/dev_bem.py [quick|thorough] [seed]"""
import os
import sys
import time
sys.path.insert(0, os.path.dirname(os.path.abspath(__file__)))
import common
sys.path.insert(0, common.REPO)
import bem_util


def main():
    tier = sys.argv[1] if len(sys.argv) > 1 else 'quick'
    seed = int(sys.argv[2]) if len(sys.argv) > 2 else 1
    ok, out = common.make(['run/MarkupRun.vo'])
    if not ok:
        print(out[-3000:])
        return 1
    exe, err = common.build_model('markup')
    if exe is None:
        print(err)
        return 1
    ctx = common.Ctx('C07', tier, seed)
    t = time.time()
    cases = bem_util.gen_cases(ctx)
    tags = {}
    for _, _, tag in cases:
        tags[tag] = tags.get(tag, 0) + 1
    print('cases', len(cases), tags)
    dis = bem_util.run_bem(ctx, common.Model(exe), cases)
    print('disagreements', dis, 'violations', len(ctx.violations), 'broken', len(ctx.broken), '%.1fs' % (time.time() - t))
    print(ctx.cov['correspondence'])
    return 1 if dis or ctx.violations else 0


if __name__ == '__main__':
    sys.exit(main())
