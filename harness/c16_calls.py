"""C16, HTML half, CALL SEQUENCES -- the options object belongs to the caller.

The statement relates the results of DIFFERENT calls on one (string, position): "match() equals the first entry of
balanced_outward()", the outward / inward chains.  An editor makes these calls one after the other for one caret event
and hands every one of them the SAME options object (built once per event, or once per document / session).  The other
HTML streams of C16 take their options from one table of the harness for the whole run; here every options object is
built fresh from a template (c16_gen.option_templates) and then shared the way a caller shares it:

  event        one fresh object per (string, position), passed to match, balanced_outward and balanced_inward in one
               of the 6 orders;
  document     one object per string, passed to scan (its `special` entry) and to all three functions at all
               positions -1..len+1;
  interleaved  two objects A, B from different templates per (string, position); the calls alternate
               match(A) match(B) outward(A) outward(B) inward(A) inward(B) (state left behind by a call made with other
               options), the statement is evaluated for the A results and for the B results.

The oracle is the C16 statement itself (html_util.wf_problem / events_problem) on the results of ONE such sequence.
Whether the object handed in is still what the caller built is reported with a failure as an explanation only; it is
not part of the statement and never a failure by itself.

The extracted model has no notion of an object that lives on between calls: the results of every sequence are
compared with the model run on the template (`correspond`), i.e. with what independent calls give.
"""
import copy
import itertools
import multiprocessing
import time

import c16_gen
import html_gen
import html_util as hu
from common import NPROC

CALLS = True      # call sequences with caller-owned options objects

ORDERS = list(itertools.permutations((0, 1, 2)))      # 0 match, 1 outward, 2 inward
MODES = ('event', 'document', 'interleaved')
TEMPLATES = c16_gen.option_templates()
USER_RECURSION_LIMIT = 1000


def fresh(tname):
    return TEMPLATES[tname]()


def _fn(k):
    return (hu.impl_match, hu.impl_outward, hu.impl_inward)[k]


def _scan(src, opts):
    """scan() takes the `special` table directly: hand it the caller's own object; when the options have none, the
    documented default table written out in c16_gen (scan() itself has no default: without a table nothing is special)"""
    from emmet.html_matcher import scan
    evs = []
    cb = lambda name, ty, start, end: evs.append((name, ty, start, end))      # noqa: E731
    try:
        if opts and 'special' in opts:
            scan(src, cb, opts['special'])
        else:
            scan(src, cb, {'style': None, 'script': list(c16_gen.OPT_JS_TYPES)})
    except Exception as e:  # noqa: BLE001
        return (evs, hu.exc_kind(e))
    return (evs, None)


def run_sequence(job):
    """job = (string, template A, template B or None, mode, order index, positions).
    -> (scan result, [(m, o, i) per position] for A, the same for B or None, note)"""
    import sys
    s, ta, tb, mode, oi, ps = job
    order = ORDERS[oi % len(ORDERS)]
    old = sys.getrecursionlimit()
    sys.setrecursionlimit(USER_RECURSION_LIMIT)
    try:
        note = None
        doc_obj = fresh(ta)
        sc = _scan(s, doc_obj if mode == 'document' else fresh(ta))
        res_a, res_b = [], ([] if mode == 'interleaved' else None)
        for p in ps:
            a = doc_obj if mode == 'document' else fresh(ta)
            ra = [None, None, None]
            if mode == 'interleaved':
                b = fresh(tb)
                rb = [None, None, None]
                for k in order:
                    ra[k] = _fn(k)(s, p, a)
                    rb[k] = _fn(k)(s, p, b)
                res_b.append(tuple(rb))
                if note is None and b != fresh(tb):
                    note = 'the options object %r handed in by the caller is %r after the calls' % (fresh(tb), b)
            else:
                for k in order:
                    ra[k] = _fn(k)(s, p, a)
            res_a.append(tuple(ra))
            if note is None and a != fresh(ta):
                note = 'the options object %r handed in by the caller is %r after the calls' % (fresh(ta), a)
        return (sc, res_a, res_b, note)
    finally:
        sys.setrecursionlimit(old)


def run_sequences(jobs):
    jobs = list(jobs)
    work = sum(len(j[0]) * max(1, len(j[5])) * (6 if j[3] == 'interleaved' else 3) for j in jobs)
    if work < 400000 or NPROC < 2:
        return [run_sequence(j) for j in jobs]
    ctxm = multiprocessing.get_context('fork')
    with ctxm.Pool(min(NPROC, 12)) as pool:
        return pool.map(run_sequence, jobs, chunksize=max(1, len(jobs) // (NPROC * 8)))


def check_sequence(job, result):
    """C16 oracle on the results of one call sequence: None or (position-or-None, template, description)"""
    s, ta, tb, mode, oi, ps = job
    sc, res_a, res_b, note = result
    tail = (' [%s]' % note) if note else ''
    bad = hu.events_problem(s, sc)
    if bad:
        return (None, ta, bad + tail)
    for t, res in ((ta, res_a), (tb, res_b)):
        if res is None:
            continue
        for p, (m, o, i) in zip(ps, res):
            bad = hu.wf_problem(s, p, m, o, i)
            if bad:
                return (p, t, bad + tail)
    return None


def describe(job):
    s, ta, tb, mode, oi, ps = job
    names = ('match', 'balanced_outward', 'balanced_inward')
    order = ' '.join(names[k] for k in ORDERS[oi % len(ORDERS)])
    if mode == 'event':
        return 'one options object %r per position, calls in the order %s' % (fresh(ta), order)
    if mode == 'document':
        return 'one options object %r for scan and all positions, calls in the order %s' % (fresh(ta), order)
    return 'two options objects A=%r B=%r per position, calls alternating A B in the order %s' % (fresh(ta), fresh(tb), order)


def model_opts(tname):
    return c16_gen.model_options(copy.deepcopy(fresh(tname)))


def inputs(ctx):
    """[(string, template A, template B or None, mode, order index, positions), label]"""
    rng = ctx.rng
    quick = ctx.tier == 'quick'
    tnames = list(TEMPLATES)
    out = []
    k = [0]

    def add(s, ta, label, mode=None):
        k[0] += 1
        mode = mode or MODES[k[0] % 3]
        tb = None
        if mode == 'interleaved':
            tb = rng.choice([t for t in tnames if t != ta and TEMPLATES[t]() != TEMPLATES[ta]()])
        out.append(((s, ta, tb, mode, rng.randrange(6), list(range(-1, len(s) + 2))), label))

    # hand-written documents in which the options decide the result: every template, every mode
    for s in c16_gen.OPTION_SEEDS:
        for ta in tnames:
            for mode in MODES:
                add(s, ta, 'calls:option-seed', mode)
    # the seed strings of the other streams (half-typed tags, strings, comments ...)
    from c16_html import SEEDS
    for i, s in enumerate(SEEDS + c16_gen.CASE_SEEDS):
        for ta in (tnames[i % len(tnames)], tnames[(i + 5) % len(tnames)]):
            add(s, ta, 'calls:seed')
    # all sequences of up to 2 (thorough: 3) tokens over the small case alphabets, options of that alphabet
    for on, toks in c16_gen.CASE_TOKENS:
        for s in c16_gen.case_token_strings(toks, 2 if quick else 3):
            add(s, rng.choice(['ab', 'ab', 'ab-flags', 'ab-xml-flags']) if on == 'ab' else
                rng.choice(['html', 'xml', 'nospecial', 'defaults-explicit', 'special-flag-true', 'special-falsy-values',
                            'special-collections']), 'calls:token-sequences')
    # generated option-sensitive documents: as generated, and mutated (delete / insert / replace / truncate / duplicate)
    n_doc = 700 if quick else 12000
    for i in range(n_doc):
        ta = tnames[i % len(tnames)]
        s = c16_gen.gen_option_document(rng, fresh(ta))
        if i % 3 == 2:
            s = html_gen.mutate(rng, s, 160)
            add(s[:160], ta, 'calls:option-document-mutated')
        else:
            add(s[:160], ta, 'calls:option-document')
    # random strings / fragment mixes
    n_rand = 300 if quick else 8000
    for i in range(n_rand):
        gen = c16_gen.gen_malformed if i % 2 else html_gen.gen_malformed
        add(gen(rng, 12 if i % 2 else 40), tnames[i % len(tnames)], 'calls:random')
    return out


def run_calls(ctx):
    if not CALLS:
        return
    model = ctx.model('html') if ctx.build(['run/HtmlRun.vo']) else None
    quick = ctx.tier == 'quick'
    ctx.cov['rule'] = ctx.cov.get('rule', '') + (
        ' HTML CALL SEQUENCES (caller-owned options): every options object is built fresh from one of %d templates (%s) '
        '-- among them OPTION VALUES OF EVERY TYPE that can express the documented meaning: `xml` as True / 1 / 0 / None, '
        '`empty` as list / tuple / frozenset / dict keys, a `special` entry as None, as a flag (True, 1), as another empty '
        'value (False, 0, \'\', ()), as list / empty list / tuple / frozenset / dict / string, a `special` table that is None '
        '(for the model: xml by truth, a non-list entry = always special, as the code reads them; oracle = the statement '
        'only) -- and shared the way a caller shares it -- `event`: one object per (string, position) passed to match, '
        'balanced_outward, balanced_inward in one of the 6 orders; `document`: one object per string passed to scan (its '
        '`special` table) and to the three functions at all positions; `interleaved`: two objects from different templates '
        'per (string, position), calls alternating between them. Strings: %d hand-written documents in which xml / empty / '
        'special decide the result (every template x every mode), the seed and letter-case seed strings, all sequences of '
        'up to %d tokens of the case alphabets, generated documents whose elements are named by default void names, default '
        'special names, the names of the options\' own empty / special entries and ordinary names and are written -- '
        'whatever the name -- as pair, lone open tag, `<n/>` or stray close tag (one third mutated), random strings; every '
        'position -1..len+1. Oracle: the C16 statement on the results of ONE sequence (match = first outward entry etc. for '
        'calls that received the same object). The model has no objects living between calls: each sequence is compared '
        'with the model run on the template, i.e. with independent calls. A case = one (string, template, position).') % (
            len(TEMPLATES), ', '.join('%s=%r' % (t, f()) for t, f in TEMPLATES.items()), len(c16_gen.OPTION_SEEDS),
            2 if quick else 3)
    t0 = time.time()
    ins = inputs(ctx)
    jobs = [j for j, _ in ins]
    res = run_sequences(jobs)
    t1 = time.time()
    n_fail = 0
    mjobs, mres = [], []
    for (job, label), r in zip(ins, res):
        s, ta, tb, mode, oi, ps = job
        sc, res_a, res_b, note = r
        ctx.count_eval(len(ps) * (2 if res_b is not None else 1))
        ctx.cover('html:' + label)
        ctx.cover('html:calls:mode:' + mode)
        ctx.cover('html:calls:template:' + ta)
        if sc[0]:
            ctx.nontrivial(('hc', s, ta))
            if tb:
                ctx.nontrivial(('hc', s, tb))
        if any(isinstance(x[1], list) and x[1] for x in res_a):
            ctx.cover('html:calls:position-inside-an-element')
        if any(isinstance(x[1], list) and any(e[2] is not None for e in x[1]) for x in res_a):
            ctx.cover('html:calls:position-inside-a-pair')
        fail = check_sequence(job, r)
        if fail:
            fail = check_sequence(job, run_sequence(job))      # a real failure repeats (see c16_html)
            if not fail:
                ctx.cover('html:unrepeatable-failure-discarded')
        if fail:
            n_fail += 1
            p, t, what = fail
            ctx.property_failure('c16-html-calls:%s:%s:%s@%s' % (mode, t, s, p),
                                 'html_matcher on %r at %s (%s): %s' % (s[:200], p, describe(job), what),
                                 {'component': 'c16-html-calls', 'input': s, 'template': ta, 'template2': tb, 'mode': mode,
                                  'order': oi, 'pos': p, 'options': repr(fresh(t)), 'why': what})
        for t, rr in ((ta, res_a), (tb, res_b)):
            if rr is None:
                continue
            o = model_opts(t)
            for kidx, kind in enumerate(('match', 'outward', 'inward')):
                mjobs.append((kind, s, o, ps))
                mres.append([x[kidx] for x in rr])
        mjobs.append(('scan', s, model_opts(ta), None))
        mres.append(sc)
    for wanted in ('calls:option-document', 'calls:option-document-mutated'):
        for job, label in ins:
            if label == wanted and len(job[0]) > 20:
                ctx.sample({'input': job[0], 'options': repr(fresh(job[1])), 'mode': job[3], 'source': label})
                break
    dis = hu.correspond(ctx, model, mjobs, mres, 'html_matcher_call_sequences')
    ctx.say('C16 html call sequences: %d sequences, implementation %.1fs, oracle + model %.1fs' % (len(jobs), t1 - t0, time.time() - t1))
    if dis and not n_fail:
        job, i, a, b = dis[0]
        ctx.broken.append({'kind': 'correspondence', 'file': 'html-matcher-calls:' + job[0], 'input': job[1][:400],
                           'opts': repr(job[2]), 'pos': None if i is None else job[3][i], 'impl': repr(a)[:300], 'model': repr(b)[:300]})


def replay_calls(ctx, obj):
    rp = obj.get('replay', {})
    if rp.get('component') != 'c16-html-calls':
        return None
    s = rp['input']
    job = (s, rp['template'], rp.get('template2'), rp['mode'], rp.get('order', 0), list(range(-1, len(s) + 2)))
    fail = check_sequence(job, run_sequence(job))
    print('input %r, %s -> %s' % (s, describe(job), 'position %s (options %s): %s' % fail if fail else 'property holds'))
    return 1 if fail else 0
