"""Generated tables for lorem text generation (emmet/markup/lorem): coq/gen/GenLorem.v.

Read off the IMPORTED module of the repository under test, not off re-typed text:
    * `vocabularies` (the dict the code looks the language up in): every entry with its `common` list (optional,
      the code tests `'common' in db`) and its `words` list (required, the code indexes `db['words']`);
    * the string `sentence()` passes to `choice()` (the sentence ends), taken from the AST of `sentence`;
    * `str.capitalize()` of the first word of a sentence.  The model does not contain Unicode case mapping.
      Only vocabulary words (possibly with the comma `insert_commas` appended) are ever capitalised, so the table
      `lorem_cap_first` maps every FIRST character of a vocabulary word to what the running interpreter's
      str.capitalize() makes of it, and generation verifies for every vocabulary word w -- and for w + ',' -- that
      w.capitalize() == table[w[0]] + w[1:]   (i.e. the rest of the word is unchanged: already lower case).
    * `re_lorem` (the header): coq/model/MarkupResolve.v match_lorem hand-compiles the SHAPE
          ^ c1 c2 c3 c4 c5 (L*) (D*) (dash D*)? $        under re.I
      and everything else is read off the COMPILED regex of the imported module by probing it with EVERY code point: the
      characters accepted at each of the five literal positions (re.I), the class L (re.I case folding of non-ASCII
      letters -- U+0130 U+0131 U+017F U+212A -- is what the interpreter does), the class D (must be exactly the decimal
      characters str.isdecimal() / lib/Base.is_number knows, convertible by int()), the dash, and the characters `$`
      tolerates after the match (a final line feed).  The pattern text and flags must be the ones the shape was
      compiled from.
Fail-closed: a vocabulary that is not a dict of lists of non-empty strings, a missing `words` list, a word
for which the capitalisation identity above fails, or a `sentence()` without exactly one constant choice string
abort generation (GenError); the check then reports the broken tie.
"""
import ast
import inspect

from gen_tables import HEADER, GenError, coq_list, coq_str, write_if_changed


def _strs(name, l):
    if not isinstance(l, list) or not all(isinstance(w, str) and w for w in l):
        raise GenError('lorem: %s is not a list of non-empty strings' % name)
    return l


def lorem_tables():
    """(vocabularies as [(key, common or None, words)], cap_first dict, sentence ends)"""
    import importlib
    L = importlib.import_module('emmet.markup.lorem')     # `emmet.markup.lorem` the attribute is the function
    vocs = L.vocabularies
    if not isinstance(vocs, dict) or not vocs:
        raise GenError('lorem: vocabularies is not a non-empty dict')
    out = []
    cap = {}
    for key, db in vocs.items():
        if not isinstance(key, str) or not isinstance(db, dict):
            raise GenError('lorem: vocabulary entry %r' % (key,))
        if set(db) - {'common', 'words'}:
            raise GenError('lorem: vocabulary %r has keys %r' % (key, sorted(db)))
        if 'words' not in db:
            raise GenError('lorem: vocabulary %r has no words' % key)
        words = _strs(key + '.words', db['words'])
        common = _strs(key + '.common', db['common']) if 'common' in db else None
        for w in words + (common or []):
            c = w[0].capitalize()
            if cap.setdefault(w[0], c) != c:
                raise GenError('lorem: capitalize is not a function of the first character (%r)' % w)
            for v in (w, w + ','):
                if v.capitalize() != c + v[1:]:
                    raise GenError('lorem: %r.capitalize() = %r changes more than the first character' % (v, v.capitalize()))
        out.append((key, common, words))
    # the constant string of `choice(...)` inside sentence()
    tree = ast.parse(inspect.getsource(L.sentence))
    consts = [n.args[0].value for n in ast.walk(tree)
              if isinstance(n, ast.Call) and isinstance(n.func, ast.Name) and n.func.id == 'choice'
              and len(n.args) == 1 and isinstance(n.args[0], ast.Constant) and isinstance(n.args[0].value, str)]
    if len(consts) != 1 or not consts[0]:
        raise GenError('lorem: sentence() does not call choice() with one constant string: %r' % (consts,))
    return out, cap, consts[0]


EXPECTED_PATTERN = r'^lorem([a-z]*)(\d*)(-\d*)?$'
MAXCP = 0x110000


def _ranges(cps):
    out = []
    for c in sorted(cps):
        if out and out[-1][1] + 1 == c:
            out[-1][1] = c
        else:
            out.append([c, c])
    return out


def _scan(L):
    import re
    rx = L.re_lorem
    if rx.pattern != EXPECTED_PATTERN or rx.flags != (re.I | re.U):
        raise GenError('lorem: re_lorem is %r flags %d, the model was compiled from %r flags %d' % (rx.pattern, rx.flags, EXPECTED_PATTERN, re.I | re.U))
    lit = 'lorem'
    prefix = [[] for _ in lit]
    letters, digits, dashes, ends = [], [], [], []
    for cp in range(MAXCP):
        c = chr(cp)
        for i in range(len(lit)):
            if rx.match(lit[:i] + c + lit[i + 1:]):
                prefix[i].append(cp)
        m = rx.match(lit + c)
        if m:
            g = m.groups()
            if g == (c, '', None):
                letters.append(cp)
            elif g == ('', c, None):
                digits.append(cp)
            elif g == ('', '', c):
                dashes.append(cp)
            elif g == ('', '', None):
                ends.append(cp)
            else:
                raise GenError('lorem: re_lorem on lorem+U+%04X gives groups %r' % (cp, g))
    for cp in digits:
        c = chr(cp)
        if not c.isdecimal():
            raise GenError('lorem: \\d accepts U+%04X which is not a decimal character' % cp)
        int(c)
    if [cp for cp in range(MAXCP) if chr(cp).isdecimal()] != digits:
        raise GenError('lorem: \\d is not the set of decimal characters')
    if dashes != [45]:
        raise GenError('lorem: dash class %r' % dashes)
    # the shape: classes pairwise disjoint (the greedy parse is the only parse)
    if set(letters) & set(digits) or 45 in letters or 45 in digits or set(ends) & (set(letters) | set(digits) | {45}):
        raise GenError('lorem: classes of re_lorem are not disjoint')
    return {'prefix': prefix, 'letters': _ranges(letters), 'ends': ends}


def _cached_scan(L):
    import hashlib
    import json
    import os
    import sys
    from gen_tables import VERIF
    h = hashlib.sha256()
    h.update(sys.version.encode())
    h.update(L.re_lorem.pattern.encode() + b'%d' % L.re_lorem.flags)
    with open(os.path.abspath(__file__), 'rb') as f:
        h.update(hashlib.sha256(f.read()).digest())
    key = h.hexdigest()
    cache = os.path.join(VERIF, 'build', 'gen_lorem_cache.json')
    try:
        with open(cache) as f:
            o = json.load(f)
        if o.get('key') == key and isinstance(o.get('scan'), dict):
            return o['scan']
    except Exception:  # noqa
        pass
    scan = _scan(L)
    try:
        os.makedirs(os.path.dirname(cache), exist_ok=True)
        tmp = cache + '.%d' % os.getpid()
        with open(tmp, 'w') as f:
            json.dump({'key': key, 'scan': scan}, f)
        os.replace(tmp, cache)
    except Exception:  # noqa
        pass
    return scan


def gen_lorem():
    import importlib
    vocs, cap, ends = lorem_tables()
    sc = _cached_scan(importlib.import_module('emmet.markup.lorem'))
    out = HEADER % 'emmet.markup.lorem (vocabularies, sentence ends, str.capitalize() of the first characters)'
    out += '(* vocabularies: key -> (common list if present, words) in the order of the dict *)\n'
    items = []
    for key, common, words in vocs:
        c = 'None' if common is None else 'Some %s' % coq_list([coq_str(w) for w in common])
        items.append('(%s,\n  (%s,\n  %s))' % (coq_str(key), c, coq_list([coq_str(w) for w in words])))
    out += 'Definition lorem_vocabularies : list (list N * (option (list (list N)) * list (list N))) :=\n  %s.\n\n' % coq_list(items)
    out += '(* str.capitalize() of a vocabulary word = this table applied to its first character + the rest unchanged\n' \
           '   (verified for every word w and for w + comma at generation time) *)\n'
    out += 'Definition lorem_cap_first : list (N * list N) :=\n  %s.\n\n' % coq_list(
        ['(%d, %s)' % (ord(k), coq_str(v)) for k, v in sorted(cap.items())])
    out += '(* the argument of choice() in sentence() *)\n'
    out += 'Definition lorem_sentence_ends : list N := %s.\n\n' % coq_str(ends)
    out += '(* re_lorem %s under re.I, probed with every code point:\n' \
           '   the characters accepted at each of the five literal positions *)\n' % EXPECTED_PATTERN.replace('*)', '* )')
    out += 'Definition lorem_prefix_classes : list (list N) :=\n  %s.\n\n' % coq_list(
        ['[' + '; '.join('%d' % c for c in cl) + ']' for cl in sc['prefix']])
    out += '(* the class [a-z] under re.I, as inclusive ranges *)\n'
    out += 'Definition lorem_letter_ranges : list (N * N) :=\n  %s.\n\n' % coq_list(['(%d, %d)' % (a, b) for a, b in sc['letters']])
    out += '(* `$` also matches before ONE of these as the very last character *)\n'
    out += 'Definition lorem_end_chars : list N := [%s].\n' % '; '.join('%d' % c for c in sc['ends'])
    return write_if_changed('GenLorem.v', out)


GENERATORS = [gen_lorem]
