"""Helpers shared by harness/gen_config.py (table generator) and harness/props/c20.py.

Values of options / snippets / variables are abstracted to integer ids: the
property is about WHICH layer's value wins, not about what a value contains.
Built-in values get ids 0,1,2,... in a deterministic scan order of the live
tables (equal values share an id; callables are identified by object identity);
values supplied by a caller get negative ids from a per-case registry.
"""
import json


class ShapeError(Exception):
    pass


SECTIONS = ('variables', 'snippets', 'options')


def canon(v):
    """Structural canonical form of a plain-data value (type-tagged, dicts
    order-insensitive like ==, bool distinct from int)."""
    if v is None:
        return 'n'
    if isinstance(v, bool):
        return 'b%d' % v
    if isinstance(v, int):
        return 'i%d' % v
    if isinstance(v, float):
        return 'f%r' % v
    if isinstance(v, str):
        return 's' + json.dumps(v)
    if isinstance(v, list):
        return 'l[' + ','.join(canon(x) for x in v) + ']'
    if isinstance(v, tuple):
        return 't[' + ','.join(canon(x) for x in v) + ']'
    if isinstance(v, dict):
        return 'd{' + ','.join(sorted(canon(k) + ':' + canon(x) for k, x in v.items())) + '}'
    raise ShapeError('value of unsupported type %s: %r' % (type(v).__name__, v))


def check_section(where, d):
    if not isinstance(d, dict):
        raise ShapeError('%s is not a dict: %r' % (where, type(d).__name__))
    for k in d:
        if not isinstance(k, str):
            raise ShapeError('%s has a non-str key %r' % (where, k))


def builtin_layers(cfgmod):
    """[(where, section_name, dict)] for every dict-valued section of DEFAULT_CONFIG
    and of every SYNTAX_CONFIG entry, in table order.  Fail-closed on other shapes."""
    out = []
    dc = cfgmod.DEFAULT_CONFIG
    if not isinstance(dc, dict):
        raise ShapeError('DEFAULT_CONFIG is not a dict')
    for k, v in dc.items():
        if not isinstance(k, str):
            raise ShapeError('DEFAULT_CONFIG key %r' % (k,))
        if isinstance(v, dict):
            check_section('DEFAULT_CONFIG[%r]' % k, v)
            out.append(('DEFAULT_CONFIG', k, v))
        elif not isinstance(v, str):
            raise ShapeError('DEFAULT_CONFIG[%r] is neither a dict nor a str' % k)
    sc = cfgmod.SYNTAX_CONFIG
    if not isinstance(sc, dict):
        raise ShapeError('SYNTAX_CONFIG is not a dict')
    for name, layer in sc.items():
        if not isinstance(name, str):
            raise ShapeError('SYNTAX_CONFIG key %r' % (name,))
        check_section('SYNTAX_CONFIG[%r]' % name, layer)
        for k, v in layer.items():
            check_section('SYNTAX_CONFIG[%r][%r]' % (name, k), v)
            out.append(('SYNTAX_CONFIG:' + name, k, v))
    return out


class ValueIds:
    """Integer ids of values.  Built-in ids >= 0 are a function of the live tables
    only (same in the generator process and in the check process)."""

    def __init__(self, cfgmod):
        self.by_canon = {}
        self.callables = []      # [(object, id)]
        self.n = 0
        for where, sec, d in builtin_layers(cfgmod):
            for k, v in d.items():
                self._add(v)
        self.n_builtin = self.n

    def _add(self, v):
        if callable(v):
            for o, i in self.callables:
                if o is v:
                    return i
            self.callables.append((v, self.n))
            self.n += 1
            return self.n - 1
        c = canon(v)
        if c not in self.by_canon:
            self.by_canon[c] = self.n
            self.n += 1
        return self.by_canon[c]

    def builtin_id(self, v):
        """id of a value that must be a built-in value (generator side)."""
        i = self.lookup(v)
        if i is None:
            raise ShapeError('value not registered: %r' % (v,))
        return i

    def lookup(self, v):
        if callable(v):
            for o, i in self.callables:
                if o is v:
                    return i
            return None
        return self.by_canon.get(canon(v))


class CaseIds:
    """Per-case extension of ValueIds: caller-supplied values get -1, -2, ..."""

    def __init__(self, base):
        self.base = base
        self.extra_canon = {}
        self.extra_callables = []

    def id_of(self, v):
        i = self.base.lookup(v)
        if i is not None:
            return i
        if callable(v):
            for o, j in self.extra_callables:
                if o is v:
                    return j
            j = -(len(self.extra_canon) + len(self.extra_callables) + 1)
            self.extra_callables.append((v, j))
            return j
        c = canon(v)
        if c not in self.extra_canon:
            self.extra_canon[c] = -(len(self.extra_canon) + len(self.extra_callables) + 1)
        return self.extra_canon[c]
