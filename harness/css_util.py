"""Shared machinery of the CSS matcher checks (C10, CSS halves of C16 and C17):
observers of the implementation, decoders of the extracted model (coq/run/CssRun.v),
generators that record ground truth, and the property oracles.

Canonical observables (what is compared between implementation and model):
  events    list of (type 0..3, start, end, delimiter)
  match     None | (is_property, start, end, body_start, body_end)
  outward / inward   ('ok', [(a, b), ...]) | ('internal', kind)
  section   None | (start, end, body_start, body_end, [(name, value, tokens, before, after), ...])
  select    None | (start, end, [(a, b), ...])
An exception raised by the implementation is ('internal', kind) with the small
kind enumeration of coq/lib/Base.v (never the message).
"""
import itertools

from common import Reader, enc_str

TY = {'selector': 0, 'propertyName': 1, 'propertyValue': 2, 'blockEnd': 3}
TYN = ['selector', 'propertyName', 'propertyValue', 'blockEnd']
KINDS = {'IndexError': 10, 'TypeError': 11, 'ValueError': 12, 'AttributeError': 14, 'KeyError': 15}
FUNCS = ('match', 'outward', 'inward', 'section', 'next', 'prev')


def _kind(e):
    return KINDS.get(type(e).__name__, 13)


def _r(r):
    return (r[0], r[1])


# ------------------------------------------------------------------ implementation observers
def impl_events(s):
    from emmet.css_matcher import scan
    out = []
    try:
        scan(s, lambda t, a, b, d: out.append((TY.get(t, 9), a, b, d)))
    except Exception as e:  # noqa: BLE001
        return ('internal', _kind(e))
    return ('ok', out)


def impl_split(s, offset=0):
    from emmet.css_matcher import split_value
    try:
        return ('ok', [_r(r) for r in split_value(s, offset)])
    except Exception as e:  # noqa: BLE001
        return ('internal', _kind(e))


def impl_match(s, pos):
    from emmet.css_matcher import match
    try:
        m = match(s, pos)
    except Exception as e:  # noqa: BLE001
        return ('internal', _kind(e))
    if m is None:
        return None
    return (m.type == 'property', m.start, m.end, m.body_start, m.body_end) if m.type in ('property', 'selector') \
        else ('badtype', m.type)


def impl_outward(s, pos):
    from emmet.css_matcher import balanced_outward
    try:
        return ('ok', [_r(r) for r in balanced_outward(s, pos)])
    except Exception as e:  # noqa: BLE001
        return ('internal', _kind(e))


def impl_inward(s, pos):
    from emmet.css_matcher import balanced_inward
    try:
        return ('ok', [_r(r) for r in balanced_inward(s, pos)])
    except Exception as e:  # noqa: BLE001
        return ('internal', _kind(e))


def impl_section(s, pos):
    from emmet.action_utils import get_css_section
    try:
        c = get_css_section(s, pos, True)
        if c is None:
            return None
        props = [(_r(p.name), _r(p.value), [_r(t) for t in p.value_tokens], p.before, p.after)
                 for p in (c.properties or [])]
        return (c.start, c.end, c.body_start, c.body_end, props)
    except Exception as e:  # noqa: BLE001
        return ('internal', _kind(e))


def impl_select(s, pos, prev):
    from emmet.action_utils import select_item_css
    try:
        m = select_item_css(s, pos, prev)
        if m is None:
            return None
        return (m.start, m.end, [_r(r) for r in m.ranges])
    except Exception as e:  # noqa: BLE001
        return ('internal', _kind(e))


IMPL = {
    'match': impl_match, 'outward': impl_outward, 'inward': impl_inward, 'section': impl_section,
    'next': lambda s, p: impl_select(s, p, False), 'prev': lambda s, p: impl_select(s, p, True),
}


def impl_doc(s, funcs=FUNCS, lo=-1, hi=None):
    """events + {func: [result for pos in lo..hi]}"""
    hi = len(s) + 1 if hi is None else hi
    out = {'events': impl_events(s)}
    for f in funcs:
        fn = IMPL[f]
        out[f] = [fn(s, p) for p in range(lo, hi + 1)]
    return out


# ------------------------------------------------------------------ model side
def case_doc(s, lo=-1, hi=None):
    hi = len(s) + 1 if hi is None else hi
    return [8] + enc_str(s) + [lo, hi]


def _dec_ranges(r):
    return [(r.int(), r.int()) for _ in range(r.int())]


def _dec_res_ranges(r):
    tag = r.int()
    if tag == 0:
        return ('ok', _dec_ranges(r))
    if tag == 2:
        return ('internal', r.int())
    if tag == 3:
        return ('fuel',)
    if tag == 1:
        k = r.int()
        r.opt(r.int)
        return ('parse-error', k)
    return ('bad', tag)


def _dec_match(r):
    if not r.int():
        return None
    return (r.bool(), r.int(), r.int(), r.int(), r.int())


def _dec_section(r):
    if not r.int():
        return None
    a, b, ba, bb = r.int(), r.int(), r.int(), r.int()
    props = []
    if r.int():
        for _ in range(r.int()):
            name = (r.int(), r.int())
            value = (r.int(), r.int())
            toks = _dec_ranges(r)
            props.append((name, value, toks, r.int(), r.int()))
    return (a, b, ba, bb, props)


def _dec_item(r):
    if not r.int():
        return None
    return (r.int(), r.int(), _dec_ranges(r))


def decode_doc(w, npos):
    r = Reader(w)
    evs = [(r.int(), r.int(), r.int(), r.int()) for _ in range(r.int())]
    out = {'events': ('ok', evs)}
    for f in FUNCS:
        out[f] = []
    for _ in range(npos):
        out['match'].append(_dec_match(r))
        out['outward'].append(_dec_res_ranges(r))
        out['inward'].append(_dec_res_ranges(r))
        out['section'].append(_dec_section(r))
        out['next'].append(_dec_item(r))
        out['prev'].append(_dec_item(r))
    if not r.done():
        raise RuntimeError('model output not fully consumed')
    return out


def model_docs(model, docs):
    """Run command 8 on every document; returns decoded dicts."""
    outs = model.run([case_doc(s) for s in docs])
    return [decode_doc(w, len(s) + 3) for s, w in zip(docs, outs)]


def model_split(model, values):
    outs = model.run([[5] + enc_str(v) + [0] for v in values])
    res = []
    for w in outs:
        r = Reader(w)
        res.append(('ok', _dec_ranges(r)))
    return res


# ------------------------------------------------------------------ generators with ground truth
SPACE = [' ', ' ', ' ', '\n', '\n  ', '  ', '\t', '\n\n', '\r\n']
COMMENTS = ['/* x */', '/* { : ; } */', '/*{*/', '/*}*/', '/*;*/', '/* a: b; */', '/**/', '/***/', '/* " */',
            "/* ' */", '/* c { d: e; } */', '/* * / */', '/*:*/']
NAMES = ['color', 'margin-top', 'b', 'padding', '$var', '$w', '--custom', '--x-y', 'font', 'background', 'z-index',
         '-webkit-transition', 'a', '*zoom', '_height']
ATOMS = ['10px', 'solid', '#fff', '$var', '-1px', 'no-repeat', '1.5em', '!important', '0', 'auto', 'c', 'x', 'red',
         'calc(100% - 10px)', 'rgba(0, 0, 0, .5)', 'url(data:x)', 'var(--x)', 'url("a;b")', 'map-get($m, a)',
         'translate(1px,2px)', 'a-b', '100%', '.5', "url('}{')", 'fn((a: b))',
         '(small: (min: 0, max: 599px), large: 1200px)', 'grid((cols: 3), $gutter: 10px)', 'f((a), b: c)', '((a: b), (c: d), e: f)']
STR_BITS = ['a', ' ', '{', '}', ';', ':', '(', ')', '/*', '*/', '\\"', "\\'", '\\\\', 'x y', '}{', '//', '\\\n', '-']
SELECTORS = ['@include x((a: 1), $b: 2)', '@media ((min-width: 1px) and (max-width: 2px))', 'a', '.b', '#c', 'ul > li', 'a:hover', 'a::before', '&:hover', '&.sel', '::before', ':root',
             ':not(.a):hover', '@media (min-width: 10px)', '@media screen and (min-width:900px)',
             '@supports (display: grid) and (not (display: inline-grid))', '@font-face', '@include mq($from: mobile)',
             'a, b', 'a:nth-child(2n + 1)', '*', 'h1+h2', '.a-b_c', 'a\\:b', '> li', '+ p', 'div.x:first-child::after',
             '@media (min-width: 10px) and (max-width: 20px)', 'a:hover, b:focus', '&::after', 'li:not(:last-child)',
             '@keyframes k', 'from', '50%', '@media print']


def rnd_string(rng):
    """A quoted string whose body may contain every delimiter, comment markers, the other
    quote, and escape pairs (escaped quotes, escaped backslash, escaped newline)."""
    q = rng.choice('"\'')
    other = "'" if q == '"' else '"'
    bits = STR_BITS + [other]
    return q + ''.join(rng.choice(bits) for _ in range(rng.randint(0, 4))) + q


def rnd_ws(rng, may_empty=True):
    if may_empty and rng.random() < 0.3:
        return ''
    return rng.choice(SPACE)


def rnd_gap(rng, cover=None):
    """White space and comments between items."""
    out = rnd_ws(rng)
    while rng.random() < 0.25:
        out += rng.choice(COMMENTS) + rnd_ws(rng)
        if cover:
            cover('gen:comment-between-items')
    return out


class Out:
    def __init__(self):
        self.parts = []
        self.pos = 0

    def w(self, t):
        self.parts.append(t)
        self.pos += len(t)

    def text(self):
        return ''.join(self.parts)


def gen_selector(rng, o, cover):
    """Writes a selector; returns (start, end) = first character .. end of last token."""
    r = rng.random()
    if r < 0.12:
        sel = 'a[title=%s]' % rnd_string(rng)
        cover('gen:attribute-selector-string')
    elif r < 0.18:
        sel = '@media (min-width: %dpx)' % rng.randint(0, 2000)
    else:
        sel = rng.choice(SELECTORS)
    if sel.startswith('@') and '(' in sel:
        cover('gen:at-rule-paren')
    if ':' in sel and not sel.startswith('@'):
        cover('gen:pseudo-selector')
    if sel.startswith(':'):
        cover('gen:leading-colon-selector')
    start = o.pos
    # a comment between selector tokens (only at a top-level space of the selector)
    if ' ' in sel and '(' not in sel and '[' not in sel and rng.random() < 0.15:
        i = sel.index(' ')
        sel = sel[:i] + ' ' + rng.choice(COMMENTS) + sel[i:]
        cover('gen:comment-in-selector')
    o.w(sel)
    end = o.pos
    if rng.random() < 0.1:
        o.w(rnd_ws(rng) + rng.choice(COMMENTS))
        cover('gen:comment-before-brace')
    return start, end


def gen_value(rng, o, cover):
    """Writes a value; returns (vstart, vend, tokens)."""
    n = 1 if rng.random() < 0.5 else rng.randint(2, 4)
    toks = []
    for i in range(n):
        if i:
            sep = rng.random()
            if sep < 0.6:
                o.w(rng.choice([' ', ' ', '  ', '\n    ']))
            elif sep < 0.75:
                o.w(rng.choice([', ', ',', ' , ']))
            elif sep < 0.82:
                o.w(rng.choice([' / ', '/', ' + ', ' * ', ' - ']))
            else:
                o.w(rng.choice(['', ' ']) + rng.choice(COMMENTS) + rng.choice(['', ' ']))
                cover('gen:comment-in-value')
        a = o.pos
        r = rng.random()
        if r < 0.18:
            o.w(rnd_string(rng))
            cover('gen:string-value')
        elif r < 0.22:
            o.w('url(' + rnd_string(rng) + ')')
            cover('gen:string-value')
        else:
            o.w(rng.choice(ATOMS))
        toks.append([a, o.pos])
    return toks[0][0], toks[-1][1], toks


def gen_decl(rng, o, cover, terminated=True):
    d = {'t': 'decl'}
    name = rng.choice(NAMES)
    if name.startswith('$'):
        cover('gen:scss-variable')
    if name.startswith('--'):
        cover('gen:custom-property')
    d['start'] = o.pos
    o.w(name)
    d['name_end'] = o.pos
    if rng.random() < 0.15:
        o.w(rnd_ws(rng, False))
    if rng.random() < 0.04:
        o.w(rng.choice(COMMENTS))
        cover('gen:comment-before-colon')
    d['colon'] = o.pos
    o.w(':')
    if rng.random() < 0.8:
        o.w(rng.choice([' ', ' ', '  ', '\n    ']))
    if rng.random() < 0.06:
        o.w(rng.choice(COMMENTS) + rng.choice(['', ' ']))
        cover('gen:comment-after-colon')
    d['vstart'], d['vend'], d['tokens'] = gen_value(rng, o, cover)
    if rng.random() < 0.12:
        o.w(rng.choice([' ', '\n']))
    if rng.random() < 0.05:
        o.w(rng.choice(COMMENTS))
        cover('gen:comment-before-semicolon')
    if terminated:
        d['semi'] = o.pos
        o.w(';')
        d['end'] = o.pos
    else:
        d['semi'] = None
        d['end'] = d['vend']
        cover('gen:declaration-terminated-by-body-end')
    return d


def gen_items(rng, o, cover, depth, max_depth, n_max, semis, top):
    items = []
    n = rng.randint(0 if not top else 1, n_max)
    for i in range(n):
        o.w(rnd_gap(rng, cover))
        last = i == n - 1
        if depth < max_depth and rng.random() < (0.75 if top else 0.3):
            items.append(gen_rule(rng, o, cover, depth, max_depth, n_max, semis))
        else:
            term = True
            if not semis and last and not top and rng.random() < 0.5:
                term = False
            items.append(gen_decl(rng, o, cover, term))
    o.w(rnd_gap(rng, cover))
    return items


def gen_rule(rng, o, cover, depth, max_depth, n_max, semis):
    r = {'t': 'rule'}
    r['start'], r['sel_end'] = gen_selector(rng, o, cover)
    o.w(rnd_ws(rng))
    r['brace'] = o.pos
    o.w('{')
    r['children'] = gen_items(rng, o, cover, depth + 1, max_depth, n_max, semis, False)
    r['close'] = o.pos
    o.w('}')
    r['end'] = o.pos
    if depth + 1 > 1:
        cover('gen:nested-rule')
    return r


def gen_sheet(rng, cover=lambda k: None, semis=True, max_depth=3, n_max=4):
    """A random stylesheet and its ground truth.  semis=True: every declaration is
    terminated by `;` (the C10 quantifier); semis=False: the last declaration of a body
    may be terminated by the end of the body (C17)."""
    o = Out()
    items = gen_items(rng, o, cover, 0, max_depth, n_max, semis, True)
    if sum(1 for i in items if i['t'] == 'rule') >= 2:
        cover('gen:several-top-level-rules')
    return o.text(), items


# ------------------------------------------------------------------ ground-truth helpers
def is_space(ch):
    return ch in ' \t\xa0\n\r'


def trim(text, a, b):
    """content range: [a, b) narrowed to its non-blank part; None when blank"""
    while a < b and is_space(text[a]):
        a += 1
    while b > a and is_space(text[b - 1]):
        b -= 1
    return (a, b) if a < b else None


def push(l, r):
    if r is not None and r[0] != r[1] and (not l or l[-1] != tuple(r)):
        l.append(tuple(r))


def postorder(items):
    for n in items:
        if n['t'] == 'rule':
            yield from postorder(n['children'])
        yield n


def preorder(items):
    for n in items:
        yield n
        if n['t'] == 'rule':
            yield from preorder(n['children'])


def enclosing_chain(items, pos):
    """nodes strictly containing pos, outermost first"""
    chain = []
    cur = items
    while True:
        hit = None
        for n in cur:
            if n['start'] < pos < n['end']:
                hit = n
                break
        if hit is None:
            return chain
        chain.append(hit)
        if hit['t'] != 'rule':
            return chain
        cur = hit['children']


# ------------------------------------------------------------------ C10: expected results from the record
def expected_match(items, pos):
    chain = enclosing_chain(items, pos)
    if not chain:
        return None
    n = chain[-1]
    if n['t'] == 'decl':
        return (True, n['start'], n['end'], n['vstart'], n['vend'])
    return (False, n['start'], n['end'], n['brace'] + 1, n['close'])


def expected_outward(text, items, pos):
    out = []
    for n in reversed(enclosing_chain(items, pos)):
        if n['t'] == 'decl':
            push(out, (n['vstart'], n['vend']))
            push(out, (n['start'], n['end']))
        else:
            push(out, trim(text, n['brace'] + 1, n['close']))
            push(out, (n['start'], n['end']))
    return out


def expected_inward(text, items, pos, value_body=False):
    """value_body=False: the body of a first-child declaration reached by descending is the text
    between its colon and its semicolon without surrounding blanks (what the code and upstream
    Emmet report: a comment before the `;` is included); value_body=True: it is the value itself,
    as for a directly hit declaration.  The statement pins neither, both are accepted."""
    for n in postorder(items):
        if n['t'] == 'decl':
            if n['start'] <= pos <= n['vend']:
                out = []
                push(out, (n['start'], n['end']))
                push(out, (n['vstart'], n['vend']))
                return out
        elif n['start'] <= pos <= n['end']:
            out = []
            while n is not None:
                push(out, (n['start'], n['end']))
                if n['t'] == 'rule':
                    push(out, trim(text, n['brace'] + 1, n['close']))
                    n = n['children'][0] if n['children'] else None
                else:
                    # the text between the colon and the semicolon, without surrounding blanks
                    if value_body:
                        push(out, (n['vstart'], n['vend']))
                    else:
                        push(out, trim(text, n['colon'] + 1, n['end'] - 1))
                    n = None
            return out
    return []


def c10_oracle(text, items, pos, got):
    """got: dict func -> canonical result of the implementation at pos.  Returns list of
    (func, description)."""
    bad = []
    exp = expected_match(items, pos)
    if got['match'] != exp:
        bad.append(('match', 'match(pos=%d) = %r, the record says %r' % (pos, got['match'], exp)))
    exp = ('ok', expected_outward(text, items, pos))
    if got['outward'] != exp:
        bad.append(('outward', 'balanced_outward(pos=%d) = %r, the record says %r' % (pos, got['outward'], exp)))
    exp = ('ok', expected_inward(text, items, pos))
    if got['inward'] != exp and got['inward'] != ('ok', expected_inward(text, items, pos, value_body=True)):
        bad.append(('inward', 'balanced_inward(pos=%d) = %r, the record says %r' % (pos, got['inward'], exp)))
    return bad


# ------------------------------------------------------------------ C16: well-formed ranges, no exception
def _wf(a, b, n):
    return isinstance(a, int) and isinstance(b, int) and not isinstance(a, bool) and 0 <= a <= b <= n


def c16_events_oracle(s, evs):
    if evs[0] != 'ok':
        return 'scan raised (kind %s)' % (evs[1],)
    for t, a, b, d in evs[1]:
        if not _wf(a, b, len(s)):
            return 'scan reports %s range (%r, %r), len %d' % (TYN[t] if t < 4 else t, a, b, len(s))
    return None


def c16_ranges_oracle(s, func, res):
    n = len(s)
    if isinstance(res, tuple) and res and res[0] == 'internal':
        return '%s raised (kind %s)' % (func, res[1])
    if func == 'match':
        if res is None:
            return None
        if res[0] == 'badtype':
            return 'match type %r' % (res[1],)
        if not _wf(res[1], res[2], n):
            return 'match range (%r, %r), len %d' % (res[1], res[2], n)
        if not _wf(res[3], res[4], n):
            return 'match body range (%r, %r), len %d' % (res[3], res[4], n)
        return None
    if func in ('outward', 'inward', 'split'):
        for a, b in res[1]:
            if not _wf(a, b, n):
                return '%s range (%r, %r), len %d' % (func, a, b, n)
        return None
    return None


# ------------------------------------------------------------------ C17: expected results from the record
def expected_section(items, pos):
    for n in postorder(items):
        if n['t'] == 'rule' and n['start'] <= pos <= n['end']:
            props = []
            before = n['brace'] + 1
            for c in n['children']:
                if c['t'] == 'decl':
                    after = c['semi'] + 1 if c['semi'] is not None else c['vend']
                    props.append(((c['start'], c['name_end']), (c['vstart'], c['vend']),
                                  [tuple(t) for t in c['tokens']], before, after))
                    before = after
                else:
                    before = c['end']
            return (n['start'], n['end'], n['brace'] + 1, n['close'], props)
    return None


def _decl_ranges(d, end, with_full):
    out = []
    if with_full:
        push(out, (d['start'], end))
    push(out, (d['vstart'], d['vend']))
    for t in d['tokens']:
        push(out, tuple(t))
    return out


def _decl_end(d, brace_variant, parent):
    if d['semi'] is not None:
        return d['end']
    if brace_variant and parent is not None:
        return parent['close'] + 1
    return d['vend']


def parts(items, parent=None):
    """document order list of (start, kind, node, parent): selector / name / value parts"""
    out = []
    for n in items:
        if n['t'] == 'rule':
            out.append((n['start'], 'selector', n, parent))
            out += parts(n['children'], n)
        else:
            out.append((n['start'], 'name', n, parent))
            out.append((n['vstart'], 'value', n, parent))
    return out


def expected_select(items, pos, prev, brace_variant=False):
    ps = parts(items)
    if not prev:
        for start, kind, n, par in ps:
            if start >= pos:
                if kind == 'selector':
                    return (n['start'], n['sel_end'], [(n['start'], n['sel_end'])])
                end = _decl_end(n, brace_variant, par)
                if kind == 'name':
                    return (n['start'], end, _decl_ranges(n, end, True))
                return (n['vstart'], end, _decl_ranges(n, end, False))
        return None
    best = None
    for start, kind, n, par in ps:
        if kind != 'value' and start < pos:
            best = (kind, n, par)
    if best is None:
        return None
    kind, n, par = best
    if kind == 'selector':
        return (n['start'], n['sel_end'], [(n['start'], n['sel_end'])])
    end = _decl_end(n, brace_variant, par)
    return (n['start'], end, _decl_ranges(n, end, True))


KEY_BRACE_DECL = 'css:select-item-brace-terminated-declaration'


def c17_oracle(text, items, pos, got):
    """Returns list of (func, description, known_key_or_None)."""
    bad = []
    exp = expected_section(items, pos)
    if got['section'] != exp:
        bad.append(('section', 'get_css_section(pos=%d, properties=True) = %r, the record says %r'
                    % (pos, got['section'], exp), None))
    for f, prev in (('next', False), ('prev', True)):
        exp = expected_select(items, pos, prev)
        if got[f] != exp:
            key = None
            if got[f] == expected_select(items, pos, prev, True):
                key = KEY_BRACE_DECL
            bad.append((f, 'select_item_css(pos=%d, is_prev=%s) = %r, the record says %r'
                        % (pos, prev, got[f], exp), key))
    return bad


# ------------------------------------------------------------------ malformed streams (C16)
C16_ALPHABET = ['a', ':', ';', '{', '}', '(', ')', ' ', '"', '\\', '/', '*', '-']
MUT_CHARS = C16_ALPHABET + ["'", '\n', ',', '+', '@', '$', '[', ']', '!', '#', '.', '\r', '\t']


def exhaustive(n):
    for k in range(0, n + 1):
        for tup in itertools.product(C16_ALPHABET, repeat=k):
            yield ''.join(tup)


def mutate(rng, s):
    s = list(s)
    for _ in range(rng.randint(1, 4)):
        r = rng.random()
        if not s:
            s.append(rng.choice(MUT_CHARS))
        elif r < 0.35:
            del s[rng.randrange(len(s))]
        elif r < 0.7:
            s.insert(rng.randrange(len(s) + 1), rng.choice(MUT_CHARS))
        elif r < 0.85:
            s[rng.randrange(len(s))] = rng.choice(MUT_CHARS)
        elif r < 0.93:
            del s[rng.randrange(len(s)):]
        else:
            i = rng.randrange(len(s))
            j = min(len(s), i + rng.randint(1, 8))
            del s[i:j]
    return ''.join(s)


def random_string(rng, n):
    return ''.join(rng.choice(MUT_CHARS if rng.random() < 0.5 else C16_ALPHABET) for _ in range(n))


# ------------------------------------------------------------------ comparison helper
def compare(impl, model, funcs, want_events=True):
    """list of (func, index) where the canonical observables differ"""
    dis = []
    if want_events and impl['events'] != model['events']:
        dis.append(('events', None))
    for f in funcs:
        a, b = impl[f], model[f]
        if a != b:
            for i, (x, y) in enumerate(zip(a, b)):
                if x != y:
                    dis.append((f, i))
                    break
    return dis


# ------------------------------------------------------------------ hand-written sheets (corpus, finding witnesses)
def mk_sheet(spec):
    """Builds (text, items) from a nested description, recording the same ground truth as
    the random generator.  spec: list of
        'raw text'                               white space / comments between items
        ('rule', selector, gap, [spec...])       selector text, text between selector and `{`
        ('decl', name, pre, post, [(sep, atom), ...], tail, terminated)
                                                 name, text before `:`, text after `:`,
                                                 value atoms each preceded by sep, text
                                                 before the terminator, `;` present or not
    The selector range ends where its text ends (put trailing comments into `gap`)."""
    o = Out()
    items = _mk_items(o, spec)
    return o.text(), items


def _mk_items(o, spec):
    items = []
    for it in spec:
        if isinstance(it, str):
            o.w(it)
        elif it[0] == 'rule':
            _, sel, gap, children = it
            r = {'t': 'rule', 'start': o.pos}
            o.w(sel)
            r['sel_end'] = o.pos
            o.w(gap)
            r['brace'] = o.pos
            o.w('{')
            r['children'] = _mk_items(o, children)
            r['close'] = o.pos
            o.w('}')
            r['end'] = o.pos
            items.append(r)
        else:
            _, name, pre, post, atoms, tail, term = it
            d = {'t': 'decl', 'start': o.pos}
            o.w(name)
            d['name_end'] = o.pos
            o.w(pre)
            d['colon'] = o.pos
            o.w(':')
            o.w(post)
            toks = []
            for sep, atom in atoms:
                o.w(sep)
                a = o.pos
                o.w(atom)
                toks.append([a, o.pos])
            d['vstart'], d['vend'], d['tokens'] = toks[0][0], toks[-1][1], toks
            o.w(tail)
            if term:
                d['semi'] = o.pos
                o.w(';')
                d['end'] = o.pos
            else:
                d['semi'] = None
                d['end'] = d['vend']
            items.append(d)
    return items


# ------------------------------------------------------------------ running documents through the implementation
def _impl_worker(args):
    s, funcs = args
    return impl_doc(s, funcs)


def impl_docs(texts, funcs, procs=1):
    """impl_doc for every text; in worker processes when procs > 1 (the generation of the
    inputs stays in the parent, so the run is reproducible from the seed)."""
    if procs <= 1 or len(texts) < 8:
        return [impl_doc(s, funcs) for s in texts]
    import multiprocessing
    with multiprocessing.get_context('fork').Pool(procs) as pool:
        return pool.map(_impl_worker, [(s, funcs) for s in texts], chunksize=max(1, len(texts) // (procs * 8)))


def short(s, n=120):
    s = repr(s)
    return s if len(s) <= n else s[:n] + '...'


# a non-terminating implementation call must not block the check (see common.limited)
import common as _common  # noqa: E402
_common.limit_impl(globals(), ['impl_events', 'impl_split', 'impl_match', 'impl_outward', 'impl_inward', 'impl_section', 'impl_select'])
