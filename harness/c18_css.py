"""C18, CSS half -- the stylesheet tokenizer is lossless in property and in value mode.

`run_css(ctx)` is called by harness/props/c18.py (after the markup half);
`replay_css(ctx, obj)` replays one replay file of component 'css'.
"""
import itertools
import math
from fractions import Fraction

from common import enc_str, Reader

CSS_ALPHABET = list('atA10$#.+(){}"\'/-:!,@%_ *fe[') + ['٣', '\n', 'é', '=', 'x', '\\', '²']
FRAGS = ['${', '${1', '${1:', '${a', '}', '{', '(', ')', '#', '#f', '#fc0', '#t', '#f.5', '#.', '.5', '1.', '-1', '--', '--a-b',
         '-', '10', '0', 'px', 'p', 'e', '%', '!', ',', ':', '+', ' ', '"', "'", 'ab', 'lg', '@', '$a', '@a-b', 'a-b', '/', '.a',
         'scale3d', 'rgb', '1e3', '٣', '#٣', '*', '\n', '\t', '1-2', '#0-', '10-']


def canon_float(v):
    """Sign and exact value of a Python number, as text (floats are compared exactly: float(raw) is
    correctly rounded, so the model's exact decimal rounded the same way must give the same double)."""
    v = float(v)
    return (math.copysign(1.0, v) < 0, abs(v).hex())


def canon_dec(neg, mant, exp):
    try:
        f = float(Fraction(mant, 10 ** exp))
    except OverflowError:
        f = float('inf')
    return (bool(neg), f.hex())


def impl_css(s, is_value):
    """Canonical observable of emmet.css_abbreviation.tokenizer.tokenize."""
    from emmet.css_abbreviation.tokenizer import tokenize
    from emmet.scanner import ScannerException
    try:
        toks = tokenize(s, is_value)
    except ScannerException as e:
        return ('err', e.pos)
    except Exception as e:  # internal error: never equal to a model result
        return ('internal', type(e).__name__)
    return ('ok', canon_css_tokens(toks))


def canon_css_tokens(toks):
    """Canonical [(kind, start, end)] of a list of stylesheet token objects."""
    out = []
    for t in toks:
        ty = t.type
        if ty == 'Literal':
            k = ('Literal', t.value)
        elif ty == 'CustomProperty':
            k = ('CustomProperty', t.value)
        elif ty == 'NumberValue':
            k = ('NumberValue', canon_float(t.value), t.raw_value, t.unit)
        elif ty == 'ColorValue':
            k = ('ColorValue', t.r, t.g, t.b, canon_float(t.a), t.raw)
        elif ty == 'StringValue':
            k = ('StringValue', t.value, t.quote == 'single')
        elif ty == 'Field':
            k = ('Field', t.name, t.index)
        elif ty == 'Bracket':
            k = ('Bracket', bool(t.open))
        elif ty == 'Operator':
            k = ('Operator', t.operator)
        elif ty == 'WhiteSpace':
            k = ('WhiteSpace',)
        else:
            k = ('?', ty)
        out.append((k, t.start, t.end))
    return out


def read_dec(r):
    neg = r.bool()
    mant = int(r.str())
    exp = r.int()
    return canon_dec(neg, mant, exp)


def read_ckind(r):
    kt = r.int()
    if kt == 0:
        return ('Literal', r.str())
    if kt == 1:
        return ('CustomProperty', r.str())
    if kt == 2:
        return ('NumberValue', read_dec(r), r.str(), r.str())
    if kt == 3:
        return ('ColorValue', r.int(), r.int(), r.int(), read_dec(r), r.str())
    if kt == 4:
        return ('StringValue', r.str(), r.bool())
    if kt == 5:
        return ('Field', r.str(), r.opt(r.int))
    if kt == 6:
        return ('Bracket', r.bool())
    if kt == 7:
        return ('Operator', chr(r.int()))
    if kt == 8:
        return ('WhiteSpace',)
    return ('?', kt)


def decode_css(w):
    r = Reader(w)
    tag = r.int()
    if tag == 1:
        return ('err', r.int())
    if tag == 2:
        return ('internal', 'model:%d' % r.int())
    if tag != 0:
        return ('bad', w)
    out = []
    for _ in range(r.int()):
        k = read_ckind(r)
        out.append((k, r.int(), r.int()))
    return ('ok', out)


def tiling_oracle(s, res):
    """The property itself, on an implementation result. Returns None or a description."""
    if res[0] == 'internal':
        return 'tokenizer raised %s' % res[1]
    if res[0] == 'err':
        p = res[1]
        if not isinstance(p, int) or isinstance(p, bool) or p < 0 or p > len(s):
            return 'scanner error position %r outside input of length %d' % (p, len(s))
        return None
    pos = 0
    for k, a, b in res[1]:
        if a is None or b is None:
            return 'token %r has undefined span (%r, %r)' % (k, a, b)
        if a != pos:
            return 'token %r starts at %r, expected %d (gap or overlap)' % (k, a, pos)
        if b <= a:
            return 'token %r has empty span (%r, %r)' % (k, a, b)
        pos = b
    if pos != len(s):
        return 'tokens end at %d, input length %d' % (pos, len(s))
    return None


def corpus_css(ctx):
    import glob
    import json
    import os
    from common import VERIF
    out = []
    for p in sorted(glob.glob(os.path.join(VERIF, 'corpus', 'C18', '*.json'))):
        try:
            with open(p) as f:
                o = json.load(f)
        except Exception:
            continue
        if o.get('component') == 'css' and isinstance(o.get('input'), str):
            out.append((o['input'], bool(o.get('is_value', False))))
    return out


def gen_css(ctx, tier):
    cases = corpus_css(ctx)
    seeds = ['', '--foo', '--', '--foo-bar10', 'p--foo', '1--a', '#', '#-', '#f-', '#t', '#t.5', '#.', '#.5', '#fff.', '#a0b1c2d3',
             'p10', 'p-10', 'p10-20', 'p10--20', 'p1.', 'p.5', 'p.', '.', '-.', '-', '1.5e', '10%', '10p-', 'lg(to right, #0, #f00.5)',
             'scale3d(', '10(', 'a10b(', 'a+10(', ')', '())', '(()', '"ab', "'a'b", '${', '${1', '${1:', '${1:a{b}', '${1:a{b}}', '${a{',
             '${}', '${a}', '${1}a', '$a-b', '@a-b', 'a@b-c', '$', '@', 'a b', ' ', 'a\tb', 'a!', '!', 'a,b', 'c#f.5!', '٣', '#٣', '${٣}',
             'a*', '[', '1/2', 'a/b%', '%', '_a-', 'bd1-s#fc0', 'm0-a', '#fc0-0-0', '1-2-3', '-1-2', '1.-2', '#f(', 'a(b(c', 'a((', '1 (']
    for s in seeds:
        cases.append((s, False))
        cases.append((s, True))
    n_ex = 3 if tier == 'quick' else 4
    ex_alpha = CSS_ALPHABET[:22] if tier == 'quick' else CSS_ALPHABET[:25]
    for n in range(1, n_ex + 1):
        for tup in itertools.product(ex_alpha, repeat=n):
            s = ''.join(tup)
            cases.append((s, False))
            cases.append((s, True))
    n_rand = 8000 if tier == 'quick' else 150000
    rng = ctx.rng
    for _ in range(n_rand):
        if rng.random() < 0.4:
            ln = rng.randint(1, 60 if tier == 'thorough' else 30)
            s = ''.join(rng.choice(CSS_ALPHABET) for _ in range(ln))
        else:
            s = ''.join(rng.choice(FRAGS) for _ in range(rng.randint(1, 12)))
        cases.append((s, rng.random() < 0.5))
    return cases, len(ex_alpha), n_ex


def run_css(ctx, built=None):
    """CSS half of C18.  `built`: result of the caller's ctx.build (None = build here)."""
    ok = ctx.build(['props/C18Css.vo', 'run/StyleRun.vo'])
    if ok:
        ctx.obligations('props/C18Css.v')
    model = ctx.model('style') if ok else None
    cases, nalpha, n_ex = gen_css(ctx, ctx.tier)
    # white space / line-break conventions in every position (c18_ws.py): same oracle, same correspondence
    import c18_ws
    n_base = len(cases)
    cases = cases + c18_ws.gen_css_ws(ctx, ctx.tier, CSS_ALPHABET, FRAGS)
    ctx.cov.setdefault('white_space_class', {})['css_inputs'] = len(cases) - n_base
    rule = ('css: corpus + exhaustive strings up to length %d over a %d-character alphabet, in property and in value mode, '
            '+ random strings/fragment mixes; non-trivial = tokenizes into >=2 tokens or raises the scanner error; distinct by '
            '(input, mode)') % (n_ex, nalpha)
    ctx.cov['rule'] = (ctx.cov.get('rule') + ' || ' if ctx.cov.get('rule') else '') + rule
    impl = [impl_css(s, v) for s, v in cases]
    import c18_seq
    reporter = c18_seq.StreamReporter(ctx, 'css')   # re-runs the first failures alone in a fresh interpreter
    for j, ((s, v), r) in enumerate(zip(cases, impl)):
        ctx.count_eval()
        bad = tiling_oracle(s, r)
        if bad:
            reporter.report(cases, j, 'css:%s:%s' % ('value' if v else 'property', s),
                            'css tokenize(%r, is_value=%r): %s' % (s, v, bad),
                            {'component': 'css', 'input': s, 'is_value': v, 'impl': repr(r), 'why': bad})
        if r[0] == 'err':
            ctx.cover('css:scanner-error')
            ctx.nontrivial(('c', s, v))
        elif r[0] == 'ok':
            ctx.cover('css:ok:' + ('value' if v else 'property'))
            if len(r[1]) >= 2:
                ctx.nontrivial(('c', s, v))
            for k, _, _ in r[1]:
                ctx.cover('css:token:' + k[0])
        if j >= n_base:
            for b in c18_ws.classify(s):
                ctx.cover('css:ws:%s:%s' % (b, r[0]))
    reporter.finish()
    for (s, v), r in list(zip(cases, impl))[60:64]:
        ctx.sample({'component': 'css', 'input': s, 'is_value': v, 'impl': repr(r)[:200]})
    if model is not None:
        outs = model.run([[1, 1 if v else 0] + enc_str(s) for s, v in cases])
        dis = 0
        for (s, v), r, w in zip(cases, impl, outs):
            m = decode_css(w)
            if m != r:
                dis += 1
                if dis <= 5:
                    ctx.say('DISAGREE css tokenize %r value=%r\n  impl  %r\n  model %r' % (s, v, r, m))
                    if not tiling_oracle(s, r):
                        ctx.broken.append({'kind': 'correspondence', 'file': 'css-tokenizer', 'input': s, 'is_value': v,
                                           'impl': repr(r)[:300], 'model': repr(m)[:300]})
        ctx.cov['correspondence']['css_tokenizer'] = {'cases': len(cases), 'disagreements': dis}


def replay_css(ctx, obj):
    rp = obj.get('replay', obj)
    s = rp.get('input')
    if s is None:
        print('replay names a broken obligation, no input: %s' % rp)
        return 1
    v = bool(rp.get('is_value', False))
    r = impl_css(s, v)
    bad = tiling_oracle(s, r)
    print('css input %r value=%r -> %r : %s' % (s, v, r, bad or 'property holds'))
    return 1 if bad else 0
