"""C07, markup part -- expand() fails only with its two parse errors, position inside the input.

`run_markup(ctx)` / `replay_markup(ctx, obj)` are called by harness/props/c07.py.

Layers:
  * PROPERTY ORACLE on the implementation (independent of the model): the outcome of the real
    emmet.expand must be a string, or ScannerException / TokenScannerException whose .pos is None or
    0 <= pos <= len(input).  Anything else (TypeError, IndexError, ValueError, KeyError, AttributeError,
    bare Exception, RecursionError, no answer within 5 s) is a property failure with that input as replay.
    With a USER snippet table the position of a parse error may refer to the text of a (malformed) user
    snippet -- the library parses the snippet as an abbreviation of its own and reports the position in it;
    the statement speaks about "the input", which then is that snippet text: allowed 0 <= pos <= len(snippet).
    Counted separately in the evidence (`pos-in-user-snippet`).
  * CORRESPONDENCE: outcome class of the extracted Coq model `expand_markup_str` (Ok | ParseErr kind pos |
    Internal | OutOfFuel) == outcome class of the implementation (incl. error kind and position) on every case
    the model covers (BEM, markup.href and lorem configurations included), and the output TEXT is equal as well.
  * markup.href (coq/model/MarkupHref.v, insert_href in coq/model/MarkupConvert.v): harness/href_util.py compares the
    matchers with the compiled regex objects, insert_href with the real one, and the FULL expand() output / callback
    events on URL / e-mail like wrap texts.
  * BEM addon (coq/model/MarkupBem.v): harness/bem_util.py compares the FULL expand() output of model and
    implementation on exhaustive class-name strings over nested elements, with/without context, custom separators.
  * deep-nesting probe (fresh interpreter, default recursion limit): the two inputs of DESIGN §5 C07.
"""
import copy
import glob
import itertools
import json
import os
import re
import subprocess
import sys

import common
import abbr_gen as g
from common import enc_str
from markup_util import enc_config, NotModelled, decode_expand, mentions_lorem, canon_cfg

ALPHABET = list('aA1$#.*>+^()[]{}="\'/\\-') + [' ']          # the 23 characters of the statement
assert len(ALPHABET) == 23
RANDOM_EXTRA = ['\n', '\t', 'é', '٣', ':', '!', '@', '%', '|', ',', '0', 'l', 'x', '_', '²', ' ']
HANG_S = 5.0
NUM_FRAGS = ['$', '$$', '$$$', '@', '@-', '@^', '@^^', '^', '^^', '-', '3', '12', '0', '*', '*2', '*3', '*0', 'a', 'li', '.c', '#i', '>', '+',
             '(', ')', '{', '}', '[t=', ']', '$#', '${1}', '${', '-1', '-', '/', 'ul>li', '.i$@^', '{$@^^^}', '$@^^-2']

SYNTAXES = ['html', 'xml', 'xsl', 'jsx', 'js', 'pug', 'slim', 'haml', 'vue', 'svelte', 'xhtml']
TEXTS = [None, None, None, 'hello', 'two\nlines', '  ', '', ['x'], ['x', 'y', 'z'], ['', ' ', 'q'], [], 'a$#b',
         '${1:f}', ['$#', '\\', '{}'], 'http://e.com', 'www.e.com', 'a@b.cc', ['  pad  ', '\t', 'k'], '\n', ['\n']]
OPTION_FRAGMENTS = [
    {'comment.enabled': True},
    {'comment.enabled': True, 'comment.before': '<!-- [#ID] -->\n', 'comment.trigger': ['id', 'class', 'title']},
    {'comment.enabled': True, 'comment.after': '[ x=TITLE]', 'comment.trigger': []},
    {'jsx.enabled': True},
    {'bem.enabled': True},
    {'bem.enabled': True, 'bem.element': '-', 'bem.modifier': '--'},
    {'bem.enabled': True, 'bem.element': '', 'bem.modifier': ''},
    {'output.format': False},
    {'output.selfClosingStyle': 'xhtml'},
    {'output.selfClosingStyle': 'xml'},
    {'output.compactBoolean': True},
    {'output.reverseAttributes': True},
    {'markup.href': False},
    {'output.tagCase': 'upper', 'output.attributeCase': 'upper'},
    {'output.tagCase': 'lower'},
    {'output.attributeQuotes': 'single'},
    {'output.inlineBreak': 0},
    {'output.inlineBreak': 1},
    {'output.formatLeafNode': True},
    {'output.indent': '  ', 'output.baseIndent': '    ', 'output.newline': '\r\n'},
    {'markup.attributes': {'class': 'className', 'for': 'htmlFor'}, 'markup.valuePrefix': {'class*': 'styles'}},
    {'output.formatSkip': [], 'output.formatForce': ['div']},
    {'inlineElements': []},
]
CONTEXTS = [None, None, None, {'name': 'ul'}, {'name': 'span'}, {'name': 'TABLE'}, {'name': ''}, {'name': 'x', 'attributes': {'a': 'b'}},
            {'name': 'div', 'attributes': {'class': 'blk blk_m'}}, {'attributes': {'class': 'b'}}, {}]
MAX_REPEATS = [None, None, None, 0, 1, 2, 5, 1000]
USER_SNIPPETS = [
    None, None, None,
    {'foo': 'a+b', 'bar': 'foo>c', 'self': 'self.x'},
    {'x': 'y', 'y': 'x', 'z': 'z>z'},
    {'txt': '{text}', 'grp': '(a>b)*2+c', 'rp': 'li*3>{$#}', 'dv': 'div[title=${1:t}]/'},
    {'div': 'section.d', 'a': 'a', 'p': ''},
]
# malformed user snippets: the parse error then refers to the snippet text (see module docstring)
BAD_USER_SNIPPETS = [
    {'bad': 'aaaaaaaaaaaa[${'},
    {'bad': 'ul>li[title="', 'ok': 'p'},
    {'deep': 'bad2', 'bad2': 'aaaaaaaaaaaaaaaaaaaa{${1:'},
]
VARIABLES = [None, None, {'lang': 'ru', 'foo': 'FOO'}, {'charset': ''}, {}]

VALID = [
    'div', 'ul>li*3', 'ul>li.item$*3', 'a+b+c', 'a>b^c', 'a>b>c^^d', '(a>b)+c', '(a+b)*2>c', 'ul>(li>a)*2', 'div#id.c1.c2',
    'a[href=x title="y z"]', "a[title='q']", 'input[disabled.]', 'a[!href]', 'p{text}', 'p{a $# b}', 'p>{t}+b', 'li*>a',
    'li*', 'ul>li*>{item $#}', 'a[href=${1:url}]{${2:text}}', 'div{${0}}', 'h$[title=item$@3]{h $$@-}*4', 'ul>li.i$@^*2*2',
    'br/', 'img[src]/', 'div>br/+p', 'A.B', 'Foo.Bar>baz', 'div.{cls}', 'div#{id}', 'input:text', 'btn:s', 'html:5', '!',
    'link:css', 'ol>li.a$$$*3', 'x-y:z', 'ns:el', 'table>.row>.col', 'em>.c', 'select>opt', '.c', '#i', '[a=b]', '{t}',
    '{t}*2', '(a)', '((a))', '(a)(b)', 'a{b}{c}', 'a[b=c d]', 'a[b={c}]', 'a[{b}]', 'a["b"]', "a['b' c]", 'a[b.]', 'a[b. c.]',
    'ul>li{${foo}}', 'a{${lang}}', 'p{\\$#}', 'p{a\\{b}', 'a\\>b', 'div>p*2>{$# $}', 'label>input', 'label[for]>input[id]',
    'cc:ie', 'a:link', 'div*0', 'div*1', 'p*2>span*2', 'ul>li*2>a{$}', 'div..a', 'div##a', 'a[b=1/2]', '1/2', 'a1/2',
    'a$@^^*2', 'ul*2>li.i$@^^^^*2', '$@^^^', 'a{$@^^^}*2', 'p[t=$$@^^-3]*2', '(a$@^^)*2', 'lorem5-1', 'lorem10-2*2',
    'div>ul>li*2^^p', 'a^b', 'a^^^^b', '+a', 'a+', 'a>', 'a^', 'a/', 'a*', 'a*3*2',
    'div#i["q"]', "p.c['q' x]", 'a#i[{e}]', 'div#i.c[title=t "q" x. !y]{txt}', 'p.c[a={b} c="d e"]',
    'ul#nav>li.item$*2>a[href=#]{$#}', 'label.c>input#i', 'label[for]>textarea[id]', 'div.b>.-e>._m', 'div.b_m>.b__e', 'xsl:variable[select=x]>p',
    'xsl:with-param[select]{t}', 'vare>x', 'lorem', 'lorem5*2', 'ul>lorem3*2', 'p>lorem2-4', '.c*2>lorem1',
]
# the inputs of every repaired defect (kept as corpus/C07/*.json as well)
SEEDS = [('{*', {}), ('a{*}', {}), ('a[b="*3"]', {}), ('$#', {}), ('p{$#}', {}), ('[${1}', {}), ('a[${1}=x]', {}), ('[.', {}),
         ('a[.]', {}), ('\\', {'syntax': 'jsx'}), ('\\', {'options': {'jsx.enabled': True}}), ('lorem-', {}), ('lorem5-', {}),
         ('', {'text': 'hello'}), ('', {'text': ['a', 'b']}), ('()*', {}), ('()*', {'text': ['a', 'b']}), ('a{${foo}}', {}),
         ('a{${foo}}', {'variables': {'x': 'y'}}), ('a[${foo}]', {}), ('(', {}), (')', {}), ('()', {}), ('a[', {}), ('a{', {}),
         ('a"', {}), ('[a="', {}), ('${', {}), ('a{${', {}), ('a[${1:', {}), ('a*2>$#', {'text': ['x', 'y']}),
         ('li*>$#', {'text': ['x', '', 'y']}), ('*', {}), ('*3', {}), ('a**', {}), ('(a)*', {'text': []}), ('li*', {'text': []}),
         ('li*>{$#}', {'text': ['   ']}), ('$#*', {'text': ['x', 'y']}), ('{$#}*2', {'text': ['x']}), ('a>{$#}*', {'text': 'qq'})]


class Hang(Exception):
    pass


# ---------------------------------------------------------------- implementation side (worker processes)
_CFGS = []


def classify(e):
    from emmet.scanner import ScannerException
    from emmet.token_scanner import TokenScannerException
    if isinstance(e, ScannerException):
        return ('err', 1, getattr(e, 'pos', 'no-pos-attribute'))
    if isinstance(e, TokenScannerException):
        return ('err', 2, getattr(e, 'pos', 'no-pos-attribute'))
    if isinstance(e, RecursionError):
        return ('recursion',)
    return ('internal', type(e).__name__)


def outcome(abbr, cfg):
    """Canonical outcome of the real emmet.expand(abbr, cfg) under a 5 s alarm."""
    import signal
    from emmet import expand

    def on_alarm(sig, frm):
        raise Hang()
    # CPU time of this process (ITIMER_PROF), not wall time: independent of the load of the machine
    import lorem_oracle as lo
    old = signal.signal(signal.SIGPROF, on_alarm)
    signal.setitimer(signal.ITIMER_PROF, HANG_S)
    try:
        # lorem text under the deterministic oracle of this case (harness/lorem_oracle.py): the model gets the same draws
        with lo.patched(lo.Oracle(lo.seed_of(abbr, cfg))):
            out = expand(abbr, copy.deepcopy(cfg))
        r = ('ok', out) if isinstance(out, str) else ('notstr', type(out).__name__)
    except Hang:
        r = ('hang',)
    except lo.OracleLimit:
        r = ('oracle-limit',)               # more lorem words than the draw limit (300000 draws): not a question of safety
    except Exception as e:  # noqa
        r = classify(e)
    finally:
        signal.setitimer(signal.ITIMER_PROF, 0)
        signal.signal(signal.SIGPROF, old)
    return r


def _init_worker():
    sys.setrecursionlimit(1000)      # CPython's default: what a user of the library gets


def _chunk(cases):
    return [outcome(a, _CFGS[ci]) for a, ci in cases]


def impl_many(cases, cfgs, procs=None):
    """cases: list of (abbr, cfg_index).  Order preserved."""
    global _CFGS
    _CFGS = cfgs
    cases = list(cases)
    if len(cases) < 1500:
        lim = sys.getrecursionlimit()
        sys.setrecursionlimit(1000)
        try:
            return _chunk(cases)
        finally:
            sys.setrecursionlimit(lim)
    import multiprocessing
    procs = procs or common.NPROC
    size = max(300, min(4000, (len(cases) + procs * 4 - 1) // (procs * 4)))
    chunks = [cases[i:i + size] for i in range(0, len(cases), size)]
    with multiprocessing.get_context('fork').Pool(procs, initializer=_init_worker) as pool:
        outs = pool.map(_chunk, chunks)
    return [x for o in outs for x in o]


# ---------------------------------------------------------------- bridge invariant on the real tokenizer
LITLIKE = ('Literal', 'WhiteSpace', 'RepeaterNumber', 'RepeaterPlaceholder', 'Field')
KNOWN_OPS = ('child', 'sibling', 'climb', 'class', 'id', 'close', 'equal')


def impl_tokens_accepted(s):
    """The mode automaton of coq/proofs/SafeBridge.v (W MPlain) on the tokens of the REAL tokenizer: theorem
    C07_tokenizer_output_wellformed says every tokenizer output is accepted.  None | description."""
    from emmet.abbreviation.tokenizer import tokenize
    try:
        toks = tokenize(s)
    except Exception:
        return None
    mode = ('plain',)
    for i, t in enumerate(toks):
        ty = t.type
        if mode[0] == 'plain':
            if ty == 'Operator' and t.operator not in KNOWN_OPS:
                return 'token %d: operator %r outside the table' % (i, t.operator)
            if ty == 'Quote':
                mode = ('quote', bool(t.single))
            elif ty == 'Bracket' and t.open and t.context == 'expression':
                mode = ('expr',)
        elif mode[0] == 'quote':
            if ty == 'Quote':
                if bool(t.single) != mode[1]:
                    return 'token %d: quote of the other kind emitted inside quotes' % i
                mode = ('plain',)
            elif ty not in LITLIKE:
                return 'token %d: %s token inside quotes' % (i, ty)
        else:
            if ty == 'Bracket' and not t.open and t.context == 'expression':
                mode = ('plain',)
            elif ty not in LITLIKE:
                return 'token %d: %s token inside text braces' % (i, ty)
    return None


def _acc_chunk(strings):
    return [impl_tokens_accepted(s) for s in strings]


def check_bridge_invariant(ctx, strings):
    strings = list(strings)
    if len(strings) > 20000:
        import multiprocessing
        size = 5000
        chunks = [strings[i:i + size] for i in range(0, len(strings), size)]
        with multiprocessing.get_context('fork').Pool(common.NPROC) as pool:
            res = [x for o in pool.map(_acc_chunk, chunks) for x in o]
    else:
        res = _acc_chunk(strings)
    bad = 0
    for s, r in zip(strings, res):
        if r:
            bad += 1
            if bad <= 3:
                ctx.say('BRIDGE INVARIANT fails on the real tokenizer for %r: %s' % (s, r))
                ctx.broken.append({'kind': 'correspondence', 'file': 'tokenizer-output-accepted-by-mode-automaton',
                                   'input': s, 'detail': r})
    ctx.cov['correspondence']['tokenizer_output_accepted_by_mode_automaton(W MPlain) on the implementation'] = {
        'cases': len(strings), 'disagreements': bad}


# ---------------------------------------------------------------- the property oracle
def user_snippet_lengths(cfg):
    sn = cfg.get('snippets') or {}
    return [len(v) for v in sn.values() if isinstance(v, str)]


def oracle(abbr, cfg, r):
    """The C07 statement on one implementation outcome: None or a description of the failure."""
    if r[0] in ('ok', 'oracle-limit'):
        return None
    if r[0] == 'notstr':
        return 'expand returned a %s, not a string' % r[1]
    if r[0] == 'err':
        p = r[2]
        if p is None:
            return None
        name = 'ScannerException' if r[1] == 1 else 'TokenScannerException'
        if not isinstance(p, int) or isinstance(p, bool):
            return '%s.pos is %r, not an int or None' % (name, p)
        if 0 <= p <= len(abbr):
            return None
        if p >= 0 and any(p <= n for n in user_snippet_lengths(cfg)):
            return None                      # position inside a (malformed) user snippet: see module docstring
        return '%s position %r outside the input of length %d' % (name, p, len(abbr))
    if r[0] == 'hang':
        return 'expand did not return within %g s' % HANG_S
    if r[0] == 'recursion':
        return 'expand raised RecursionError (nesting far below the documented deep-nesting finding)'
    return 'expand raised %s (not one of the two parse errors)' % r[1]


def _cased_non_ascii(x):
    return isinstance(x, str) and any(ord(c) > 127 and c.lower() != c.upper() for c in x)


def case_mapping_outside_model(abbr, cfg):
    """output.tagCase / output.attributeCase applied to a cased non-ASCII letter: str.upper()/lower() of the
    implementation is Unicode-aware, the model's is exact on ASCII only (stated limit, DESIGN section 2)."""
    o = cfg.get('options') or {}
    if not (o.get('output.tagCase') or o.get('output.attributeCase')):
        return False
    parts = [abbr] + list((cfg.get('snippets') or {}).values()) + list((cfg.get('variables') or {}).values())
    t = cfg.get('text')
    parts += t if isinstance(t, list) else [t]
    return any(_cased_non_ascii(x) for x in parts)


def klass(r):
    """outcome class: the observable compared with the model."""
    return ('ok',) if r[0] == 'ok' else tuple(r)


# ---------------------------------------------------------------- generators
def corpus(ctx):
    out = []
    for p in sorted(glob.glob(os.path.join(common.VERIF, 'corpus', 'C07', 'markup-*.json'))):
        try:
            with open(p) as f:
                o = json.load(f)
        except Exception:
            continue
        if isinstance(o.get('abbr'), str):
            out.append((o['abbr'], o.get('config') or {}))
    return out


def mutate(rng, s, alphabet):
    for _ in range(rng.randint(1, 3)):
        k = rng.random()
        i = rng.randint(0, len(s))
        if k < 0.3 and s:                                   # delete
            i = min(i, len(s) - 1)
            s = s[:i] + s[i + 1:]
        elif k < 0.6:                                       # insert
            s = s[:i] + rng.choice(alphabet) + s[i:]
        elif k < 0.8 and len(s) > 1:                        # swap neighbours
            i = min(i, len(s) - 2)
            s = s[:i] + s[i + 1] + s[i] + s[i + 2:]
        else:                                               # duplicate a slice
            j = rng.randint(0, len(s))
            s = s[:i] + s[min(i, j):max(i, j)] + s[i:]
    return s[:90]


ATTR_POOL = ['t=v', 'title="a b"', "d='x'", '"q"', "'s'", 'x.', '!y', 'z={e}', '{e}', 'k=${1:p}', 'href', 'data-a=$', 'for',
             'id', 'class=k', 'id=j', 'select=s', 'n=1/2', 'm="$#"', 'v=${foo}']


def rand_valid(rng, names):
    """A valid abbreviation: abbr_gen statement whose elements carry independent random decorations
    (id, classes, 1-3 attributes of every shape incl. nameless quoted / boolean / implied / expression, text, '/')."""
    def decorate(r, el):
        if r.random() < 0.25:
            el.classes = [r.choice(['k', 'c$', 'a-b', 'b_e', 'b__e_m'])] + (['z'] if r.random() < 0.3 else [])
            if r.random() < 0.3:
                el.name = None
        if r.random() < 0.2:
            el.id = r.choice(['z', 'i$$'])
        if r.random() < 0.3:
            el.attrs = [(r.choice(ATTR_POOL), None, '') for _ in range(r.randint(1, 3))]
        if r.random() < 0.2:
            el.text = r.choice(['t', 'a $# b', '${1:x}', '$', 'x y', '${foo}', 'http://e.com'])
        if r.random() < 0.07:
            el.self_close = True
        if r.random() < 0.05:
            el.name = r.choice(['label', 'input', 'lorem4', 'xsl:variable', 'a', 'Foo'])
    st = g.rand_stmt(rng, names, rng.randint(1, 12), max_depth=3, decorate=decorate)
    return g.render(st)


def random_cfg(rng):
    cfg = {}
    if rng.random() < 0.7:
        cfg['syntax'] = rng.choice(SYNTAXES)
    t = rng.choice(TEXTS)
    if t is not None:
        cfg['text'] = copy.deepcopy(t)
    opts = {}
    for _ in range(rng.choice([0, 0, 1, 1, 2, 3])):
        opts.update(copy.deepcopy(rng.choice(OPTION_FRAGMENTS)))
    if opts:
        cfg['options'] = opts
    c = rng.choice(CONTEXTS)
    if c is not None:
        cfg['context'] = copy.deepcopy(c)
    m = rng.choice(MAX_REPEATS)
    if m is not None:
        cfg[rng.choice(['maxRepeat', 'max_repeat'])] = m
    s = rng.choice(USER_SNIPPETS + ([rng.choice(BAD_USER_SNIPPETS)] if rng.random() < 0.15 else []))
    if s is not None:
        cfg['snippets'] = dict(s)
    v = rng.choice(VARIABLES)
    if v is not None:
        cfg['variables'] = dict(v)
    return cfg


RE_REPEAT = re.compile(r'\*(\d+)')
MAX_COPIES = 400


def repeat_product(abbr):
    """Upper bound of the number of copies an abbreviation asks for (product of all *N counts)."""
    prod = 1
    for m in RE_REPEAT.finditer(abbr):
        try:
            prod *= max(1, int(m.group(1)))
        except ValueError:
            prod *= 10 ** len(m.group(1))
        if prod > 10 ** 9:
            break
    return prod


def bound_copies(abbr, cfg):
    """Generators keep the amount of requested OUTPUT bounded (like nesting depth): the formatter is quadratic in the
    number of siblings, `a*3232` needs ~8 s, which is slow, not a hang.  Inputs asking for more than MAX_COPIES copies
    are run under maxRepeat=200 (the library's own limit option), so the input text itself stays unrestricted."""
    if repeat_product(abbr) > MAX_COPIES:
        m = cfg.get('maxRepeat')
        if not (isinstance(m, int) and 0 < m <= 200):
            cfg = dict(cfg, maxRepeat=200)
    return cfg


class Cases:
    """cases as (abbr, cfg index, tag) with a configuration table (configs deduplicated by canonical JSON)."""

    def __init__(self):
        self.cfgs = []
        self.index = {}
        self.items = []

    def cfg_id(self, cfg):
        k = canon_cfg(cfg)
        if k not in self.index:
            self.index[k] = len(self.cfgs)
            self.cfgs.append(cfg)
        return self.index[k]

    def add(self, abbr, cfg, tag):
        self.items.append((abbr, self.cfg_id(bound_copies(abbr, cfg)), tag))


def gen(ctx):
    rng = ctx.rng
    quick = ctx.tier == 'quick'
    cs = Cases()
    # (0) corpus of past failures and the seeds of every repaired defect
    for abbr, cfg in corpus(ctx):
        cs.add(abbr, cfg, 'corpus')
    for abbr, cfg in SEEDS:
        cs.add(abbr, cfg, 'corpus')
    # (1) exhaustive short strings, html and jsx
    n_ex = 3 if quick else 4
    sweep_cfgs = [({}, 'html'), ({'syntax': 'jsx'}, 'jsx')]
    for cfg, name in sweep_cfgs:
        cs.add('', cfg, 'exhaustive:' + name)
        for n in range(1, n_ex + 1):
            for tup in itertools.product(ALPHABET, repeat=n):
                cs.add(''.join(tup), cfg, 'exhaustive:' + name)
    # exhaustive length <= 2 under wrap text / comments / every other syntax (cheap, catches option-specific guards)
    side_cfgs = [{'text': 'hello'}, {'text': ['x', 'y']}, {'options': {'comment.enabled': True}},
                 {'options': {'bem.enabled': True}}, {'context': {'name': 'ul'}}, {'maxRepeat': 1}] + \
                [{'syntax': s} for s in SYNTAXES if s not in ('html', 'jsx')]
    for cfg in side_cfgs:
        cs.add('', cfg, 'exhaustive2:options')
        for n in (1, 2):
            for tup in itertools.product(ALPHABET, repeat=n):
                cs.add(''.join(tup), cfg, 'exhaustive2:options')
    # BEM: every string over a class-name alphabet (outcome class vs the model here; full output: harness/bem_util.py)
    bem_alpha = list('a.-_>+^*2$')
    bem_cfgs = [{'options': {'bem.enabled': True}},
                {'options': {'bem.enabled': True}, 'context': {'name': 'div', 'attributes': {'class': 'blk'}}, 'text': ['x', 'y']}]
    for n in range(1, (3 if quick else 5) + 1):
        for tup in itertools.product(bem_alpha, repeat=n):
            for cfg in (bem_cfgs if n <= 4 else bem_cfgs[:1]):
                cs.add(''.join(tup), cfg, 'exhaustive-bem')
    # (2) valid abbreviations under every syntax + a few option sets
    names = g.safe_names()
    for s in SYNTAXES:
        for a in VALID:
            cs.add(a, {'syntax': s}, 'valid')
    for a in VALID:
        for cfg in side_cfgs[:6]:
            cs.add(a, cfg, 'valid')
    # (2b) every key of the built-in snippet tables (implementation side of the wf_cfg sweep theorem)
    from emmet.config import Config
    for syn in ('html', 'xsl', 'pug'):
        for key in Config({'syntax': syn}).snippets:
            if isinstance(key, str):
                cs.add(key, {'syntax': syn}, 'builtin-snippet')
    # (3) random strings to length 40, (4) mutations of valid abbreviations, under random option sets
    n_rand = 10000 if quick else 100000
    n_mut = 6000 if quick else 60000
    n_cfg = 150 if quick else 1200
    cfgs = [{}, {'syntax': 'jsx'}, {'text': ['a', 'b', 'c']}] + [random_cfg(rng) for _ in range(n_cfg)]
    wide = ALPHABET + RANDOM_EXTRA
    for i in range(n_rand):
        ln = rng.randint(1, 40)
        alpha = ALPHABET if rng.random() < 0.7 else wide
        s = ''.join(rng.choice(alpha) for _ in range(ln))
        cs.add(s, cfgs[i % 3] if rng.random() < 0.5 else rng.choice(cfgs), 'random')
    for i in range(n_mut):
        base = rng.choice(VALID) if rng.random() < 0.6 else rand_valid(rng, names)
        cs.add(mutate(rng, base, wide if rng.random() < 0.3 else ALPHABET), rng.choice(cfgs), 'mutation')
    # (3b) fragment mixes around the numbering / repeater / field syntax (every `@`, `^`, `-`, digit position)
    for i in range(3000 if quick else 30000):
        s = ''.join(rng.choice(NUM_FRAGS) for _ in range(rng.randint(1, 7)))
        cs.add(s, cfgs[i % 3] if rng.random() < 0.6 else rng.choice(cfgs), 'numbering-mix')
    # (4b) malformed user snippets: the parse error refers to the snippet text
    for tbl in BAD_USER_SNIPPETS:
        for a in list(tbl) + ['ul>' + k for k in tbl] + [k + '*2' for k in tbl] + ['x']:
            cs.add(a, {'snippets': dict(tbl)}, 'user-snippet')
            cs.add(a, {'snippets': dict(tbl), 'text': 'w', 'syntax': 'pug'}, 'user-snippet')
    # (5) bounded nesting (<= 100 levels: far below the recursion finding)
    for d in (10, 50, 100):
        cs.add('>'.join(['a'] * d), {}, 'nesting')
        cs.add('(' * d + 'a' + ')' * d, {}, 'nesting')
        cs.add('a' + '{' * d + 'x' + '}' * d, {}, 'nesting')
        cs.add('(a>' * d + 'b' + ')*2' * min(d, 8) + ')' * max(0, d - 8), {}, 'nesting')
    return cs, n_ex


# ---------------------------------------------------------------- deep nesting probe (known finding)
PROBES = [
    ("'>'.join(['a']*400)", "'>'.join(['a']*400)"),
    ("'('*1000+'a'+')'*1000", "'('*1000+'a'+')'*1000"),
]
PROBE_SRC = r'''
import sys
from emmet import expand
try:
    out = expand(eval(sys.argv[1]))
    print('ok' if isinstance(out, str) else 'notstr')
except RecursionError:
    print('recursion')
except Exception as e:
    print('exc', type(e).__name__)
'''


def probe_key(expr):
    return 'markup:recursion:' + expr


def run_probe(expr):
    env = dict(os.environ, PYTHONPATH=common.REPO, PYTHONHASHSEED='0', PYTHONDONTWRITEBYTECODE='1')
    try:
        p = common.patient_run([common.PY, '-c', PROBE_SRC, expr], env=env, stdout=subprocess.PIPE, stderr=subprocess.PIPE,
                               text=True, timeout=60)
    except subprocess.TimeoutExpired:
        return 'hang'
    out = p.stdout.strip().split('\n')[-1] if p.stdout.strip() else 'crash rc=%s' % p.returncode
    return out


def deep_nesting(ctx):
    for expr, _ in PROBES:
        r = run_probe(expr)
        ctx.count_eval()
        ctx.cover('markup:probe:' + r.split()[0])
        if r != 'ok':
            ctx.property_failure(probe_key(expr),
                                 'markup expand(%s) with the default recursion limit: %s (deep nesting; runtime limit of '
                                 'CPython, the parser/converter/walkers are recursive by design)' % (expr, r),
                                 {'component': 'markup-probe', 'expr': expr, 'impl': r})
        else:
            ctx.cov.setdefault('stale_findings', []).append(probe_key(expr))


def long_digit_runs(ctx):
    """Integers longer than CPython converts (4300 digits by default) wherever the tokenizers read one; implementation
    oracle only: the model's numbers are unbounded (repaired 59398b0: escaped with ValueError).  `lorem<digits>` is
    left out: a count of that size cannot be generated in any case."""
    n = 0
    for k in (4300, 4301, 6000):
        d = '7' * k
        for abbr, cfg in (('p*' + d, {}), ('a.c$@' + d + '*2', {}), ('a$@-' + d, {'syntax': 'pug'}), ('p{${' + d + '}}', {}),
                          ('a[b=${' + d + ':x}]', {'syntax': 'jsx'}), ('ul>li*' + d + '>a', {'options': {'bem.enabled': True}}),
                          ('p${' + d + '}', {'type': 'stylesheet'}), ('m:${' + d + ':x}', {'type': 'stylesheet', 'syntax': 'sass'})):
            if k <= 4300 and '*' + d in abbr:
                continue                  # a convertible count of that size: 10**4300 copies, not a question of safety
            r = outcome(abbr, cfg)
            ctx.count_eval()
            n += 1
            ctx.cover('markup:long-digits:' + str(r[0]))
            bad = oracle(abbr, cfg, r)
            if bad:
                ctx.property_failure('markup-long:%s|%d|%s' % (abbr[:10], k, canon_cfg(cfg)),
                                     'expand(%r + %d digits ..., %s): %s' % (abbr[:8], k, canon_cfg(cfg), bad),
                                     {'component': 'markup', 'abbr': abbr, 'config': cfg, 'impl': repr(r)[:200], 'why': bad})
    ctx.cov['long_digit_run_inputs'] = n


# ---------------------------------------------------------------- run
def run_markup(ctx, model_ok=True):
    cs, n_ex = gen(ctx)
    rule = ('markup: corpus + seeds of every repaired defect; EVERY string up to length %d over the 23-character alphabet of the '
            'statement for html and jsx (and up to length 2 under wrap text str/list, comments, BEM, context, maxRepeat and each '
            'other markup syntax); %d valid abbreviations under every syntax; random strings to length 40 and mutations '
            '(delete/insert/swap/duplicate) of valid abbreviations under random option sets (syntax, text str/list, comments, JSX, '
            'BEM, context, maxRepeat/max_repeat, user snippets incl. malformed ones, variables, output options). Observable: outcome '
            'class ok | scanner-error pos | token-error pos | internal type | recursion | hang. Non-trivial = raises a parse error '
            'or expands >= 2 characters of input to non-empty text; distinct by (configuration, input). lorem cases run under the '
            'deterministic randint oracle of harness/lorem_oracle.py and are compared like all others (the model gets the same draws). BEM (coq/model/MarkupBem.v): '
            'additionally the FULL output string of model and implementation is compared on every class string up to length 4 '
            '(thorough: 5) over `a b - _ 1 space` on the last of 1-3 nested elements, with/without a context class, default and '
            'custom separators, exhaustive pairs/triples of short class strings on chains and siblings (module-lifetime cache of '
            'get_block_name), dotted abbreviations, re.I code points, and random mixes with fields/numbering/snippets '
            '(harness/bem_util.py).') % (n_ex, len(VALID))
    ctx.cov['rule'] = rule
    impl = impl_many([(a, ci) for a, ci, _ in cs.items], cs.cfgs)
    # ---- oracle on every case
    n_bad = 0
    for (abbr, ci, tag), r in zip(cs.items, impl):
        ctx.count_eval()
        cfg = cs.cfgs[ci]
        bad = oracle(abbr, cfg, r)
        kind = r[0] if r[0] != 'err' else 'err%d' % r[1]
        ctx.cover('markup:%s:%s' % (tag.split(':')[0], kind if r[0] != 'internal' else 'internal-' + str(r[1])))
        if r[0] == 'err' and isinstance(r[2], int) and r[2] > len(abbr) and not bad:
            ctx.cover('markup:pos-in-user-snippet')
        if bad:
            n_bad += 1
            ctx.property_failure('markup:%s|%s' % (abbr, canon_cfg(cfg)),
                                 'markup expand(%r, %s): %s' % (abbr, canon_cfg(cfg), bad),
                                 {'component': 'markup', 'abbr': abbr, 'config': cfg, 'impl': repr(r)[:300], 'why': bad})
        if r[0] == 'err' or (r[0] == 'ok' and r[1] and len(abbr) >= 2):
            ctx.nontrivial(('m7', ci, abbr))
    opts = ctx.cov.setdefault('option_coverage', {})
    for cfg in cs.cfgs:
        for k in cfg:
            if k == 'options':
                for o in cfg['options']:
                    opts[o] = opts.get(o, 0) + 1
            else:
                kk = k + (':' + type(cfg[k]).__name__ if k == 'text' else '') + (':' + str(cfg[k]) if k == 'syntax' else '')
                opts[kk] = opts.get(kk, 0) + 1
    picks = [i for i, (a, ci, t) in enumerate(cs.items) if t in ('mutation', 'random')][:3] + \
            [i for i, r in enumerate(impl) if r[0] == 'err'][:3]
    for i in picks:
        a, ci, t = cs.items[i]
        ctx.sample({'component': 'markup', 'abbr': a, 'config': cs.cfgs[ci], 'impl': repr(impl[i])[:160]})
    deep_nesting(ctx)
    long_digit_runs(ctx)
    # ---- the invariant behind the tokenizer->converter link, checked on the real tokenizer
    check_bridge_invariant(ctx, sorted({a for a, ci, t in cs.items if t.startswith('exhaustive:') or t in ('random', 'mutation', 'valid')}))
    ctx.cov['theorem_status'] = {
        'full': ['C07_tokenize_safe', 'C07_parser_safe', 'C07_tokenize_parse_safe', 'C07_convert_safe', 'C07_resolve_safe',
                 'C07_builtin_tables_wf (complete sweep)', 'C07_user_table_wf', 'C07_tokenizer_output_wellformed',
                 'C07_parser_output_convertible', 'C07_bem_safe (BEM addon never raises: all nodes, paths, cache states, separators, contexts)',
                 'C07_transform_forest_safe (transform pass incl. BEM is total)',
                 'C07_lorem_pass_safe (lorem text generation, every forest, every stream of draws: paragraphs written or stream exhausted, never Internal)',
                 'C07_transform_safe / C07_transform_safe_lorem_free (walk = lorem draws + transform: OutOfFuel exactly for an exhausted stream)',
                 'C07_expand_safe (markup model, all inputs incl. lorem abbreviations, every stream of draws, all configurations with wf snippet '
                 'table, bem.enabled included; OutOfFuel only when the lorem oracle stream ran out)',
                 'C07_expand_safe_any_table (malformed user snippets: position inside the snippet text)',
                 'props/Lorem.v (lorem model extension): Lorem_randint, Lorem_sample_safe, Lorem_insert_commas_safe, Lorem_vocabularies_ok '
                 '(complete sweep), Lorem_generator_safe (never Internal / never loop fuel, every header and stream), Lorem_paragraph_words '
                 '(exactly word_count vocabulary entries in sentence form, common opening), Lorem_header_range, Lorem_word_count_in_range, '
                 'Lorem_paragraph_exact_words (the text is the join of exactly word_count tokens), Lorem_words_are_blank_free_runs, '
                 'Lorem_generator_reads_stream / Lorem_exhausted_on_every_prefix / Lorem_pass_reads_stream (the oracle is read left to right: the '
                 'result depends only on the draws consumed; OutOfFuel = more draws are needed), '
                 'Lorem_pass (only values change, only under a lorem header), Lorem_free_forest (porting lemma), Lorem_text_node, '
                 'Lorem_top_level_node (both passes composed, BEM on or off), Lorem_test_agree',
                 'props/Href.v (markup.href model extension): Href_url_matcher / Href_email_matcher / Href_proto_matcher (matcher = '
                 'denotation of its regex, all strings), Href_value, Href_value_nonempty, Href_attrs_spec, Href_never_overwrites, '
                 'Href_written_only_when_empty, Href_text_as_by_insert_text, Href_off_is_href_free_converter (porting lemma), '
                 'Href_converter_cases, Href_same_outcome (markup.href adds no failure), Href_deepest_last_element'],
        'partial': [],
        'by_construction': ['formatters return plain values (no res, no fuel): proofs/SafeFormat.v'],
        'not_in_model(implementation oracle only)': ['user callbacks other than the identity', 'CPython recursion limit (known finding)',
                                                     'digit runs beyond CPython int conversion limit (model numbers are unbounded)'],
    }
    # ---- correspondence with the extracted model
    model = ctx.model('markup') if model_ok else None
    if model is None:
        return
    enc = {}
    for ci, cfg in enumerate(cs.cfgs):
        try:
            enc[ci] = enc_config(cfg)
        except NotModelled:
            enc[ci] = None
        except Exception as e:  # a configuration the real Config rejects: implementation-only
            enc[ci] = None
    import lorem_oracle as lo
    wires, idx = [], []
    for k, (abbr, ci, tag) in enumerate(cs.items):
        if enc[ci] is None:
            ctx.cover('markup:not-modelled(option type)')
            continue
        if lo.lorem_like(abbr, cs.cfgs[ci]):
            # a lorem node is possible: the model gets the raw draws of the oracle the implementation ran under
            ctx.cover('markup:compared-with-lorem-draws')
            wires.append([2] + enc_config(cs.cfgs[ci], lo.model_draws(abbr, cs.cfgs[ci])) + enc_str(abbr))
        else:
            wires.append([2] + enc[ci] + enc_str(abbr))
        idx.append(k)
    outs = model.run(wires)
    dis = 0
    text_diff = 0
    for k, w in zip(idx, outs):
        abbr, ci, tag = cs.items[k]
        mo = decode_expand(w)
        im = impl[k]
        if im[0] == 'oracle-limit' or (mo[0] == 'outoffuel' and lo.lorem_like(abbr, cs.cfgs[ci]) and im[0] == 'ok'
                                        and len(im[1]) > 8 * lo.MODEL_DRAWS // 3):
            ctx.cover('markup:not-compared(lorem text longer than the draws handed to the model)')
            continue
        if klass(mo) != klass(im):
            dis += 1
            if dis <= 5:
                cfg = cs.cfgs[ci]
                ctx.say('DISAGREE markup expand class %r cfg=%s\n  impl  %r\n  model %r' % (abbr, canon_cfg(cfg), str(im)[:300], str(mo)[:300]))
                if not oracle(abbr, cfg, im):
                    ctx.broken.append({'kind': 'correspondence', 'file': 'markup-expand-class', 'input': abbr,
                                       'config': canon_cfg(cfg), 'impl': repr(im)[:300], 'model': repr(mo)[:300]})
        elif mo[0] == 'ok' and mo[1] != im[1]:
            # the model covers every converter feature (markup.href included): the output text must agree as well
            if case_mapping_outside_model(abbr, cs.cfgs[ci]):
                # DESIGN section 2: lower/upper are exact on ASCII and the identity elsewhere in the model
                ctx.cover('markup:not-text-compared(tagCase/attributeCase with cased non-ASCII letters)')
                continue
            text_diff += 1
            if text_diff <= 12:
                cfg = cs.cfgs[ci]
                ctx.say('DISAGREE markup expand output %r cfg=%s\n  impl  %r\n  model %r' % (abbr, canon_cfg(cfg), str(im)[:300], str(mo)[:300]))
            if text_diff <= 5:
                ctx.broken.append({'kind': 'correspondence', 'file': 'markup-expand-output', 'input': abbr,
                                   'config': canon_cfg(cfg), 'impl': repr(im)[:300], 'model': repr(mo)[:300]})
    ctx.cov['correspondence']['markup_expand_outcome_class_and_output'] = {
        'cases': len(wires), 'disagreements': dis, 'output_text_disagreements': text_diff}
    # ---- BEM addon: full output, model vs implementation (harness/bem_util.py)
    import bem_util
    bem_util.run_bem(ctx, model)
    # ---- markup.href: matchers, insert_href and the full output / callback events (harness/href_util.py)
    import href_util
    href_util.run_href(ctx, model)
    # ---- lorem text: generator functions, header and the full output under a recorded stream of draws (harness/lorem_util.py)
    import lorem_util
    lorem_util.run_lorem(ctx, model)


def replay_markup(ctx, obj):
    rp = obj.get('replay', obj)
    if rp.get('component') == 'markup-probe':
        r = run_probe(rp['expr'])
        print('probe %s -> %s' % (rp['expr'], r))
        return 0 if r == 'ok' else 1
    if rp.get('component') in ('href', 'href-events'):
        import href_util
        return href_util.replay_href(rp)
    if rp.get('component') == 'lorem':
        import lorem_util
        return lorem_util.replay_lorem(rp)
    if rp.get('component') != 'markup':
        return None
    abbr, cfg = rp['abbr'], rp.get('config') or {}
    lim = sys.getrecursionlimit()
    sys.setrecursionlimit(1000)
    try:
        r = outcome(abbr, cfg)
    finally:
        sys.setrecursionlimit(lim)
    cfg = bound_copies(abbr, cfg)
    bad = oracle(abbr, cfg, r)
    print('markup expand(%r, %s) -> %s : %s' % (abbr, canon_cfg(cfg), repr(r)[:300], bad or 'property holds'))
    return 1 if bad else 0
