"""C04 generators and the property's own reading of text payloads and wrap lines.

Everything here is independent of the Coq model: expected outputs are computed from the payload by
the words of the property statement ("a backslash makes the next character literal", "balanced inner
braces kept", "one copy of X per non-blank line, in order, each containing that trimmed line at every
`$#`, otherwise appended once to the deepest last element", "without an implicit repeater the whole
text is inserted once into the deepest last element")."""
import re

# the whole punctuation alphabet of the abbreviation language + other ASCII punctuation
PUNCT = list('!"#$%&\'()*+,-./:;<=>?@[\\]^_`{|}~')
LETTERS = list('aZ09')
SPACES = [' ', '\t', ' ']
UNICODE = ['é', '日', '\U0001F600', '٣', '²', '​', ' ', ' ', '\u0085', '\x0c', '\x0b',
           '\x1c', '\x1d', '\x1e', '\x1f', '　', '﻿']
BREAKS = ['\n', '\r', '\r\n']

# configuration that makes the expected output a closed form: nothing is added between tags
# except the configured newline around/inside multi-line text
PLAIN = {'options': {'output.format': False, 'output.indent': '', 'output.baseIndent': '', 'output.newline': '\n'}}
RE_BREAK = re.compile(r'\r\n|\r|\n')
RE_BLOCK_TAG = re.compile(r'<([\w\-:]+)[\s>]')


def unescape(t):
    """The property's reading of a payload: a backslash makes the next character literal."""
    out = []
    i = 0
    while i < len(t):
        if t[i] == '\\':
            if i + 1 < len(t):
                out.append(t[i + 1])
            i += 2
        else:
            out.append(t[i])
            i += 1
    return ''.join(out)


# ---------------------------------------------------------------- payload generators
def _atom(rng, chars, escape_always, weights=None):
    c = rng.choice(chars)
    if c in escape_always or (c != '\r\n' and rng.random() < 0.12):
        if c == '\r\n':
            return c
        return '\\' + c
    return c


def payload_text(rng, n, breaks=False, depth=0):
    """Brace-balanced (modulo escapes) payload for `{...}`; `$` and backslash only escaped."""
    chars = PUNCT + PUNCT + LETTERS + SPACES + UNICODE + (BREAKS if breaks else [])
    out = []
    k = 0
    while k < n:
        r = rng.random()
        if r < 0.12 and depth < 4:
            inner = payload_text(rng, rng.randint(0, 4), breaks, depth + 1)
            out.append('{' + inner + '}')
        else:
            c = rng.choice(chars)
            if c in '{}$\\':
                out.append('\\' + c)
            elif c != '\r\n' and rng.random() < 0.1:
                out.append('\\' + c)
            else:
                out.append(c)
        k += 1
    return ''.join(out)


def payload_quoted(rng, n, q, breaks=False):
    """Payload for a quoted attribute value: anything, the quote itself / `$` / backslash only escaped."""
    chars = PUNCT + PUNCT + LETTERS + SPACES + UNICODE + (BREAKS if breaks else [])
    out = []
    for _ in range(n):
        c = rng.choice(chars)
        if c in (q, '$', '\\'):
            out.append('\\' + c)
        elif c != '\r\n' and rng.random() < 0.1:
            out.append('\\' + c)
        else:
            out.append(c)
    return ''.join(out)


OPEN = {'(': ')', '[': ']', '{': '}'}


def payload_unquoted(rng, n, depth=0, in_expr=False):
    """Payload for an unquoted attribute value: white space, quotes, `=`, `$`, backslash and unbalanced
    brackets only escaped; balanced brackets of all three kinds kept.  Inside `{...}` everything but
    `$`, backslash and unbalanced braces is literal."""
    chars = PUNCT + PUNCT + LETTERS + UNICODE + ([' ', '\t'] if in_expr else [])
    out = []
    k = 0
    while k < n:
        r = rng.random()
        if r < 0.15 and depth < 3:
            o = rng.choice('([{')
            if in_expr:
                o = '{'
            inner = payload_unquoted(rng, rng.randint(0, 3), depth + 1, in_expr or o == '{')
            if o == '{' and depth == 0 and k == 0 and not in_expr:
                # a value that STARTS with '{' is an expression attribute, generated separately
                out.append('x')
            out.append(o + inner + OPEN[o])
        else:
            c = rng.choice(chars)
            if in_expr:
                esc = c in '{}$\\'
            else:
                esc = c in '()[]{}$\\"\'=' or c.isspace() or c in SPACES or c in UNICODE and is_space_like(c)
            if esc or rng.random() < 0.1:
                out.append('\\' + c)
            else:
                out.append(c)
        k += 1
    return ''.join(out)


def is_space_like(c):
    return c in (' ', '\t', ' ', '\n', '\r')


# ---------------------------------------------------------------- expected output (format off, PLAIN config)
def lines_of(v):
    """Lines of a text value as written into the output: CR, LF and CRLF separate lines, a final line
    break does not open another line."""
    ls = RE_BREAK.split(v)
    if ls and ls[-1] == '':
        ls.pop()
    return ls


def text_forms(v):
    """Acceptable renderings of element text `v` under PLAIN: verbatim; multi-line text (or text the
    formatter sets on its own lines) is written line by line, each line verbatim, between newlines."""
    # (the line break after the text belongs to the formatter: it is written before a closing tag on its own
    # line, not when child elements follow -- C12's business, either layout carries the text verbatim)
    if RE_BREAK.search(v):
        body = '\n'.join(lines_of(v))
        return [body, '\n' + body + '\n', '\n' + body]
    return [v, '\n' + v + '\n', '\n' + v] if v else ['']


def attr_value_form(v):
    return '\n'.join(lines_of(v)) if RE_BREAK.search(v) else v


# ---------------------------------------------------------------- wrap: small abbreviation trees
class W:
    """Element of a wrap abbreviation.  text: literal payload-free text (plain letters), ph: `$#` is written
    in the text, ph_attr: `$#` written in an attribute value, star: carries the implicit repeater."""
    __slots__ = ('name', 'text', 'ph', 'ph_attr', 'kids', 'star', 'rep')

    def __init__(self, name, text='', ph=False, ph_attr=False, kids=(), star=False, rep=None):
        self.name = name
        self.text = text
        self.ph = ph
        self.ph_attr = ph_attr
        self.kids = list(kids)
        self.star = star
        self.rep = rep


class WG:
    """Group `( ... )` possibly carrying the implicit repeater."""
    __slots__ = ('kids', 'star')

    def __init__(self, kids, star=False):
        self.kids = list(kids)
        self.star = star


def render_w(n):
    if isinstance(n, WG):
        return '(' + '+'.join(render_w(k) for k in n.kids) + ')' + ('*' if n.star else '')
    s = n.name
    if n.ph_attr:
        s += '[title=$#]' if n.ph_attr == 1 else '[title="<$#>"]'
    if n.text or n.ph:
        s += '{' + n.text + ('$#' if n.ph else '') + '}'
    if n.star:
        s += '*'
    elif n.rep:
        s += '*%d' % n.rep
    if n.kids:
        # parenthesised so that what follows is a sibling of n, not of its last child
        s = '(' + s + '>' + '+'.join(render_w(c) for c in n.kids) + ')'
    return s


def has_ph(n):
    if isinstance(n, WG):
        return any(has_ph(k) for k in n.kids)
    return bool(n.ph or n.ph_attr) or any(has_ph(k) for k in n.kids)


def has_star(n):
    if n.star:
        return True
    return any(has_star(k) for k in n.kids)


class X:
    """Expected output element."""
    __slots__ = ('name', 'title', 'text', 'kids')

    def __init__(self, name, title, text):
        self.name = name
        self.title = title
        self.text = text
        self.kids = []


def expect_nodes(n, line, out):
    """Expected elements for abbreviation node n where `$#` stands for `line` (None: no line in force)."""
    if isinstance(n, WG):
        for k in n.kids:
            expect_nodes(k, line, out)
        return
    count = n.rep or 1
    for _ in range(count):
        t = n.text + (line if (n.ph and line is not None) else '')
        title = None
        if n.ph_attr:
            title = (line if line is not None else '') if n.ph_attr == 1 else '<' + (line if line is not None else '') + '>'
        x = X(n.name, title, t)
        for k in n.kids:
            expect_nodes(k, line, x.kids)
        out.append(x)


def deepest_last(items):
    x = items[-1]
    while x.kids:
        x = x.kids[-1]
    return x


def expect_wrap(roots, lines):
    """The property's wrap clause.  roots: list of W/WG (top-level siblings); lines: list of str.
    Returns the expected forest (list of X)."""
    nonblank = [l.strip() for l in lines if l.strip()]
    starred = any(has_star(r) for r in roots)

    def walk(n, out):
        if isinstance(n, WG) and not n.star:
            for k in n.kids:
                walk(k, out)
            return
        if n.star:
            for ln in nonblank:
                copy = []
                if isinstance(n, WG):
                    for k in n.kids:
                        expect_nodes(k, ln, copy)
                else:
                    t = n.text + (ln if n.ph else '')
                    title = None
                    if n.ph_attr:
                        title = ln if n.ph_attr == 1 else '<' + ln + '>'
                    x = X(n.name, title, t)
                    for k in n.kids:
                        expect_nodes(k, ln, x.kids)
                    copy.append(x)
                if not has_ph(n) and copy:
                    deepest_last(copy).text += ln
                out.extend(copy)
            return
        count = n.rep or 1
        for _ in range(count):
            x = X(n.name, None, n.text)
            for k in n.kids:
                walk(k, x.kids)
            out.append(x)
    out = []
    for r in roots:
        walk(r, out)
    if not starred and out:
        deepest_last(out).text += '\n'.join(lines).strip()
    return out


def render_x(items):
    """Output of the forest under PLAIN."""
    s = []
    for x in items:
        s.append('<' + x.name)
        if x.title is not None:
            s.append(' title="' + attr_value_form(x.title) + '"')
        s.append('>')
        if x.text:
            if RE_BREAK.search(x.text):
                s.append('\n' + '\n'.join(lines_of(x.text)) + '\n')
            else:
                s.append(x.text)
        s.append(render_x(x.kids))
        s.append('</' + x.name + '>')
    return ''.join(s)


LINE_POOL = ['one', 'two words', '  padded  ', '\tTab\t', '', '   ', '\t', 'ul>li*3', '$$', '$', '{x}', '$#', '${1}', '${2:ph}',
             'a$b', '$@-3', 'p*', '(a+b)', '[x=y]', '.cls#id', 'a\\b', '\\$', '*', '^', '}', '{', ')', '"q"', "'s'", '<b>x</b>',
             'é日', '\U0001F600', ' nb ', '　wide　', 'x y', 'x\x0cy', '\x0c', ' ', 'lorem', 'a', '0']
WNAMES = ['p', 'div', 'li', 'span', 'em', 'q', 'x-y']


def rand_lines(rng):
    n = rng.choice([0, 1, 1, 2, 3, 3, 4, 6])
    out = []
    for _ in range(n):
        if rng.random() < 0.7:
            out.append(rng.choice(LINE_POOL))
        else:
            chars = PUNCT + LETTERS + SPACES + UNICODE
            out.append(''.join(rng.choice(chars) for _ in range(rng.randint(0, 8))))
    return out


def rand_w(rng, depth, allow_star, force_ph=None):
    """Random element subtree.  allow_star: may place the implicit repeater here (at most one in the tree)."""
    name = rng.choice(WNAMES)
    text = rng.choice(['', '', '', 't', 'ab '])
    n = W(name, text)
    if depth < 3 and rng.random() < 0.6:
        for _ in range(rng.choice([1, 1, 2, 3])):
            n.kids.append(rand_w(rng, depth + 1, False))
    return n


def sprinkle_ph(rng, n, p):
    """Write `$#` at random text / attribute positions inside n."""
    if isinstance(n, WG):
        for k in n.kids:
            sprinkle_ph(rng, k, p)
        return
    if rng.random() < p:
        n.ph = True
    if rng.random() < p / 2:
        n.ph_attr = rng.choice([1, 2])
    for k in n.kids:
        sprinkle_ph(rng, k, p)


def rand_wrap_case(rng):
    """(roots, lines): top-level statement with at most one implicit repeater."""
    kind = rng.random()
    lines = rand_lines(rng)
    roots = [rand_w(rng, 0, False) for _ in range(rng.choice([1, 1, 1, 2, 3]))]
    if kind < 0.7:
        # place one implicit repeater on a random element or on a group of top-level items
        cands = []

        def collect(n):
            cands.append(n)
            for k in n.kids:
                collect(k)
        for r in roots:
            collect(r)
        target = rng.choice(cands)
        if rng.random() < 0.2 and len(roots) >= 1:
            g = WG([rand_w(rng, 1, False) for _ in range(rng.choice([1, 2, 3]))], star=True)
            target.kids.append(g) if rng.random() < 0.5 else roots.append(g)
            target = g
        else:
            target.star = True
        if rng.random() < 0.55:
            sprinkle_ph(rng, target, rng.choice([0.3, 0.6, 1.0]))
            if not has_ph(target):
                if isinstance(target, WG):
                    target.kids[0].ph = True
                else:
                    target.ph = True
        # explicit repeaters elsewhere inside the starred unit
        if not isinstance(target, WG) and target.kids and rng.random() < 0.3:
            target.kids[0].rep = rng.choice([2, 3])
    else:
        if rng.random() < 0.3:
            r = rng.choice(roots)
            r.rep = rng.choice([2, 3])
    return roots, lines


def render_roots(roots):
    return '+'.join(render_w(r) for r in roots)


# ---------------------------------------------------------------- the property's domain of payloads
def in_domain_text(t):
    """`{t}` is text in the sense of the statement: braces balanced modulo escapes, no unescaped `$`,
    no dangling backslash."""
    d = 0
    i = 0
    while i < len(t):
        c = t[i]
        if c == '\\':
            if i + 1 >= len(t):
                return False
            i += 2
            continue
        if c == '$':
            return False
        if c == '{':
            d += 1
        elif c == '}':
            if d == 0:
                return False
            d -= 1
        i += 1
    return d == 0


def in_domain_quoted(t, q):
    i = 0
    while i < len(t):
        c = t[i]
        if c == '\\':
            if i + 1 >= len(t):
                return False
            i += 2
            continue
        if c == '$' or c == q:
            return False
        i += 1
    return True


def in_domain_unquoted(t):
    """Unquoted attribute value: non-empty, does not start with `{` (that is an expression value), brackets of
    the three kinds properly nested modulo escapes (inside braces only braces count), outside braces no
    unescaped white space, quote, `=`; no unescaped `$` anywhere."""
    if not t or t[0] == '{':
        return False
    stack = []
    i = 0
    while i < len(t):
        c = t[i]
        if c == '\\':
            if i + 1 >= len(t):
                return False
            i += 2
            continue
        if c == '$':
            return False
        in_expr = '{' in stack
        if in_expr:
            if c == '{':
                stack.append('{')
            elif c == '}':
                stack.pop()
        else:
            if c in '([{':
                stack.append(c)
            elif c in ')]}':
                if not stack or OPEN[stack[-1]] != c:
                    return False
                stack.pop()
            elif c in '"\'=' or is_space_like(c):
                return False
        i += 1
    return not stack


# ---------------------------------------------------------------- matching an output against expected pieces
def match_pieces(pieces, out):
    """pieces: list of str (must appear exactly) or ['T', v] (element text v: verbatim, or -- when the
    formatter sets it on its own lines / it has line breaks -- line by line between newlines)."""
    alts = [[pc] if isinstance(pc, str) else text_forms(pc[1]) for pc in pieces]
    memo = set()

    def go(i, pos):
        if i == len(alts):
            return pos == len(out)
        if (i, pos) in memo:
            return False
        for a in alts[i]:
            if out.startswith(a, pos) and go(i + 1, pos + len(a)):
                return True
        memo.add((i, pos))
        return False
    return go(0, 0)


def pieces_x(items):
    """Expected pieces of a forest of X under PLAIN."""
    s = []
    for x in items:
        s.append('<' + x.name)
        if x.title is not None:
            s.append(' title="' + attr_value_form(x.title) + '"')
        s.append('>')
        if x.text:
            s.append(['T', x.text])
        s.extend(pieces_x(x.kids))
        s.append('</' + x.name + '>')
    return s


def merge_pieces(pieces):
    out = []
    for pc in pieces:
        if isinstance(pc, str) and out and isinstance(out[-1], str):
            out[-1] += pc
        else:
            out.append(pc)
    return out


# ---------------------------------------------------------------- payloads WITH numbering inside nested braces
# (`p{a{$}b{{$$@-}c}${1:x{y}}}`: repair 86fc68a).  A payload is a list of segments
#   ('lit', text)                       literal run: no unescaped `$`; braces need not balance inside one run
#   ('num', width, at, reverse, digits) counter `$`*width, optionally `@`, `-`, start value
#   ('ph',)                             `$#`
#   ('field', index_digits, ph|None)    `${n}` / `${n:placeholder}`
# and the expected text is computed from the segments by the words of the statement: literal runs with escapes
# resolved and inner braces kept, every counter replaced by its value (copy i of n: start+i-1, reversed start+n-i,
# zero-padded to the width of the run; 1 of 1 outside repeaters), `$#` by the wrapped text (none here), a field by
# its placeholder.
NESTED_LIT = list('abXY09 .,:;!?+*>^()[]<=/|~%&_\'"') + ['é', '日', ' ', '\t', '-', '@', '#']
NESTED_DIGITS = list('0123456789') + ['٣']


def _nested_lit_run(rng, n, depth):
    """Random literal run read from brace depth `depth`: returns (text, depth after it).  Opens and closes inner
    braces freely (never below 0), escapes `$`, backslash and the occasional brace / other character."""
    out = []
    for _ in range(n):
        r = rng.random()
        if r < 0.22 and depth < 5:
            out.append('{')
            depth += 1
        elif r < 0.40 and depth > 0:
            out.append('}')
            depth -= 1
        elif r < 0.48:
            out.append('\\' + rng.choice(['$', '\\', '{', '}', '@', '-', '3', 'a', '#']))
        else:
            out.append(rng.choice(NESTED_LIT))
    return ''.join(out), depth


def _nested_item(rng, fields=True):
    k = rng.random()
    if k < 0.6 or (not fields and k < 0.85):
        width = rng.choice([1, 1, 1, 2, 3])
        at = rng.random() < 0.5
        reverse = at and rng.random() < 0.5
        digits = ''.join(rng.choice(NESTED_DIGITS if rng.random() < 0.1 else '0123456789') for _ in range(rng.choice([0, 0, 1, 1, 2]))) if at else ''
        return ('num', width, at, reverse, digits)
    if k < 0.8 or not fields:
        return ('ph',)
    idx = ''.join(rng.choice('0123456789') for _ in range(rng.choice([1, 1, 2])))
    if rng.random() < 0.5:
        return ('field', idx, None)
    ph = []
    d = 0
    for _ in range(rng.randint(0, 5)):
        r = rng.random()
        if r < 0.2 and d < 3:
            ph.append('{')
            d += 1
        elif r < 0.35 and d > 0:
            ph.append('}')
            d -= 1
        else:
            ph.append(rng.choice(list('abX0 .,:$#@-*>[]()') + ['é']))
    ph.append('}' * d)
    return ('field', idx, ''.join(ph))


def item_text(seg):
    if seg[0] == 'num':
        return '$' * seg[1] + (('@' + ('-' if seg[3] else '') + seg[4]) if seg[2] else '')
    if seg[0] == 'ph':
        return '$#'
    if seg[0] == 'field':
        return '${' + seg[1] + ((':' + seg[2]) if seg[2] is not None else '') + '}'
    return seg[1]


def render_nested(segs):
    return ''.join(item_text(s) for s in segs)


def _continues(seg, nxt):
    """Would the character `nxt` written after the counter `seg` be read as part of it (or turn it into another
    token)?  The statement's forms are `$`..., `@`, `-`, digits: nothing else."""
    _, width, at, reverse, digits = seg
    if nxt.isdecimal():
        return True
    if not at:
        if nxt in '$@':
            return True
        if width == 1 and nxt in '{#':
            return True
    elif not digits and not reverse and nxt in '^-':
        return True
    return False


def payload_nested(rng, n_items, fields=True):
    """Random in-domain payload: literal runs alternating with items, items at any brace depth, rendering balanced."""
    segs = []
    depth = 0
    t, depth = _nested_lit_run(rng, rng.choice([0, 0, 1, 2, 4]), depth)
    segs.append(('lit', t))
    for _ in range(n_items):
        segs.append(_nested_item(rng, fields))
        t, depth = _nested_lit_run(rng, rng.choice([0, 1, 1, 2, 3, 5]), depth)
        segs.append(('lit', t))
    segs.append(('lit', '}' * depth))
    # what follows a counter must not continue it: separate with a neutral character
    out = []
    flat = [s for s in segs if not (s[0] == 'lit' and s[1] == '')]
    for k, s in enumerate(flat):
        out.append(s)
        if s[0] == 'num':
            rest = render_nested(flat[k + 1:]) + '}'
            if _continues(s, rest[0]):
                next_is_lit = k + 1 < len(flat) and flat[k + 1][0] == 'lit'
                if next_is_lit and rest[0] not in '{}' and rng.random() < 0.5:
                    out.append(('lit', '\\'))          # escape the character: it stays literal text
                else:
                    out.append(('lit', rng.choice(['x', ' ', '.'])))
    # merge neighbouring literal runs
    merged = []
    for s in out:
        if s[0] == 'lit' and merged and merged[-1][0] == 'lit':
            merged[-1] = ('lit', merged[-1][1] + s[1])
        else:
            merged.append(s)
    return merged


def in_domain_nested(segs):
    """The statement's domain, checked independently of the generator: runs alternate with items, every run keeps the
    brace depth >= 0 with `$` and backslash only as escape pairs, the depth ends at 0, counters are written in a
    documented form and are not continued by what follows, field placeholders balance their braces."""
    d = 0
    for k, s in enumerate(segs):
        rest = render_nested(segs[k + 1:]) + '}'
        if s[0] == 'lit':
            if k + 1 < len(segs) and segs[k + 1][0] == 'lit':
                return False
            t = s[1]
            i = 0
            while i < len(t):
                c = t[i]
                if c == '\\':
                    if i + 1 >= len(t):
                        return False
                    i += 2
                    continue
                if c == '$':
                    return False
                if c == '{':
                    d += 1
                elif c == '}':
                    if d == 0:
                        return False
                    d -= 1
                i += 1
        elif s[0] == 'num':
            _, width, at, reverse, digits = s
            if width < 1 or not all(ch.isdecimal() for ch in digits) or (not at and (reverse or digits)):
                return False
            if _continues(s, rest[0]):
                return False
        elif s[0] == 'field':
            if not s[1] or not all(ch.isdecimal() for ch in s[1]):
                return False
            if s[2] is not None:
                pd = 0
                for c in s[2]:
                    if c == '{':
                        pd += 1
                    elif c == '}':
                        if pd == 0:
                            return False
                        pd -= 1
                if pd:
                    return False
    return d == 0


def expect_nested(segs, i=None, n=None, wrapped=''):
    """Text of the payload in copy i of n (1-based), by the statement; i = n = None: no repeated element or group
    contains the place, every counter is 1 (whatever its start value and direction)."""
    out = []
    for s in segs:
        if s[0] == 'lit':
            out.append(unescape(s[1]))
        elif s[0] == 'num':
            _, width, at, reverse, digits = s
            start = int(digits) if digits else 1
            v = 1 if n is None else (start + n - i if reverse else start + i - 1)
            out.append(str(v).rjust(width, '0') if v >= 0 else str(v))
        elif s[0] == 'ph':
            out.append(wrapped)
        else:
            out.append(s[2] or '')
    return ''.join(out)


def nested_depth_profile(segs):
    """Brace depths at which the items of the payload stand (for coverage)."""
    d = 0
    out = []
    for s in segs:
        if s[0] == 'lit':
            t = s[1]
            i = 0
            while i < len(t):
                if t[i] == '\\':
                    i += 2
                    continue
                if t[i] == '{':
                    d += 1
                elif t[i] == '}':
                    d -= 1
                i += 1
        else:
            out.append((s[0], d))
    return out


NESTED_WS = ' \t\xa0\n\r'


def expect_nested_value(segs, i=None, n=None, wrapped=''):
    """The node value by the statement: strings and tabstop fields in order; everything between two fields (runs
    unescaped, counters replaced, `$#`) is ONE string, present iff something is written there.
    Items: ['s', text] / ['f', index, placeholder]."""
    out = []
    acc = None
    for s in segs:
        if s[0] == 'field':
            if acc is not None:
                out.append(['s', acc])
                acc = None
            out.append(['f', int(s[1]), s[2] or ''])
        elif s[0] == 'lit':
            if s[1]:
                acc = (acc or '') + unescape(s[1])
        else:
            acc = (acc or '') + expect_nested([s], i, n, wrapped)
    if acc is not None:
        out.append(['s', acc])
    return out or None


def expect_nested_tokens(segs):
    """The value tokens by the statement, in order: a literal run gives its leading white space (one token) and ONE
    literal holding the rest unescaped, an item ONE token with the fields written."""
    out = []
    for s in segs:
        if s[0] == 'lit':
            t = s[1]
            k = 0
            while k < len(t) and t[k] in NESTED_WS:
                k += 1
            if k:
                out.append(('WhiteSpace', t[:k]))
            if k < len(t):
                out.append(('Literal', unescape(t[k:])))
        elif s[0] == 'num':
            out.append(('RepeaterNumber', s[1], bool(s[3]), int(s[4]) if s[4] else 1, 0))
        elif s[0] == 'ph':
            out.append(('RepeaterPlaceholder',))
        else:
            out.append(('Field', s[2] or '', int(s[1])))
    return out
