"""C01 helpers (used by harness/props/c01.py only): the LEXICAL side of the operator grammar.

The operators `>` `+` `^` `*N` `(` `)` act on whole elements, so the tree they denote depends on where an
element's text ends and the operator begins.  Two input classes explore that boundary:

  lexical-case : element names in every spelling (lower / UPPER / Capitalised / camelCase / with digits, `-`, `:`, `_`)
                 directly followed by every kind of decoration (`.class`, `#id`, `[attr]`, `{text}`, `/`, `*N`)
                 whose identifiers are again spelled in every way;
  numbering    : item-numbering tokens (`$`, `$$`, `$@-`, `$@3`, `$@^` ...) at the start / middle / END of a name, class,
                 id, attribute value or text, directly followed by every operator.

Documented facts used by the denotation (Emmet docs, "Abbreviations syntax": "Item numbering: $", "Changing numbering
base and direction"), NOT read from the library:
  * `$` is replaced by the number of the current copy of the nearest repeated unit (element or group) around or on the
    element, counting from 1; several `$` in a row pad the number with zeros (`$$$` -> 001); outside every repeated
    unit the number is 1;
  * `@-` counts down (from the repeat count to 1), `@N` starts at N, `@-N` counts down to N;
  * `^` belongs to a numbering token ONLY directly after `$@` (`$@^`); anywhere else it is the climb operator;
  * in html/xml/xhtml an element name is the run of name characters before the first `.`/`#`/`[`/`{`, whatever its
    letter case (`Foo.Bar` is element Foo with class Bar; the component form `Foo.Bar` belongs to the jsx syntax only).
The tree oracle looks at (depth, name) only, so tokens inside classes / ids / attribute values / text may be of any
documented form; inside NAMES only forms whose value the list above fixes are generated (`@` forms only on an element
that carries its own `*N`; no `$@^` in names).
"""
import re

import abbr_gen as g

# ---------------------------------------------------------------- vocabulary
# words that are neither HTML snippets nor mapped / inline parents, and words that are (real elements)
BASE_WORDS = ['card', 'title', 'nav', 'item', 'box', 'row', 'cell', 'foo', 'div', 'span', 'ul', 'li', 'p', 'em', 'section',
              'table', 'tr', 'b', 'x']
COMPOUND_NAMES = ['navItem', 'NavItem', 'NAVItem', 'x-y', 'X-Y', 'X-y', 'x-Y', 'ns:el', 'Ns:El', 'NS:EL', 'h1', 'H1', 'a1B2', 'A1b2',
                  'my_el', 'My_El', 'A', 'B', 'Z', 'Aa', 'aA', 'AZ', 'Za']
IDENT_FORMS = ['c', 'C', 'wide', 'Wide', 'WIDE', 'isOpen', 'IsOpen', 'Big', 'Z', 'A', 'a', 'z', '-x', '-X', '_x', '_X', 'x_y', 'X_Y',
               'x-y', 'X-Y', 'X-y', '1a', '1A', 'a1', 'A1', 'Bar', 'Baz', 'K']


def spellings(word):
    out = [word, word.upper(), word.capitalize()]
    if len(word) > 2:
        out.append(word[:-1] + word[-1].upper())          # iteM
        out.append(word[0].upper() + word[1:-1] + word[-1].upper())
    seen = []
    for w in out:
        if w not in seen:
            seen.append(w)
    return seen


def name_forms():
    """Every spelling of every base word plus compound names; names that are snippet keys in any letter case are left
    out (a snippet replaces the element by its definition: outside this class)."""
    from emmet.snippets import markup_snippets
    keys = set(markup_snippets) | {k.lower() for k in markup_snippets}
    out = []
    for w in BASE_WORDS:
        for s in spellings(w):
            if s not in keys and s.lower() not in keys and s not in out:
                out.append(s)
    for s in COMPOUND_NAMES:
        if s not in keys and s.lower() not in keys and s not in out:
            out.append(s)
    # parents the statement gives no child name for are not used at all (a nameless child could follow)
    return [n for n in out if n.lower() not in g.UNDOCUMENTED_PARENTS]


# ---------------------------------------------------------------- numbering tokens
NUM_PLAIN = ['$', '$$', '$$$']
NUM_AT = ['$@-', '$@3', '$@-3', '$$@0', '$@10', '$$@-', '$@']
NUM_PARENT = ['$@^', '$@^^', '$@^-', '$@^2', '$$@^^-5', '$@^^^']
NUM_ALL = NUM_PLAIN + NUM_AT + NUM_PARENT
NUM_RE = re.compile(r'(\$+)(?:@(\^*)(-?)(\d*))?')
OPEN_MODIFIER_RE = re.compile(r'\$+@\^*$')        # a following `^` would read as `$@^` modifier: ambiguous, never generated


def has_num(s):
    return bool(s) and '$' in s


def num_value(size, reverse, base, counter):
    """Documented value of one numbering token; counter = (index from 0, count) of the nearest repeated unit or None."""
    if counter is None:
        v = 1
    else:
        i, n = counter
        v = base + (n - 1 - i) if reverse else base + i
    s = str(v)
    return '0' * max(0, size - len(s)) + s


def subst_name(name, cs):
    """Element name with its numbering tokens replaced; cs = stack of (index, count) of the enclosing repeated units,
    innermost last (as produced by abbr_gen.unroll)."""
    def one(m):
        if m.group(2):
            raise ValueError('`$@^` in a name is not in the generated class')
        base = int(m.group(4)) if m.group(4) else 1
        return num_value(len(m.group(1)), bool(m.group(3)), base, cs[-1] if cs else None)
    return NUM_RE.sub(one, name)


def preorder_numbered(tree, d=0):
    """(depth, name) list like abbr_gen.preorder, with numbering tokens in names replaced by their documented value."""
    out = []
    for name, el, cs, kids in tree:
        out.append((d, subst_name(name, cs) if '$' in name else name))
        out.extend(preorder_numbered(kids, d + 1))
    return out


def ends_with_open_modifier(el):
    """Would a `^` written directly after this element be read as part of a `$@^` token?"""
    return bool(OPEN_MODIFIER_RE.search(g.render_el(el)))


def fix_ambiguous(stmt):
    """Make a generated statement unambiguous: an element whose text ends in `$@` / `$@^..` is never followed by a
    climb (the documented reading of that `^` is "numbering modifier"); the operator becomes `+`."""
    for k, (unit, op) in enumerate(stmt):
        if isinstance(unit, g.Group):
            fix_ambiguous(unit.items)
        elif op.startswith('^') and ends_with_open_modifier(unit):
            stmt[k] = (unit, '+')
    return stmt


def put(word, tok, where):
    if where == 'end':
        return word + tok
    if where == 'start':
        return tok + word
    return word[:1] + tok + word[1:]


def numbered_names_ok(tree):
    """No substituted name may be a snippet key (the snippet would replace the element)."""
    from emmet.snippets import markup_snippets
    return all(n not in markup_snippets for _, n in preorder_numbered(tree))
