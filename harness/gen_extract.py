"""Generated tables for the extract_abbreviation model (C11): coq/gen/GenExtract.v.
Everything is read from the *imported* modules of the repository under test."""
import ast
import inspect
import re

from gen_tables import GenError, coq_str, write_if_changed, HEADER


def one(ch, what):
    if not (isinstance(ch, str) and len(ch) == 1):
        raise GenError('%s is not a single character: %r' % (what, ch))
    return ord(ch)


def gen_extract():
    import emmet.extract_abbreviation as E
    from emmet.extract_abbreviation import is_html as H
    from emmet.extract_abbreviation.brackets import Brackets, BRACE_PAIRS
    out = [HEADER % 'emmet.extract_abbreviation (SPECIAL_CHARS, Brackets, BRACE_PAIRS, Chars, create_options, strip regex)']
    out.append('Definition ex_special_chars : list N := %s.\n' % coq_str(E.SPECIAL_CHARS))
    names = ['SquareL', 'SquareR', 'RoundL', 'RoundR', 'CurlyL', 'CurlyR']
    out.append('(* Brackets.%s *)\nDefinition ex_brackets : list N := [%s].\n' % (
        ', '.join(names), '; '.join('%d' % one(getattr(Brackets, n), n) for n in names)))
    out.append('Definition ex_brace_pairs : list (N * N) := [%s].\n' % '; '.join(
        '(%d, %d)' % (one(k, 'BRACE_PAIRS key'), one(v, 'BRACE_PAIRS value')) for k, v in BRACE_PAIRS.items()))
    cn = ['Tab', 'Space', 'Dash', 'Slash', 'Colon', 'Equals', 'AngleLeft', 'AngleRight']
    out.append('(* is_html.Chars.%s *)\nDefinition ex_html_chars : list N := [%s].\n' % (
        ', '.join(cn), '; '.join('%d' % one(getattr(H.Chars, n), n) for n in cn)))
    d = E.create_options(None)
    if set(d) != {'type', 'lookAhead', 'prefix'} or not isinstance(d['prefix'], str) or not isinstance(d['type'], str):
        raise GenError('create_options defaults changed shape: %r' % (d,))
    out.append('Definition ex_default_type : list N := %s.\n' % coq_str(d['type']))
    out.append('Definition ex_default_look_ahead : bool := %s.\n' % ('true' if d['lookAhead'] else 'false'))
    out.append('Definition ex_default_prefix : list N := %s.\n' % coq_str(d['prefix']))
    # the left-trim regex of extract_abbreviation: must be ^[...]+ replaced by ''
    src = inspect.getsource(E.extract_abbreviation)
    m = re.search(r"re\.sub\(r'\^\[([^\]\\]+)\]\+',\s*''\s*,", src)
    if not m:
        raise GenError('left-trim regex of extract_abbreviation not of the shape ^[chars]+')
    out.append('(* characters of the character class in re.sub(r"^[...]+", "", ...) *)\n'
               'Definition ex_trim_chars : list N := %s.\n' % coq_str(m.group(1)))
    return write_if_changed('GenExtract.v', '\n'.join(out))


GENERATORS = [gen_extract]
