(* C18, CSS half -- the stylesheet tokenizer is lossless: token spans tile the
   abbreviation, in property mode ([is_value] = false) and in value mode (true).
   Property theorems only; each closed by [exact] of a lemma proved in proofs/. *)
From Emmet Require Import lib.Base lib.StyleLib model.CssTokenizer proofs.CssTokenizerProofs.

(* [ctiles l a b]: the spans of [l] are defined (they are [nat]s, there is no None),
   non-empty, contiguous, start at [a] and end at [b]. *)
Theorem C18_css_tokens_tile :
  forall (is_value : bool) (s : str) (l : list ctoken),
    ctokenize is_value s = CTOk l -> ctiles l 0 (length s).
Proof. exact ctokenize_tiles. Qed.
Print Assumptions C18_css_tokens_tile.

(* the only failure is the scanner error, and its position lies inside the input *)
Theorem C18_css_error_inside :
  forall (is_value : bool) (s : str) (p : nat), ctokenize is_value s = CTErr p -> p <= length s.
Proof. exact ctokenize_error_inside. Qed.
Print Assumptions C18_css_error_inside.

(* int() / float() / int(.., 16) inside the tokenizer never raise *)
Theorem C18_css_no_internal_error :
  forall (is_value : bool) (s : str) (k : N), ctokenize is_value s <> CTInternal k.
Proof. exact ctokenize_no_internal. Qed.
Print Assumptions C18_css_no_internal_error.

(* merge_tokens (the scale3d( edge case) keeps the tiling of the tokens read so far *)
Theorem C18_css_merge_tokens_tiles :
  forall (src : str) (acc : list ctoken) (b : nat),
    rtiles acc 0 b -> rtiles (merge_tokens src acc) 0 b.
Proof. exact merge_tokens_tiles. Qed.
Print Assumptions C18_css_merge_tokens_tiles.

(* every token maps back to the exact characters that produced it and every
   character belongs to exactly one token *)
Theorem C18_css_lossless :
  forall (is_value : bool) (s : str) (l : list ctoken),
    ctokenize is_value s = CTOk l -> concat (map (fun t => slice s (cstart t) (cend t)) l) = s.
Proof. exact ctokenize_lossless. Qed.
Print Assumptions C18_css_lossless.

(* non-vacuity: "scale3d(10)--a#fc0-1.5e" tokenizes (with a merge) in both modes *)
Example C18_css_nonvacuous :
  let s := [115;99;97;108;101;51;100;40;49;48;41;45;45;97;35;102;99;48;45;49;46;53;101]%N in
  (exists l, ctokenize false s = CTOk l /\ length l = 8) /\
  (exists l, ctokenize true s = CTOk l /\ length l = 8).
Proof. split; eexists; (split; [vm_compute; reflexivity|reflexivity]). Qed.
