(* C06 -- A stylesheet snippet is always reachable by its own key.
   Property theorems only; each closed by [exact] of a lemma proved in proofs/.

   [css_snippets] is gen/GenCssSnippets.v, REGENERATED from Config({'type':'stylesheet'}).snippets
   of the repository under test on every run; the two sweeps are complete (every key, every
   keyword) and are re-proved by vm_compute whenever the table changes.  The scorer is the
   bit-exact PrimFloat model (the kernel's primitive floats appear under Print Assumptions). *)
From Coq Require Import String.
From Emmet Require Import lib.Base lib.StyleLib gen.GenCssSnippets model.CssTokenizer model.CssParser
     model.Score model.Color model.CssSnippets model.CssResolve model.CssFormat run.StyleShow
     proofs.StyleSweep proofs.StyleMatchProofs proofs.StyleReachProofs proofs.StyleKeywordProofs
     proofs.CssTokenizerProofs proofs.StyleTokProofs proofs.CssValuePrint proofs.CssValueReach proofs.CssValueLex proofs.CssValueSource
     proofs.CssValueParse proofs.CssValueSnippet.
Local Open Scope N_scope.

(* ---- every key of the built-in table reaches its own snippet.
   [cfg_tab] = Config({'type': 'stylesheet', 'syntax': 'css'}) with a field callback printing
   ${index:placeholder}.  [own_line cfg s] (proofs/StyleSweep.v) is the snippet's own line:
   "<property>: <first listed value, tabstop-wrapped when there are several alternatives and it has
   no tabstop of its own; a tabstop when no value is listed>;" for a property snippet, the body
   (tabstops included) for a raw snippet. *)
Theorem C06_keys_reach_self :
  forall cfg sn,
    cfg_tab = Some cfg -> convert_snippets css_snippets = Ok sn ->
    forall k, In k table_keys ->
      (* the matcher selects the snippet stored under k, and no other ... *)
      (exists s, find_best_match sn_key k sn (c_min_score cfg) true = Some s /\ sn_key s = k) /\
      (* ... and expand prints that snippet's own line (the gradient shortcut `lg` is resolved before
         the table is consulted: see C06_gradient_key) *)
      (k <> gradient_name ->
       exists s, find_snippet sn k = Some s /\ sn_key s = k /\ expand_with cfg sn k = Ok (own_line cfg s)).
Proof. exact keys_reach_self. Qed.
Print Assumptions C06_keys_reach_self.

Theorem C06_sweep_inhabited :
  (exists cfg, cfg_tab = Some cfg) /\ (exists sn, convert_snippets css_snippets = Ok sn).
Proof. exact sweep_inhabited. Qed.
Print Assumptions C06_sweep_inhabited.

(* `lg`: its snippet's line with the tabstop numbered 0 instead of 1; identical to the snippet's own
   line under the library's default field callback *)
Theorem C06_gradient_key :
  match cfg_tab, cfg_plain, builtin_converted with
  | Some ct, Some cp, Ok sn =>
      expand_with ct sn gradient_name = Ok (lit "background-image: linear-gradient(${0});") /\
      match find_snippet sn gradient_name with
      | Some s => own_line ct s = lit "background-image: linear-gradient(${1});" /\
                  expand_with cp sn gradient_name = Ok (own_line cp s)
      | None => False
      end
  | _, _, _ => False
  end.
Proof. exact gradient_key_line. Qed.
Print Assumptions C06_gradient_key.

(* ---- every keyword made of letters (dash-free, digit-free) listed by a property snippet, typed in
   full after the key -- as listed, lower, UPPER, aLtErNaTiNg, AlTeRnAtInG -- resolves to that keyword:
   "<key>:<kw>" and "<key>-<kw>" print "<property>: <the listed keyword>;" *)
Theorem C06_keywords_resolve :
  forall cfg sn,
    cfg_tab = Some cfg -> convert_snippets css_snippets = Ok sn ->
    forall key prop value kws deps kw tok v,
      In (SnProp key prop value kws deps) sn -> In (kw, tok) kws -> plain_keyword kw = true ->
      In v (kw_variants kw) ->
      expand_with cfg sn (key ++ c_colon :: v) = Ok (kw_line cfg prop tok) /\
      expand_with cfg sn (key ++ c_dash :: v) = Ok (kw_line cfg prop tok).
Proof. exact keywords_resolve. Qed.
Print Assumptions C06_keywords_resolve.

(* ---- ANY letter case (all 2^n spellings, not only the five of the sweep), for ALL tables: when the name selects
   a property snippet whose keywords are distinct up to letter case, a listed keyword [kw] typed after `:` in any mix
   of upper and lower case [v] (letters only: [word_ok]) resolves to the listed entry [tok] *)
Theorem C06_keyword_any_case :
  forall cfg sn key key' prop value kws deps kw tok v,
    word_ok key -> word_ok v -> str_eqb key gradient_name = false -> c_context cfg = None ->
    find_best_match sn_key key sn (c_min_score cfg) true = Some (SnProp key' prop value kws deps) ->
    get_unmatched_part key key' 0 = [] ->
    In kw (map fst kws) -> assoc_str kw kws = Some tok -> lower v = lower kw ->
    (forall x, In x (map fst kws) -> lower x = lower kw -> x = kw) ->
    expand_with cfg sn (key ++ c_colon :: v) = Ok (kw_line cfg prop tok).
Proof. exact keyword_any_case. Qed.
Print Assumptions C06_keyword_any_case.

(* ... and for the regenerated built-in table its side conditions hold for every key (complete sweep) *)
Theorem C06_builtin_keywords_any_case :
  forall cfg0 cfg sn,
    cfg_plain = Some cfg0 -> c_min_score cfg = c_min_score cfg0 -> c_context cfg = None ->
    convert_snippets css_snippets = Ok sn ->
    forall k key' prop value kws deps kw tok v,
      In k table_keys -> word_ok k -> str_eqb k gradient_name = false ->
      find_best_match sn_key k sn (c_min_score cfg) true = Some (SnProp key' prop value kws deps) ->
      assoc_str kw kws = Some tok ->
      word_ok v -> lower v = lower kw ->
      expand_with cfg sn (k ++ c_colon :: v) = Ok (kw_line cfg prop tok).
Proof. exact builtin_keywords_any_case. Qed.
Print Assumptions C06_builtin_keywords_any_case.

(* FULL statement would drop [plain_keyword] down to "dash-free"; it is REFUTED for the keywords that
   contain a digit (scale3d, translate3d): known finding c06:keyword-with-digit *)
Theorem C06_keyword_with_digit_refuted :
  match cfg_plain, builtin_converted with
  | Some cfg, Ok sn =>
      expand_with cfg sn (lit "trf:scale3d") = Ok (lit "transform: scale(x, y) 3d;") /\
      expand_with cfg sn (lit "trf:scale3d(") = Ok (lit "transform: scale3d(x, y, z);")
  | _, _ => False
  end.
Proof. exact keyword_with_digit_refuted. Qed.
Print Assumptions C06_keyword_with_digit_refuted.

(* ---- any letter case: the scorer only sees lower-cased strings (for ALL strings) *)
Theorem C06_score_case_invariant :
  forall a b p, calculate_score a b p = calculate_score (lower a) (lower b) p.
Proof. exact score_case_invariant. Qed.
Print Assumptions C06_score_case_invariant.

Theorem C06_score_lower_only :
  forall a a' b b' p, lower a = lower a' -> lower b = lower b' -> calculate_score a b p = calculate_score a' b' p.
Proof. exact score_lower_only. Qed.
Print Assumptions C06_score_lower_only.

(* ---- exact key wins, for ALL tables, all minimum scores: the first item whose name equals the
   abbreviation up to letter case is returned (no hypothesis on the other items' scores is needed
   with the repaired direct-hit test) *)
Theorem C06_exact_key_wins :
  forall (A : Type) (key : A -> str) abbr min_score partial pre it post,
    lower (key it) = lower abbr ->
    Forall (fun x => lower (key x) <> lower abbr) pre ->
    find_best_match key abbr (pre ++ it :: post) min_score partial = Some it.
Proof. exact @exact_key_wins. Qed.
Print Assumptions C06_exact_key_wins.

Theorem C06_exact_key_wins_unique :
  forall (A : Type) (key : A -> str) abbr min_score partial items it,
    In it items -> lower (key it) = lower abbr ->
    (forall x, In x items -> lower (key x) = lower abbr -> x = it) ->
    find_best_match key abbr items min_score partial = Some it.
Proof. exact @exact_key_wins_unique. Qed.
Print Assumptions C06_exact_key_wins_unique.

(* ---- a user snippet replaces the built-in one under the same key (config.snippets = built-in
   table updated with the user's, dict.update order) *)
Theorem C06_user_overrides :
  forall (user base : list (str * str)) k,
    assoc_str k (update_snippets base user) =
    match assoc_str k (rev user) with Some v => Some v | None => assoc_str k base end.
Proof. exact user_overrides. Qed.
Print Assumptions C06_user_overrides.

(* ---- "reachable under a new key", for ALL tables (user tables included): a property snippet stored under a name
   (letters only: [name_ok]) that is distinct from the other keys up to letter case is reached by typing that name --
   expand prints the snippet's own line.  First on a converted table, then from the raw table config.snippets
   (create_snippet + nest); with C06_user_overrides this is the user-snippet clause for property snippets.
   (Raw user snippets: their body goes through the tabstop regex of resolve_as_snippet; covered by the sweep for the
   built-in table and by the harness for user tables, not by a for-all-tables theorem.) *)
Theorem C06_key_reaches_property_snippet :
  forall cfg sn key prop value kws deps,
    name_ok key -> str_eqb key gradient_name = false ->
    c_context cfg = None -> c_json cfg = false ->
    In (SnProp key prop value kws deps) sn ->
    (forall x, In x sn -> lower (sn_key x) = lower key -> x = SnProp key prop value kws deps) ->
    expand_with cfg sn key = Ok (own_line cfg (SnProp key prop value kws deps)).
Proof. exact key_reaches_property_snippet. Qed.
Print Assumptions C06_key_reaches_property_snippet.

Theorem C06_raw_key_reaches_property_snippet :
  forall cfg raw sn key v prop parsed kws,
    convert_snippets raw = Ok sn ->
    NoDup (map (fun kv => lower (fst kv)) raw) ->
    In (key, v) raw ->
    create_snippet key v = Ok (SnProp key prop parsed kws []) ->
    name_ok key -> str_eqb key gradient_name = false ->
    c_context cfg = None -> c_json cfg = false ->
    exists deps, In (SnProp key prop parsed kws deps) sn /\
                 expand_with cfg sn key = Ok (own_line cfg (SnProp key prop parsed kws deps)).
Proof. exact raw_key_reaches_property_snippet. Qed.
Print Assumptions C06_raw_key_reaches_property_snippet.

(* ---- user VALUE snippets `key: v1|v2|...`: what "<its property>: <its first listed value>" is, for ALL parsed
   values -- any number of tokens, keywords / numbers / colours / strings / function calls nested to any depth.
   SPEC (proofs/CssValuePrint.v): a written value is a list of [wtok] (a leaf with the text it prints as, or a call
   with a name and comma-separated arguments); [wprint] writes tokens separated by single blanks, arguments by ", ";
   [relabel f] replaces the i-th leaf text t (document order, from 1; names of calls are not leaves) by f i t;
   [abs cfg v] reads a parsed value as a written value; [erase_fields] removes `${<digits>:` ... `}` from a string.
   [printable]: the four token kinds with texts free of line breaks (push_string rewrites those), custom properties,
   fields not glued to the previous token; [wrappable]: keywords, numbers, colours, strings, calls of those. *)
Theorem C06_value_print :
  forall cfg v, forallb (printable cfg) v = true -> output_value cfg v = wprint (abs cfg v).
Proof. exact value_print. Qed.
Print Assumptions C06_value_print.

(* the value with every leaf wrapped in a tabstop ([field_of cfg i t] = what output.field returns for (i, t)) *)
Theorem C06_value_wrapped_print :
  forall cfg v, forallb wrappable v = true ->
    output_value cfg (wrap_with_field cfg v) = wprint (relabel (field_of cfg) (abs cfg v)).
Proof. exact wrapped_print. Qed.
Print Assumptions C06_value_wrapped_print.

(* ... numbered 1, 2, ..., k in document order: the leaves of the relabelled value are f 1 t1, f 2 t2, ..., f k tk *)
Theorem C06_value_wrapped_numbering :
  forall f ws, leaves (relabel f ws) = zipf f 1 (leaves ws).
Proof. exact wrapped_leaves. Qed.
Print Assumptions C06_value_wrapped_numbering.

(* ERASURE: text with the fields erased = the unwrapped printing.  (a) the library's default callback prints a field
   as its placeholder: the wrapped value prints exactly like the unwrapped one; (b) with the ${i:t} callback,
   erasing the wrappers from the printed STRING gives the unwrapped printing (texts and names without `$` and `}`) *)
Theorem C06_value_erase_identity :
  forall cfg v, c_field cfg = FieldPlaceholder -> forallb wrappable v = true -> forallb (printable cfg) v = true ->
    output_value cfg (wrap_with_field cfg v) = output_value cfg v.
Proof. exact erase_identity. Qed.
Print Assumptions C06_value_erase_identity.

Theorem C06_value_erase_tabstop :
  forall cfg v, c_field cfg = FieldTabstop -> forallb wrappable v = true -> forallb (printable cfg) v = true ->
    forallb clean_tok (abs cfg v) = true ->
    erase_fields (output_value cfg (wrap_with_field cfg v)) = output_value cfg v.
Proof. exact erase_tabstop. Qed.
Print Assumptions C06_value_erase_tabstop.

Theorem C06_erase_relabel :
  forall ws, forallb clean_tok ws = true -> erase_fields (wprint (relabel tabstop ws)) = wprint ws.
Proof. exact erase_relabel. Qed.
Print Assumptions C06_erase_relabel.

(* END TO END for ALL tables (user tables included) and ALL parsed values: typing the key of a property snippet whose
   first alternative is ONE value [v] (no top-level comma) prints `<property><between><v><after>`:
   - unwrapped when it is the only alternative or has a field of its own;
   - every leaf in a tabstop numbered from 1 in document order when there are >= 2 alternatives and no field.
   [unit_given]: numbers carry a unit that is not a unit alias (resolve_numeric_value then leaves them alone; C05 owns
   the unit rule).  PARTIAL with respect to the snippet SOURCE TEXT: the hypothesis speaks about the parsed snippet
   (In (SnProp ...) sn); that create_snippet parses `prop:alt1|alt2` into these token lists is covered for the value
   grammar by the tokenizer/parser theorems of C05/C18 only in part and otherwise by the correspondence (harness). *)
Theorem C06_user_value_line_plain_partial :
  forall cfg sn key prop v others kws deps,
    name_ok key -> str_eqb key gradient_name = false -> c_context cfg = None -> c_json cfg = false ->
    In (SnProp key prop ([v] :: others) kws deps) sn ->
    (forall x, In x sn -> lower (sn_key x) = lower key -> x = SnProp key prop ([v] :: others) kws deps) ->
    others = [] \/ has_field v = true ->
    forallb (printable cfg) v = true -> Forall (unit_given cfg) v -> nobreakb (prop ++ c_between cfg) = true ->
    expand_with cfg sn key = Ok (prop ++ c_between cfg ++ wprint (abs cfg v) ++ c_after cfg).
Proof. exact user_value_line_plain. Qed.
Print Assumptions C06_user_value_line_plain_partial.

Theorem C06_user_value_line_wrapped_partial :
  forall cfg sn key prop v o others kws deps,
    name_ok key -> str_eqb key gradient_name = false -> c_context cfg = None -> c_json cfg = false ->
    In (SnProp key prop ([v] :: o :: others) kws deps) sn ->
    (forall x, In x sn -> lower (sn_key x) = lower key -> x = SnProp key prop ([v] :: o :: others) kws deps) ->
    forallb wrappable v = true -> nobreakb (prop ++ c_between cfg) = true ->
    expand_with cfg sn key =
    Ok (prop ++ c_between cfg ++ wprint (relabel (field_of cfg) (abs cfg v)) ++ c_after cfg).
Proof. exact user_value_line_wrapped. Qed.
Print Assumptions C06_user_value_line_wrapped_partial.

(* non-vacuity, with a nested call: the user table {zq: "m:f(g(1px 2px, 3px), #fff) no-repeat|none"} converts to a
   snippet that satisfies the hypotheses of C06_user_value_line_wrapped_partial; expand prints the line below and
   erasing the tabstops gives the value as written *)
Example C06_value_nonvacuous :
  let cfg := mkCfg [] None [] [] true (lit ": ") (lit ";") (lit "px") (lit "em") [] false false false f_zero true
                   (lit "\n") [] (lit "\t") FieldTabstop in
  let raw := [(lit "zq", lit "m:f(g(1px 2px, 3px), #fff) no-repeat|none")] in
  exists sn v o kws deps,
    convert_snippets raw = Ok sn /\ In (SnProp (lit "zq") (lit "m") [[v]; o] kws deps) sn /\
    name_ok (lit "zq") /\ forallb wrappable v = true /\ forallb (printable cfg) v = true /\
    forallb clean_tok (abs cfg v) = true /\
    leaves (abs cfg v) = [lit "1px"; lit "2px"; lit "3px"; lit "#fff"; lit "no-repeat"] /\
    expand_with cfg sn (lit "zq") = Ok (lit "m: f(g(${1:1px} ${2:2px}, ${3:3px}), ${4:#fff}) ${5:no-repeat};") /\
    erase_fields (lit "m: f(g(${1:1px} ${2:2px}, ${3:3px}), ${4:#fff}) ${5:no-repeat};")
    = lit "m: f(g(1px 2px, 3px), #fff) no-repeat;".
Proof.
  cbv zeta. do 5 eexists. split; [vm_compute; reflexivity|]. split; [left; reflexivity|].
  split; [split; [discriminate|repeat constructor]|].
  repeat split; vm_compute; reflexivity.
Qed.

(* ---- FROM THE SNIPPET TEXT (config.snippets), for ALL tables and ALL written values.
   SPEC (proofs/CssValueSource.v): a written value is a list of [stok]: keyword (a letter, then letters / digits / _ / -),
   number (C05's numv: sign, digits, fraction, unit), colour (C05's colv: hex digits, optional alpha), quoted string
   (body without its own quote), or a call `name(arg, arg, ...)` whose arguments are non-empty token lists -- nested to
   ANY depth ([toks_ok]).  [render v] is its text: tokens separated by one blank, arguments by ", ".
   [printed cfg t] is what a token prints as (numbers through frac, colours through color/shortHex; keywords and
   strings as written).

   Tokenizer and parser on that text, for every written value: *)
Theorem C06_value_text_parses :
  forall v, toks_ok v -> v <> [] ->
    exists pv, css_parse true (render v) = Ok [mkProp None [pv] false false] /\ map unpos pv = map cv_tok v.
Proof. exact css_parse_render. Qed.
Print Assumptions C06_value_text_parses.

(* END TO END.  The user's table [raw] holds  key -> "prop:" ++ blanks ++ first ++ "|" ++ alt2 ++ "|" ... ++ semicolons  where
   [first] is the text of ANY written value [v]; the other alternatives only have to parse ([map_res parse_value]: otherwise the
   table does not convert at all) and, like the first, contain no `|`; the text after the colon contains no line
   break and no `;` ([group_ok]: the regular expression of create_snippet ends a property snippet there).  Then typing
   the key prints  prop<between> + the first alternative with every leaf token in a tabstop numbered 1..k in document
   order + <after>.
   PARTIAL with respect to the statement "for all user property snippets": the layout of the text is the canonical one
   (exactly one blank between tokens, ", " between arguments, no blank before the colon; any white space after the
   colon and any number of trailing `;` are covered); other layouts and explicit ${n:..} fields written in the text are covered by the parsed-level theorems above
   (C06_user_value_line_*_partial, for all parsed values) and by the harness, not by a theorem about the text. *)
Theorem C06_user_snippet_wrapped_partial :
  forall cfg raw sn key prop ws ss v o others po pothers,
    convert_snippets raw = Ok sn -> NoDup (map (fun kv => lower (fst kv)) raw) ->
    In (key, prop ++ c_colon :: ws ++ join [c_pipe] (render v :: o :: others) ++ ss) raw -> blanks ws -> semis ss ->
    name_ok key -> str_eqb key gradient_name = false -> c_context cfg = None -> c_json cfg = false ->
    prop_ok prop -> toks_ok v -> v <> [] ->
    group_ok (join [c_pipe] (render v :: o :: others)) ->
    no_char c_pipe (render v) -> Forall (no_char c_pipe) (o :: others) ->
    map_res parse_value (o :: others) = Ok (po :: pothers) ->
    nobreakb (prop ++ c_between cfg) = true ->
    expand_with cfg sn key =
    Ok (prop ++ c_between cfg ++ wprint (relabel (field_of cfg) (map (printed cfg) v)) ++ c_after cfg).
Proof. exact user_snippet_wrapped. Qed.
Print Assumptions C06_user_snippet_wrapped_partial.

(* one alternative: unwrapped; [unit_given]: numbers at the top level carry a unit that is not a unit alias (C05 owns
   the unit rule); [printable]: the texts contain no line break *)
Theorem C06_user_snippet_plain_partial :
  forall cfg raw sn key prop ws ss v,
    convert_snippets raw = Ok sn -> NoDup (map (fun kv => lower (fst kv)) raw) ->
    In (key, prop ++ c_colon :: ws ++ render v ++ ss) raw -> blanks ws -> semis ss ->
    name_ok key -> str_eqb key gradient_name = false -> c_context cfg = None -> c_json cfg = false ->
    prop_ok prop -> toks_ok v -> v <> [] ->
    group_ok (render v) -> no_char c_pipe (render v) ->
    forallb (printable cfg) (map cv_tok v) = true -> Forall (unit_given cfg) (map cv_tok v) ->
    nobreakb (prop ++ c_between cfg) = true ->
    expand_with cfg sn key = Ok (prop ++ c_between cfg ++ wprint (map (printed cfg) v) ++ c_after cfg).
Proof. exact user_snippet_plain. Qed.
Print Assumptions C06_user_snippet_plain_partial.

(* ... "its first listed value" verbatim, when every token prints as it is written (canonical numbers and colours) *)
Theorem C06_user_snippet_plain_verbatim_partial :
  forall cfg raw sn key prop ws ss v,
    convert_snippets raw = Ok sn -> NoDup (map (fun kv => lower (fst kv)) raw) ->
    In (key, prop ++ c_colon :: ws ++ render v ++ ss) raw -> blanks ws -> semis ss ->
    name_ok key -> str_eqb key gradient_name = false -> c_context cfg = None -> c_json cfg = false ->
    prop_ok prop -> toks_ok v -> v <> [] ->
    group_ok (render v) -> no_char c_pipe (render v) ->
    forallb (printable cfg) (map cv_tok v) = true -> Forall (unit_given cfg) (map cv_tok v) ->
    nobreakb (prop ++ c_between cfg) = true ->
    map (printed cfg) v = map written v ->
    expand_with cfg sn key = Ok (prop ++ c_between cfg ++ render v ++ c_after cfg).
Proof. exact user_snippet_plain_verbatim. Qed.
Print Assumptions C06_user_snippet_plain_verbatim_partial.

(* non-vacuity of the end-to-end theorem, nested call: v = f(g(1px 2px, 3px), #fff) no-repeat, second alternative none *)
Ltac wf_tac :=
  repeat match goal with
         | |- _ /\ _ => split
         | |- True => exact I
         | |- Forall _ [] => constructor
         | |- Forall _ (_ :: _) => constructor
         | |- _ = _ => reflexivity
         | |- _ <> _ => discriminate
         | |- _ \/ _ => first [left; solve [wf_tac] | right; solve [wf_tac]]
         | |- hexc _ => exact eq_refl
         end.

Example C06_user_snippet_nonvacuous :
  let cfg := mkCfg [] None [] [] true (lit ": ") (lit ";") (lit "px") (lit "em") [] false false false f_zero true
                   (lit "\n") [] (lit "\t") FieldTabstop in
  let px (n : str) := SNum (mkNum false n None (lit "px")) in
  let v := [SCall (lit "f") [[SCall (lit "g") [[px (lit "1"); px (lit "2")]; [px (lit "3")]]]; [SCol (mkCol (lit "fff") None)]];
            SKw (lit "no-repeat")] in
  let text := lit "m: f(g(1px 2px, 3px), #fff) no-repeat|none;" in
  text = lit "m" ++ c_colon :: lit " " ++ join [c_pipe] [render v; lit "none"] ++ lit ";" /\
  blanks (lit " ") /\ semis (lit ";") /\
  toks_ok v /\ prop_ok (lit "m") /\ group_ok (join [c_pipe] [render v; lit "none"]) /\
  no_char c_pipe (render v) /\ Forall (no_char c_pipe) [lit "none"] /\
  (exists po, map_res parse_value [lit "none"] = Ok [po]) /\
  (exists sn, convert_snippets [(lit "zq", text)] = Ok sn) /\
  lit "m" ++ c_between cfg ++ wprint (relabel (field_of cfg) (map (printed cfg) v)) ++ c_after cfg
  = lit "m: f(g(${1:1px} ${2:2px}, ${3:3px}), ${4:#fff}) ${5:no-repeat};".
Proof.
  cbv zeta. split; [vm_compute; reflexivity|]. split; [repeat constructor|]. split; [repeat constructor|].
  split; [cbn; unfold numv_ok, colv_ok, all_digits, unit_ok; cbn; wf_tac|].
  split; [split; [discriminate|repeat constructor]|].
  split; [split; [vm_compute; repeat constructor|vm_compute; reflexivity]|].
  split; [vm_compute; repeat constructor|]. split; [vm_compute; repeat constructor|].
  split; [eexists; vm_compute; reflexivity|]. split; [eexists; vm_compute; reflexivity|].
  vm_compute. reflexivity.
Qed.

(* ---- scope filter: @@section only raw snippets, @@property only property snippets, and the matcher
   only returns members of the list it is given *)
Theorem C06_scope_section :
  forall cfg sn, c_context cfg = Some scope_section ->
    Forall (fun s => sn_is_property s = false) (get_snippets_for_scope sn cfg) /\
    (forall s, In s sn -> sn_is_property s = false -> In s (get_snippets_for_scope sn cfg)).
Proof. exact scope_section_only_raw. Qed.
Print Assumptions C06_scope_section.

Theorem C06_scope_property :
  forall cfg sn, c_context cfg = Some scope_property ->
    Forall (fun s => sn_is_property s = true) (get_snippets_for_scope sn cfg) /\
    (forall s, In s sn -> sn_is_property s = true -> In s (get_snippets_for_scope sn cfg)).
Proof. exact scope_property_only_props. Qed.
Print Assumptions C06_scope_property.

Theorem C06_match_in_scope :
  forall (A : Type) (key : A -> str) abbr items min_score partial x,
    find_best_match key abbr items min_score partial = Some x -> In x items.
Proof. exact @find_best_match_in. Qed.
Print Assumptions C06_match_in_scope.

(* non-vacuity: the sweeps cover >= 300 (snippet, keyword) pairs and 230 keys; a fuzzy score of exactly 1.0
   between unequal names exists (the reason the direct-hit test compares names) *)
Example C06_nonvacuous :
  (300 <= keyword_pairs)%nat /\ (200 <= length table_keys)%nat /\
  calculate_score (lit "annii") (lit "animfm") true = f_one /\
  find_best_match (fun x : str => x) (lit "annii") [lit "animfm"; lit "ANNII"] f_zero true = Some (lit "ANNII").
Proof. vm_compute. repeat split; try reflexivity; repeat constructor. Qed.

(* the for-all-tables theorem applies to the known score-1.0 collision: a table holding both `abcd` and `acddd`
   (calculate_score "acddd" "abcd" true = 1.0) satisfies its hypotheses for the key `acddd` *)
Example C06_new_key_nonvacuous :
  let raw := [(lit "abcd", lit "foo-bar:baz"); (lit "acddd", lit "x-y:z|w")] in
  calculate_score (lit "acddd") (lit "abcd") true = f_one /\
  exists sn prop parsed kws,
    convert_snippets raw = Ok sn /\
    create_snippet (lit "acddd") (lit "x-y:z|w") = Ok (SnProp (lit "acddd") prop parsed kws []) /\
    name_ok (lit "acddd") /\ NoDup (map (fun kv => lower (fst kv)) raw) /\ In (lit "acddd", lit "x-y:z|w") raw.
Proof.
  cbv zeta. split; [vm_compute; reflexivity|].
  do 4 eexists. split; [vm_compute; reflexivity|]. split; [vm_compute; reflexivity|].
  split; [split; [discriminate|repeat constructor]|]. split.
  - vm_compute. constructor; [intros [H|[]]; discriminate|]. constructor; [intros []|constructor].
  - right. left. reflexivity.
Qed.
