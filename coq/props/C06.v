(* C06 -- A stylesheet snippet is always reachable by its own key.
   Property theorems only; each closed by [exact] of a lemma proved in proofs/.

   [css_snippets] is gen/GenCssSnippets.v, REGENERATED from Config({'type':'stylesheet'}).snippets
   of the repository under test on every run; the two sweeps are complete (every key, every
   keyword) and are re-proved by vm_compute whenever the table changes.  The scorer is the
   bit-exact PrimFloat model (the kernel's primitive floats appear under Print Assumptions). *)
From Coq Require Import String.
From Emmet Require Import lib.Base lib.StyleLib gen.GenCssSnippets model.CssTokenizer model.CssParser
     model.Score model.Color model.CssSnippets model.CssResolve model.CssFormat run.StyleShow
     proofs.StyleSweep proofs.StyleMatchProofs proofs.StyleReachProofs proofs.StyleKeywordProofs.
Local Open Scope N_scope.

(* ---- every key of the built-in table reaches its own snippet.
   [cfg_tab] = Config({'type': 'stylesheet', 'syntax': 'css'}) with a field callback printing
   ${index:placeholder}.  [own_line cfg s] (proofs/StyleSweep.v) is the snippet's own line:
   "<property>: <first listed value, tabstop-wrapped when there are several alternatives and it has
   no tabstop of its own; a tabstop when no value is listed>;" for a property snippet, the body
   (tabstops included) for a raw snippet. *)
Theorem C06_keys_reach_self :
  forall cfg sn,
    cfg_tab = Some cfg -> convert_snippets css_snippets = Ok sn ->
    forall k, In k table_keys ->
      (* the matcher selects the snippet stored under k, and no other ... *)
      (exists s, find_best_match sn_key k sn (c_min_score cfg) true = Some s /\ sn_key s = k) /\
      (* ... and expand prints that snippet's own line (the gradient shortcut `lg` is resolved before
         the table is consulted: see C06_gradient_key) *)
      (k <> gradient_name ->
       exists s, find_snippet sn k = Some s /\ sn_key s = k /\ expand_with cfg sn k = Ok (own_line cfg s)).
Proof. exact keys_reach_self. Qed.
Print Assumptions C06_keys_reach_self.

Theorem C06_sweep_inhabited :
  (exists cfg, cfg_tab = Some cfg) /\ (exists sn, convert_snippets css_snippets = Ok sn).
Proof. exact sweep_inhabited. Qed.
Print Assumptions C06_sweep_inhabited.

(* `lg`: its snippet's line with the tabstop numbered 0 instead of 1; identical to the snippet's own
   line under the library's default field callback *)
Theorem C06_gradient_key :
  match cfg_tab, cfg_plain, builtin_converted with
  | Some ct, Some cp, Ok sn =>
      expand_with ct sn gradient_name = Ok (lit "background-image: linear-gradient(${0});") /\
      match find_snippet sn gradient_name with
      | Some s => own_line ct s = lit "background-image: linear-gradient(${1});" /\
                  expand_with cp sn gradient_name = Ok (own_line cp s)
      | None => False
      end
  | _, _, _ => False
  end.
Proof. exact gradient_key_line. Qed.
Print Assumptions C06_gradient_key.

(* ---- every keyword made of letters (dash-free, digit-free) listed by a property snippet, typed in
   full after the key -- as listed, lower, UPPER, aLtErNaTiNg, AlTeRnAtInG -- resolves to that keyword:
   "<key>:<kw>" and "<key>-<kw>" print "<property>: <the listed keyword>;" *)
Theorem C06_keywords_resolve :
  forall cfg sn,
    cfg_tab = Some cfg -> convert_snippets css_snippets = Ok sn ->
    forall key prop value kws deps kw tok v,
      In (SnProp key prop value kws deps) sn -> In (kw, tok) kws -> plain_keyword kw = true ->
      In v (kw_variants kw) ->
      expand_with cfg sn (key ++ c_colon :: v) = Ok (kw_line cfg prop tok) /\
      expand_with cfg sn (key ++ c_dash :: v) = Ok (kw_line cfg prop tok).
Proof. exact keywords_resolve. Qed.
Print Assumptions C06_keywords_resolve.

(* ---- ANY letter case (all 2^n spellings, not only the five of the sweep), for ALL tables: when the name selects
   a property snippet whose keywords are distinct up to letter case, a listed keyword [kw] typed after `:` in any mix
   of upper and lower case [v] (letters only: [word_ok]) resolves to the listed entry [tok] *)
Theorem C06_keyword_any_case :
  forall cfg sn key key' prop value kws deps kw tok v,
    word_ok key -> word_ok v -> str_eqb key gradient_name = false -> c_context cfg = None ->
    find_best_match sn_key key sn (c_min_score cfg) true = Some (SnProp key' prop value kws deps) ->
    get_unmatched_part key key' 0 = [] ->
    In kw (map fst kws) -> assoc_str kw kws = Some tok -> lower v = lower kw ->
    (forall x, In x (map fst kws) -> lower x = lower kw -> x = kw) ->
    expand_with cfg sn (key ++ c_colon :: v) = Ok (kw_line cfg prop tok).
Proof. exact keyword_any_case. Qed.
Print Assumptions C06_keyword_any_case.

(* ... and for the regenerated built-in table its side conditions hold for every key (complete sweep) *)
Theorem C06_builtin_keywords_any_case :
  forall cfg0 cfg sn,
    cfg_plain = Some cfg0 -> c_min_score cfg = c_min_score cfg0 -> c_context cfg = None ->
    convert_snippets css_snippets = Ok sn ->
    forall k key' prop value kws deps kw tok v,
      In k table_keys -> word_ok k -> str_eqb k gradient_name = false ->
      find_best_match sn_key k sn (c_min_score cfg) true = Some (SnProp key' prop value kws deps) ->
      assoc_str kw kws = Some tok ->
      word_ok v -> lower v = lower kw ->
      expand_with cfg sn (k ++ c_colon :: v) = Ok (kw_line cfg prop tok).
Proof. exact builtin_keywords_any_case. Qed.
Print Assumptions C06_builtin_keywords_any_case.

(* FULL statement would drop [plain_keyword] down to "dash-free"; it is REFUTED for the keywords that
   contain a digit (scale3d, translate3d): known finding c06:keyword-with-digit *)
Theorem C06_keyword_with_digit_refuted :
  match cfg_plain, builtin_converted with
  | Some cfg, Ok sn =>
      expand_with cfg sn (lit "trf:scale3d") = Ok (lit "transform: scale(x, y) 3d;") /\
      expand_with cfg sn (lit "trf:scale3d(") = Ok (lit "transform: scale3d(x, y, z);")
  | _, _ => False
  end.
Proof. exact keyword_with_digit_refuted. Qed.
Print Assumptions C06_keyword_with_digit_refuted.

(* ---- any letter case: the scorer only sees lower-cased strings (for ALL strings) *)
Theorem C06_score_case_invariant :
  forall a b p, calculate_score a b p = calculate_score (lower a) (lower b) p.
Proof. exact score_case_invariant. Qed.
Print Assumptions C06_score_case_invariant.

Theorem C06_score_lower_only :
  forall a a' b b' p, lower a = lower a' -> lower b = lower b' -> calculate_score a b p = calculate_score a' b' p.
Proof. exact score_lower_only. Qed.
Print Assumptions C06_score_lower_only.

(* ---- exact key wins, for ALL tables, all minimum scores: the first item whose name equals the
   abbreviation up to letter case is returned (no hypothesis on the other items' scores is needed
   with the repaired direct-hit test) *)
Theorem C06_exact_key_wins :
  forall (A : Type) (key : A -> str) abbr min_score partial pre it post,
    lower (key it) = lower abbr ->
    Forall (fun x => lower (key x) <> lower abbr) pre ->
    find_best_match key abbr (pre ++ it :: post) min_score partial = Some it.
Proof. exact @exact_key_wins. Qed.
Print Assumptions C06_exact_key_wins.

Theorem C06_exact_key_wins_unique :
  forall (A : Type) (key : A -> str) abbr min_score partial items it,
    In it items -> lower (key it) = lower abbr ->
    (forall x, In x items -> lower (key x) = lower abbr -> x = it) ->
    find_best_match key abbr items min_score partial = Some it.
Proof. exact @exact_key_wins_unique. Qed.
Print Assumptions C06_exact_key_wins_unique.

(* ---- a user snippet replaces the built-in one under the same key (config.snippets = built-in
   table updated with the user's, dict.update order) *)
Theorem C06_user_overrides :
  forall (user base : list (str * str)) k,
    assoc_str k (update_snippets base user) =
    match assoc_str k (rev user) with Some v => Some v | None => assoc_str k base end.
Proof. exact user_overrides. Qed.
Print Assumptions C06_user_overrides.

(* ---- "reachable under a new key", for ALL tables (user tables included): a property snippet stored under a name
   (letters only: [name_ok]) that is distinct from the other keys up to letter case is reached by typing that name --
   expand prints the snippet's own line.  First on a converted table, then from the raw table config.snippets
   (create_snippet + nest); with C06_user_overrides this is the user-snippet clause for property snippets.
   (Raw user snippets: their body goes through the tabstop regex of resolve_as_snippet; covered by the sweep for the
   built-in table and by the harness for user tables, not by a for-all-tables theorem.) *)
Theorem C06_key_reaches_property_snippet :
  forall cfg sn key prop value kws deps,
    name_ok key -> str_eqb key gradient_name = false ->
    c_context cfg = None -> c_json cfg = false ->
    In (SnProp key prop value kws deps) sn ->
    (forall x, In x sn -> lower (sn_key x) = lower key -> x = SnProp key prop value kws deps) ->
    expand_with cfg sn key = Ok (own_line cfg (SnProp key prop value kws deps)).
Proof. exact key_reaches_property_snippet. Qed.
Print Assumptions C06_key_reaches_property_snippet.

Theorem C06_raw_key_reaches_property_snippet :
  forall cfg raw sn key v prop parsed kws,
    convert_snippets raw = Ok sn ->
    NoDup (map (fun kv => lower (fst kv)) raw) ->
    In (key, v) raw ->
    create_snippet key v = Ok (SnProp key prop parsed kws []) ->
    name_ok key -> str_eqb key gradient_name = false ->
    c_context cfg = None -> c_json cfg = false ->
    exists deps, In (SnProp key prop parsed kws deps) sn /\
                 expand_with cfg sn key = Ok (own_line cfg (SnProp key prop parsed kws deps)).
Proof. exact raw_key_reaches_property_snippet. Qed.
Print Assumptions C06_raw_key_reaches_property_snippet.

(* ---- scope filter: @@section only raw snippets, @@property only property snippets, and the matcher
   only returns members of the list it is given *)
Theorem C06_scope_section :
  forall cfg sn, c_context cfg = Some scope_section ->
    Forall (fun s => sn_is_property s = false) (get_snippets_for_scope sn cfg) /\
    (forall s, In s sn -> sn_is_property s = false -> In s (get_snippets_for_scope sn cfg)).
Proof. exact scope_section_only_raw. Qed.
Print Assumptions C06_scope_section.

Theorem C06_scope_property :
  forall cfg sn, c_context cfg = Some scope_property ->
    Forall (fun s => sn_is_property s = true) (get_snippets_for_scope sn cfg) /\
    (forall s, In s sn -> sn_is_property s = true -> In s (get_snippets_for_scope sn cfg)).
Proof. exact scope_property_only_props. Qed.
Print Assumptions C06_scope_property.

Theorem C06_match_in_scope :
  forall (A : Type) (key : A -> str) abbr items min_score partial x,
    find_best_match key abbr items min_score partial = Some x -> In x items.
Proof. exact @find_best_match_in. Qed.
Print Assumptions C06_match_in_scope.

(* non-vacuity: the sweeps cover >= 300 (snippet, keyword) pairs and 230 keys; a fuzzy score of exactly 1.0
   between unequal names exists (the reason the direct-hit test compares names) *)
Example C06_nonvacuous :
  (300 <= keyword_pairs)%nat /\ (200 <= length table_keys)%nat /\
  calculate_score (lit "annii") (lit "animfm") true = f_one /\
  find_best_match (fun x : str => x) (lit "annii") [lit "animfm"; lit "ANNII"] f_zero true = Some (lit "ANNII").
Proof. vm_compute. repeat split; try reflexivity; repeat constructor. Qed.

(* the for-all-tables theorem applies to the known score-1.0 collision: a table holding both `abcd` and `acddd`
   (calculate_score "acddd" "abcd" true = 1.0) satisfies its hypotheses for the key `acddd` *)
Example C06_new_key_nonvacuous :
  let raw := [(lit "abcd", lit "foo-bar:baz"); (lit "acddd", lit "x-y:z|w")] in
  calculate_score (lit "acddd") (lit "abcd") true = f_one /\
  exists sn prop parsed kws,
    convert_snippets raw = Ok sn /\
    create_snippet (lit "acddd") (lit "x-y:z|w") = Ok (SnProp (lit "acddd") prop parsed kws []) /\
    name_ok (lit "acddd") /\ NoDup (map (fun kv => lower (fst kv)) raw) /\ In (lit "acddd", lit "x-y:z|w") raw.
Proof.
  cbv zeta. split; [vm_compute; reflexivity|].
  do 4 eexists. split; [vm_compute; reflexivity|]. split; [vm_compute; reflexivity|].
  split; [split; [discriminate|repeat constructor]|]. split.
  - vm_compute. constructor; [intros [H|[]]; discriminate|]. constructor; [intros []|constructor].
  - right. left. reflexivity.
Qed.
