(* C20 -- Configuration layers override each other in the documented order.
   Property theorems only; each closed by [exact] of a lemma proved in proofs/.

   MODEL (model/Config.v): [merged_data e ty syn sec] and [config_init b u g] follow
   emmet/config.py; the ORDER of the `result.update(...)` statements and the place each
   layer is fetched from are [layer_stmts] in gen/GenLayerOrder.v, regenerated from the AST
   of merged_data on every run.  Dicts are insertion-ordered association lists with Python's
   `d[k] = v` / `d.update(src)` ([dset], [dupdate]); values are an ARBITRARY type V (the
   model never looks inside a value), layer contents, names and keys are universally
   quantified.

   SPEC (proofs/ConfigProofs.v):
     documented_order = [Default; TypeDefaults; SyntaxDefaults; TypeOverride; SyntaxOverride; User]
     layer_section e ty syn sec l   the dict the documented layer l holds for section sec
                                    (DEFAULT_CONFIG, SYNTAX_CONFIG[ty], SYNTAX_CONFIG[syn],
                                     global[ty], global[syn], the call's own config)
     layer_value e ty syn sec l k   the value layer l gives to key k, None if it does not define k
     spec_lookup e ty syn sec k     first defined [layer_value] scanning documented_order from
                                    its most specific end (User) down to Default.              *)
From Emmet Require Import lib.Base lib.ConfigLib gen.GenLayerOrder gen.GenConfig model.Config
  proofs.ConfigProofs proofs.ConfigTables proofs.ConfigTablesExt proofs.ConfigPurity
  lib.ConfigVal proofs.ConfigCanon proofs.ConfigExpand proofs.ConfigExpandTables proofs.ConfigExpandExamples.

(* ---- the order of the update statements read from the source IS the documented one
   (swapping two `result.update` lines, or fetching a layer from the other table or under
   the other name, regenerates GenLayerOrder.v and breaks this) *)
Theorem C20_layer_order_documented :
  layer_order = [Default; TypeDefaults; SyntaxDefaults; TypeOverride; SyntaxOverride; User].
Proof. exact layer_order_documented. Qed.
Print Assumptions C20_layer_order_documented.

(* ---- PRECEDENCE, for all layer contents, type/syntax/section names and keys: the merged
   dict gives k the value of the most specific layer that defines k (None iff none does) *)
Theorem C20_merged_lookup :
  forall (V : Type) (e : env V) (ty syn sec k : str),
    dget k (merged_data e ty syn sec) = spec_lookup e ty syn sec k.
Proof. exact (@merged_lookup). Qed.
Print Assumptions C20_merged_lookup.

(* the same with the six layers spelled out, most specific first *)
Theorem C20_merged_lookup_explicit :
  forall (V : Type) (e : env V) (ty syn sec k : str),
    dget k (merged_data e ty syn sec) =
    match layer_value e ty syn sec User k with Some v => Some v | None =>
    match layer_value e ty syn sec SyntaxOverride k with Some v => Some v | None =>
    match layer_value e ty syn sec TypeOverride k with Some v => Some v | None =>
    match layer_value e ty syn sec SyntaxDefaults k with Some v => Some v | None =>
    match layer_value e ty syn sec TypeDefaults k with Some v => Some v | None =>
    layer_value e ty syn sec Default k end end end end end.
Proof. exact (@merged_lookup_explicit). Qed.
Print Assumptions C20_merged_lookup_explicit.

(* the result is a real dict (unique keys), whatever the statement list *)
Theorem C20_merged_wf :
  forall (V : Type) (stmts : list (source * guard)) (e : env V) (ty syn sec : str),
    wf (merged_over stmts e ty syn sec).
Proof. exact (@merged_wf). Qed.
Print Assumptions C20_merged_wf.

(* ---- UNTOUCHED: a layer that does not mention k leaves k as it was: removing that layer's
   update statement altogether does not change the effective value of k *)
Theorem C20_untouched_layer :
  forall (V : Type) (e : env V) (ty syn sec : str) (l : layer) (k : str),
    layer_value e ty syn sec l k = None ->
    dget k (merged_over (without_layer l layer_stmts) e ty syn sec) = dget k (merged_data e ty syn sec).
Proof. exact (@untouched_layer). Qed.
Print Assumptions C20_untouched_layer.

(* ---- UNKNOWN SYNTAX: a syntax name for which neither the built-in table SYNTAX_CONFIG
   nor the caller's global config has an entry contributes nothing: the result is, as a
   whole dict, built-in defaults + type defaults + global type override + the call's config *)
Theorem C20_unknown_syntax :
  forall (V : Type) (e : env V) (ty syn sec : str),
    unknown_name e syn ->
    merged_data e ty syn sec =
    dupdate (dupdate (dupdate (dupdate [] (layer_section e ty syn sec Default))
                              (layer_section e ty syn sec TypeDefaults))
                     (layer_section e ty syn sec TypeOverride))
            (layer_section e ty syn sec User).
Proof. exact (@unknown_syntax). Qed.
Print Assumptions C20_unknown_syntax.

(* ... so all unknown names give the same configuration *)
Theorem C20_unknown_syntax_any :
  forall (V : Type) (e : env V) (ty syn1 syn2 sec : str),
    unknown_name e syn1 -> unknown_name e syn2 -> merged_data e ty syn1 sec = merged_data e ty syn2 sec.
Proof. exact (@unknown_syntax_any). Qed.
Print Assumptions C20_unknown_syntax_any.

(* ---- names that are keys of SYNTAX_CONFIG without being syntaxes: the type's own name
   used as syntax name ('markup' under type markup, 'stylesheet' under type stylesheet)
   fetches the type's layers a second time, which changes no effective value: the answer
   is that of an unknown syntax.  (The OTHER type's name, and 'xhtml', are ordinary keys of
   the table: their entry is the "defaults of the syntax" layer and C20_merged_lookup
   applies as it stands; see harness/props/c20.py for what the real code does.) *)
Theorem C20_syntax_named_as_type :
  forall (V : Type) (e : env V) (ty sec k : str),
    dget k (merged_data e ty ty sec) =
    match layer_value e ty ty sec User k with Some v => Some v | None =>
    match layer_value e ty ty sec TypeOverride k with Some v => Some v | None =>
    match layer_value e ty ty sec TypeDefaults k with Some v => Some v | None =>
    layer_value e ty ty sec Default k end end end.
Proof. exact (@syntax_named_as_type). Qed.
Print Assumptions C20_syntax_named_as_type.

(* ---- Config(user, global): the three documented slots are assigned, type and syntax
   are resolved as documented ('markup' / DEFAULT_SYNTAXES[type] / 'html'), and every
   slot obeys the precedence *)
Theorem C20_config_lookup :
  forall (V : Type) (b : builtin V) (u : user_config V) (g : cfg_table V) (sec k : str),
    In sec [s_variables; s_snippets; s_options] ->
    exists d, config_section (config_init b u g) sec = Some d /\
              cf_type (config_init b u g) = resolved_type u /\
              cf_syntax (config_init b u g) = resolved_syntax b u /\
              d = merged_data (config_env b u g) (resolved_type u) (resolved_syntax b u) sec /\
              dget k d = spec_lookup (config_env b u g) (resolved_type u) (resolved_syntax b u) sec k.
Proof. exact (@config_lookup). Qed.
Print Assumptions C20_config_lookup.

(* ---- the finite table of the statement, on the GENERATED built-in tables: every
   (type, syntax) pair of SYNTAXES x {variables, snippets, options} x all 2^6 subsets of
   layers (built-in defaults and the five overriding layers) in which a probe key is
   planted with the layer's own marker: the probe has the documented value and every
   other key is exactly as without the planting *)
Theorem C20_tables_for_all_syntaxes :
  forall ty syn, In (ty, syn) known_pairs ->
  forall sec, In sec init_sections ->
  forall bits, In bits all_subsets ->
    dget probe (planted_result ty syn sec bits) = expected (subset_of_bits bits) /\
    forall k, k <> probe -> dget k (planted_result ty syn sec bits) = dget k (plain_result ty syn sec).
Proof. exact tables_for_all_syntaxes. Qed.
Print Assumptions C20_tables_for_all_syntaxes.

(* ---- the same finite table for EVERY syntax name under BOTH types (proofs/ConfigTablesExt.v):
   all listed syntaxes (also under the other type), the keys of SYNTAX_CONFIG that are no listed
   syntax (markup, stylesheet, xhtml) and a name without table entry ("zzz") *)
Theorem C20_tables_for_all_names :
  forall ty syn, In (ty, syn) distinct_pairs ->
  forall sec, In sec init_sections ->
  forall bits, In bits all_subsets ->
    dget probe (planted_result ty syn sec bits) = expected (subset_of_bits bits) /\
    forall k, k <> probe -> dget k (planted_result ty syn sec bits) = dget k (plain_result ty syn sec).
Proof. exact tables_for_all_names. Qed.
Print Assumptions C20_tables_for_all_names.

(* type name = syntax name: type layer and syntax layer are the same dict, the planting under
   the syntax name replaces the one under the type name; otherwise the documented order *)
Theorem C20_tables_for_type_named_syntax :
  forall ty syn, In (ty, syn) same_pairs ->
  forall sec, In sec init_sections ->
  forall bits, In bits all_subsets ->
    dget probe (planted_result ty syn sec bits) = expected_same (subset_of_bits bits) /\
    forall k, k <> probe -> dget k (planted_result ty syn sec bits) = dget k (plain_result ty syn sec).
Proof. exact tables_for_type_named_syntax. Qed.
Print Assumptions C20_tables_for_type_named_syntax.

Theorem C20_ext_pairs_covered :
  forall ty syn, In ty type_names -> In syn all_names ->
    In (ty, syn) distinct_pairs \/ In (ty, syn) same_pairs.
Proof. exact ext_pairs_covered. Qed.
Print Assumptions C20_ext_pairs_covered.

(* every name the built-in table does not know gives, cell for cell, the configuration of "zzz"
   (whose cells are in the sweep above): unknown syntax names fall back to the type's layers *)
Theorem C20_unknown_names_like_sample :
  forall ty syn sec d td to u,
    ~ In syn table_keys -> syn <> ty -> unknown_sample <> ty ->
    planted_result ty syn sec [d; td; false; to; false; u] =
    planted_result ty unknown_sample sec [d; td; false; to; false; u].
Proof. exact unknown_names_like_sample. Qed.
Print Assumptions C20_unknown_names_like_sample.

(* the sweep really contains every subset *)
Theorem C20_all_subsets_complete :
  forall d td sd to so u : bool, In [d; td; sd; to; so; u] all_subsets.
Proof. exact all_subsets_complete. Qed.
Print Assumptions C20_all_subsets_complete.

(* ---- PURITY: "merging never modifies the built-in tables or the caller's dictionaries", on the
   model with explicit object identities (proofs/ConfigPurity.v): a heap of dict objects whose
   values are data or REFERENCES to other dict objects; DEFAULT_CONFIG, SYNTAX_CONFIG,
   global_config and user_config are four root references, their layer configs and sections
   further objects in ANY aliasing pattern (no well-formedness is assumed).
   [merged_data_heap] follows merged_data statement by statement (allocates `empty` and
   `result`, one `result.update(section)` per generated statement; ill-typed accesses fail).
   Whenever it returns: every object that existed before has the same contents, `empty` is
   still empty, the result is a new object and nothing else was allocated. *)
Theorem C20_merge_preserves_heap :
  forall (V : Type) (h : heap V) (roots : layer_refs) (ty syn sec : str) (h' : heap V) (r : ref),
    merged_data_heap h roots ty syn sec = Some (h', r) ->
    (forall a, a < next_ref h -> heap_get h' a = heap_get h a) /\
    heap_get h' (next_ref h) = Some [] /\
    r = S (next_ref h) /\ heap_get h r = None /\
    next_ref h' = S (S (next_ref h)).
Proof. exact (@merge_preserves_heap). Qed.
Print Assumptions C20_merge_preserves_heap.

(* ... and it computes the pure model: when the heap holds the layers an abstract environment
   [e] describes ([reads_env]: following the references from the roots yields e's sections),
   the call succeeds and the new object holds exactly [merged_data e ty syn sec], to which
   C20_merged_lookup applies *)
Theorem C20_merge_heap_refines :
  forall (V : Type) (h : heap V) (roots : layer_refs) (ty syn sec : str) (e : env (val V)),
    reads_env h roots ty syn sec e ->
    exists h' r, merged_data_heap h roots ty syn sec = Some (h', r) /\
                 heap_get h' r = Some (merged_data e ty syn sec).
Proof. exact (@merge_heap_refines). Qed.
Print Assumptions C20_merge_heap_refines.

(* Config.__init__ = three merges one after the other on the same heap: every object that
   existed before is unchanged, the three slots are three distinct NEW objects (one per
   documented section), and a later merge never touches the result of an earlier one *)
Theorem C20_config_init_preserves_heap :
  forall (V : Type) (h : heap V) (roots : layer_refs) (ty syn : str) (h' : heap V) (rs : list (str * ref)),
    config_init_heap h roots ty syn = Some (h', rs) ->
    (forall a, a < next_ref h -> heap_get h' a = heap_get h a) /\
    map fst rs = init_sections /\
    Forall (fun sr => next_ref h <= snd sr /\ heap_get h (snd sr) = None) rs /\
    NoDup (map snd rs) /\
    Forall (fun sr => exists hi hi', merged_data_heap hi roots ty syn (fst sr) = Some (hi', snd sr) /\
                                     heap_get h' (snd sr) = heap_get hi' (snd sr)) rs.
Proof. exact (@config_init_preserves_heap). Qed.
Print Assumptions C20_config_init_preserves_heap.

(* non-vacuity of the heap model, with the nastiest aliasing: the caller's config shares its
   options object (4) with DEFAULT_CONFIG, and the global config IS SYNTAX_CONFIG (1) *)
Example C20_purity_nonvacuous :
  let ka : str := [97]%N in
  let h : heap Z := [ [(s_options, VRef 4)];                     (* 0: DEFAULT_CONFIG *)
                      [(s_markup, VRef 5)];                      (* 1: SYNTAX_CONFIG = global_config *)
                      [];                                        (* 2: unused *)
                      [(s_options, VRef 4)];                     (* 3: user_config *)
                      [(ka, VData 1%Z)];                         (* 4: shared options dict *)
                      [(s_options, VRef 6)];                     (* 5: layer config of 'markup' *)
                      [(ka, VData 2%Z); (s_html, VData 3%Z)] ]   (* 6: its options *) in
  let roots := {| r_default := 0; r_syntax_config := 1; r_global := 1; r_user := 3 |} in
  exists h', merged_data_heap h roots s_markup s_html s_options = Some (h', 8) /\
             heap_get h' 8 = Some [(ka, VData 1%Z); (s_html, VData 3%Z)] /\
             firstn 7 h' = h.
Proof. cbv zeta. eexists. split; [vm_compute; reflexivity|]. split; reflexivity. Qed.

(* ---- THROUGH EXPAND (proofs/ConfigExpand.v).  [expand_model_gen css b u g abbr] models
   emmet.expand(abbr, config, global_config): c := config_init b u g (the model the theorems above speak
   about), then what expand() reads of the resolved configuration ([view c]: type, syntax, options[k] BY
   LOOKUP for the option keys the pipelines read, the merged snippets and variables in key order, the
   text / maxRepeat entries of the call's own config) is decoded into the configuration records of the
   pipeline models and handed to [expand_markup_str] (model/MarkupExpand.v) or, for type 'stylesheet', to
   [css] (the stylesheet pipeline model uses floats: the instance with the real one is
   proofs/ConfigExpandCss.v expand_model, theorem expand_model_layers_congruent; here [css] is ANY function).
   Values are [cval] (lib/ConfigVal.v); the values of the built-in tables are regenerated from the source
   (gen/GenConfigVals.v).  The model is executed against emmet.expand on every expand-visible cell of the
   C20 table (harness/props/c20.py, run/CfgexpandRun.v, run/CfgexpandShow.v).

   Every option the expand model decodes, and every snippet and variable it hands to a pipeline, is the value
   of the most specific layer that defines it (the SPEC [spec_lookup] of C20_merged_lookup) *)
Theorem C20_expand_uses_merged :
  forall (b : builtin cval) (u : user_config cval) (g : cfg_table cval) (k : str),
    (In k option_keys ->
       opt (view (config_init b u g)) k
       = spec_lookup (config_env b u g) (resolved_type u) (resolved_syntax b u) s_options k) /\
    dget k (v_snippets (view (config_init b u g)))
    = spec_lookup (config_env b u g) (resolved_type u) (resolved_syntax b u) s_snippets k /\
    dget k (v_variables (view (config_init b u g)))
    = spec_lookup (config_env b u g) (resolved_type u) (resolved_syntax b u) s_variables k.
Proof.
  intros b u g k. split; [apply view_option_is_spec_lookup|apply view_snippet_is_spec_lookup].
Qed.
Print Assumptions C20_expand_uses_merged.

(* the canonical (key-sorted) form in which the merged snippets / variables reach the pipelines is a function
   of the lookups alone: two dicts that answer every lookup alike have the same canonical form, and the
   canonical form answers every lookup as the dict does *)
Theorem C20_canonical_form :
  forall (V : Type) (d1 d2 : dict V),
    wf d1 -> wf d2 -> (forall k, dget k d1 = dget k d2) ->
    canon d1 = canon d2 /\ forall k, dget k (canon d1) = dget k d1.
Proof. intros V d1 d2 W1 W2 H. split; [now apply canon_unique|intro k; apply dget_canon]. Qed.
Print Assumptions C20_canonical_form.

(* MAIN: the result of expand depends on the layers only through the effective value of each key.
   [same_effective b u g u' g']: the two stacks (call's config + global config, over the same built-in
   tables) resolve to the same type and syntax, give every key of every section the same effective value
   ([spec_lookup]: the most specific defining layer), and agree on the call's other entries.  Then, for every
   abbreviation and every stylesheet function, the expand results are equal. *)
Theorem C20_expand_layers_congruent :
  forall (css : cview -> str -> option (res str))
         (b : builtin cval) (u : user_config cval) (g : cfg_table cval) (u' : user_config cval) (g' : cfg_table cval)
         (abbr : str),
    same_effective b u g u' g' ->
    expand_model_gen css b u g abbr = expand_model_gen css b u' g' abbr.
Proof. exact expand_layers_congruent. Qed.
Print Assumptions C20_expand_layers_congruent.

(* non-vacuity on the generated tables: output.indent = two spaces given by the call's own config, or by the
   global config for the type 'markup': different stacks, same effective lookups, same (visible) result;
   without the option the result differs -- the model is sensitive to what the layers say *)
Example C20_expand_nonvacuous :
  let nocss : cview -> str -> option (res str) := fun _ _ => None in
  let abbr : str := [117; 108; 62; 108; 105]%N (* ul>li *) in
  same_effective builtin_cvals ex_u1 ex_g1 ex_u2 ex_g2 /\
  ex_g1 <> ex_g2 /\
  expand_model_gen nocss builtin_cvals ex_u1 ex_g1 abbr
    = Some (Ok [60; 117; 108; 62; 10; 32; 32; 60; 108; 105; 62; 60; 47; 108; 105; 62; 10; 60; 47; 117; 108; 62]%N) /\
  expand_model_gen nocss builtin_cvals ex_u2 ex_g2 abbr = expand_model_gen nocss builtin_cvals ex_u1 ex_g1 abbr /\
  expand_model_gen nocss builtin_cvals ex_u2 ex_g1 abbr
    = Some (Ok [60; 117; 108; 62; 10; 9; 60; 108; 105; 62; 60; 47; 108; 105; 62; 10; 60; 47; 117; 108; 62]%N).
Proof.
  cbv zeta. split; [exact ex_same_effective|]. split; [discriminate|].
  split; [vm_compute; reflexivity|]. split; [vm_compute; reflexivity|]. vm_compute; reflexivity.
Qed.

(* ---- non-vacuity: on the generated tables, Config({'syntax': 'xsl'}, global) with a
   global syntax override and a user override: the user's value wins for "a", the global
   syntax value for "b", the built-in xsl default (selfClosingStyle = xml) is visible, and an
   unknown syntax really satisfies [unknown_name] *)
Example C20_nonvacuous :
  let xsl : str := [120; 115; 108]%N in
  let ka : str := [97]%N in
  let kb : str := [98]%N in
  let scs : str := [111; 117; 116; 112; 117; 116; 46; 115; 101; 108; 102; 67; 108; 111; 115; 105; 110; 103; 83; 116; 121; 108; 101]%N in
  let g : cfg_table Z := [(xsl, [(s_options, [(ka, (-1)%Z); (kb, (-2)%Z)])])] in
  let u : user_config Z := {| u_type := None; u_syntax := Some xsl;
                              u_cfg := [(s_options, [(ka, (-3)%Z)])]; u_other := [] |} in
  let c := config_init builtin_tables u g in
  cf_type c = s_markup /\ cf_syntax c = xsl /\
  (exists d, config_section c s_options = Some d /\
             dget ka d = Some (-3)%Z /\ dget kb d = Some (-2)%Z /\
             dget scs d = dget scs (section_of (table_get syntax_config xsl) s_options) /\
             dget scs d <> dget scs (section_of default_config s_options) /\ dget scs d <> None) /\
  unknown_name (config_env builtin_tables u g) [122; 122; 122]%N.
Proof.
  cbv zeta. split; [reflexivity|]. split; [reflexivity|]. split.
  - eexists. split; [vm_compute; reflexivity|]. vm_compute. repeat split; discriminate.
  - split; reflexivity.
Qed.
