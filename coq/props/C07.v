(* C07 -- expand fails only with its two parse errors, position inside the input; never an
   internal error.  Markup side.  Property theorems only; each closed by [exact] of a lemma of
   proofs/Safe*.v.  (Stylesheet side: props/C07Css.v, another component.) *)
From Emmet Require Import lib.Base model.MarkupTokenizer model.MarkupParser
     proofs.MarkupTokenizerProofs proofs.SafeTokenizer proofs.SafeParser proofs.SafeExpand.

(* tokenizer, for ALL strings: tokens that tile the input, or the scanner error inside the input *)
Theorem C07_tokenize_safe : forall s,
  match tokenize s with
  | TOk l => tiles l 0 (length s)
  | TErr p => p <= length s
  end.
Proof. exact tokenize_safe. Qed.
Print Assumptions C07_tokenize_safe.

(* parser, for ALL token lists (not only tokenizer outputs): a tree, or the token error whose
   position (when present) is the start of one of the given tokens *)
Theorem C07_parser_safe : forall jsx toks,
  match parse jsx toks with
  | POk _ => True
  | PErr None => True
  | PErr (Some p) => exists t, In t toks /\ tstart t = p
  end.
Proof. exact parser_safe. Qed.
Print Assumptions C07_parser_safe.

(* tokenizer + parser, for ALL strings *)
Theorem C07_tokenize_parse_safe : forall jsx s,
  match tokenize s with
  | TErr p => p <= length s
  | TOk toks =>
      match parse jsx toks with
      | POk _ => True
      | PErr None => True
      | PErr (Some p) => p < length s
      end
  end.
Proof. exact tokenize_parse_safe. Qed.
Print Assumptions C07_tokenize_parse_safe.

(* non-vacuity: a [ b = and a double quote: tokenizes, and the parser reports the unclosed quote at offset 4 *)
Example C07_parse_error_nonvacuous :
  exists toks, tokenize [97;91;98;61;34]%N = TOk toks /\ parse false toks = PErr (Some 4).
Proof. eexists. split; vm_compute; reflexivity. Qed.
