(* C07 -- expand fails only with its two parse errors, position inside the input; never an
   internal error.  Markup side.  Property theorems only; each closed by [exact] of a lemma of
   proofs/Safe*.v.  (Stylesheet side: props/C07Css.v, another component.)

   The model result type is  res A = Ok a | ParseErr kind pos | Internal kind | OutOfFuel  (lib/Base.v):
   every Python operation that can raise is an explicit Internal in the models, every fuel-driven
   loop has OutOfFuel.  [safe_outcome len r] is the statement of C07 on such a result:
     Ok _ | ParseErr EK_Token None | ParseErr (EK_Scanner|EK_Token) (Some p) with 0 <= p <= len. *)
From Emmet Require Import lib.Base model.MarkupTokenizer model.MarkupParser model.MarkupConvert model.MarkupBem
     model.MarkupResolve model.MarkupExpand gen.GenMarkupSnippets
     proofs.MarkupTokenizerProofs proofs.SafeTokenizer proofs.SafeParser proofs.SafeConvert proofs.SafeResolve
     proofs.SafeExpand proofs.SafeBridge proofs.SafeBridgeTok proofs.BemProofs proofs.SafeFormat proofs.SafeFull
     model.MarkupLorem proofs.LoremProofs proofs.LoremFill.

(* ---- stage 1: tokenizer, for ALL strings: tokens that tile the input, or the scanner error inside the input *)
Theorem C07_tokenize_safe : forall s,
  match tokenize s with
  | TOk l => tiles l 0 (length s)
  | TErr p => p <= length s
  end.
Proof. exact tokenize_safe. Qed.
Print Assumptions C07_tokenize_safe.

(* ---- stage 2: parser, for ALL token lists (not only tokenizer outputs): a tree, or the token error whose
   position (when present) is the start of one of the given tokens *)
Theorem C07_parser_safe : forall jsx toks,
  match parse jsx toks with
  | POk _ => True
  | PErr None => True
  | PErr (Some p) => exists t, In t toks /\ tstart t = p
  end.
Proof. exact parser_safe. Qed.
Print Assumptions C07_parser_safe.

(* tokenizer + parser, for ALL strings *)
Theorem C07_tokenize_parse_safe : forall jsx s,
  match tokenize s with
  | TErr p => p <= length s
  | TOk toks =>
      match parse jsx toks with
      | POk _ => True
      | PErr None => True
      | PErr (Some p) => p < length s
      end
  end.
Proof. exact tokenize_parse_safe. Qed.
Print Assumptions C07_tokenize_parse_safe.

(* ---- stage 3: convert, for ALL token trees whose name/value tokens have a string conversion
   ([tnode_ok]: no Repeater token, no operator outside the table), ALL wrap texts (none, str, list),
   ALL variables, ALL repeat limits: Ok -- never Internal (get_text IndexError, stringify TypeError /
   'Unknown token'), never a parse error, never OutOfFuel.
   [tnode_ok] is necessary (SafeConvert.convert_needs_tnode_ok: a Repeater token inside a text value
   is the bare Exception the code raises). *)
Theorem C07_convert_safe : forall env max_repeat root,
  forallb tnode_ok root = true -> exists r, convert env max_repeat root = Ok r.
Proof. exact convert_safe. Qed.
Print Assumptions C07_convert_safe.

(* ---- stage 4: snippet resolution, for ALL trees and ALL configurations whose snippet values are
   well-formed abbreviations: the fuel supplied by markup_parse is never exhausted, no Internal,
   no parse error *)
Theorem C07_resolve_safe : forall cfg tree, wf_cfg cfg ->
  exists r, walk_resolve (S (length (mc_snippets cfg))) cfg [] tree = Ok r.
Proof. exact resolve_safe. Qed.
Print Assumptions C07_resolve_safe.

(* wf_cfg for the built-in tables: COMPLETE sweep (vm_compute over every snippet value of the tables
   regenerated from emmet/snippets on this run) *)
Theorem C07_builtin_tables_wf :
  table_good markup_snippets = true /\ table_good (xsl_snippets ++ markup_snippets) = true
  /\ table_good (pug_snippets ++ markup_snippets) = true.
Proof. exact builtin_tables_wf. Qed.
Print Assumptions C07_builtin_tables_wf.

(* user snippets in front of a well-formed table (merged_data: user entries override) keep it well-formed
   exactly when they are well-formed themselves *)
Theorem C07_user_table_wf : forall user base,
  table_good user = true -> table_good base = true -> table_good (user ++ base) = true.
Proof. exact table_good_app. Qed.
Print Assumptions C07_user_table_wf.

(* ---- stage 5: transform pass.  Implicit tag, attribute merge, lorem header, xsl, label are total by
   construction; the BEM addon (model/MarkupBem.v: expand_class_names, expand_short_notation, get_block_name with
   its module-lifetime cache, update_class) has two explicit raise sites (update_class on a node whose
   `attributes` is None: TypeError; `cl[0]`: IndexError).  For ALL nodes, ALL ancestor paths (any cache state),
   ALL separators and ALL context classes the addon returns a node -- no precondition on the tree: *)
Theorem C07_bem_safe : forall cfg anc n, exists r, bem cfg anc n = Ok r.
Proof. exact bem_ok. Qed.
Print Assumptions C07_bem_safe.

(* hence the whole transform pass after the lorem draws, for ALL configurations (bem.enabled or not) and ALL trees *)
Theorem C07_transform_forest_safe : forall cfg l, exists r, transform_forest cfg l = Ok r.
Proof. exact transform_forest_total. Qed.
Print Assumptions C07_transform_forest_safe.

(* ---- stage 5a: lorem text (model/MarkupLorem.v; props/Lorem.v has the statements about the text itself).  The
   generator has explicit raise sites (db['words'][randint(0, l-1)], val[randint(0, len(val)-1)], words[pos][-1],
   randint on an empty range) and reads its random numbers from the ORACLE stream of the configuration
   ([mc_draws]: raw integers, randint(a, b) = a + raw mod (b - a + 1)).  For ALL forests and ALL streams the drawing
   pass returns the forest with the paragraphs written in ([node_filled]: only values change, only under a lorem
   header) or runs out of draws (LExhausted -> OutOfFuel); never Internal, never a parse error, and the fuel of
   the `while total_words < word_count` loop never runs out first (LFuel is unreachable) *)
Theorem C07_lorem_pass_safe : forall draws l,
  match lorem_fill draws l with
  | Ok l' => Forall2 (node_filled None) l l'
  | OutOfFuel => lorem_fill_list l draws = LExhausted
  | ParseErr _ _ => False
  | Internal _ => False
  end.
Proof. exact lorem_fill_safe. Qed.
Print Assumptions C07_lorem_pass_safe.

(* walk(abbr, transform, config) = the lorem draws, then transform_forest: a forest, or OutOfFuel exactly when the
   oracle stream ran out inside the lorem pass; total as before when no name of the forest is a lorem header *)
Theorem C07_transform_safe : forall cfg l,
  match transform_list cfg l with
  | Ok _ => True
  | OutOfFuel => lorem_fill_list l (mc_draws cfg) = LExhausted
  | ParseErr _ _ => False
  | Internal _ => False
  end.
Proof. exact transform_total. Qed.
Print Assumptions C07_transform_safe.

Theorem C07_transform_safe_lorem_free : forall cfg l,
  forallb lorem_free l = true -> exists r, transform_list cfg l = Ok r.
Proof. exact transform_total_free. Qed.
Print Assumptions C07_transform_safe_lorem_free.

(* Formatters: total by construction (`stringify_markup` returns a plain value, not `res`; no fuel): see
   proofs/SafeFormat.v. *)

(* ---- the link between tokenizer and converter.  A token list is read by a three-state automaton over token
   kinds (SafeBridge.v: plain / inside quotes / inside text braces); [W MPlain l]: inside quotes and braces there are
   only literal-like tokens and the matching closer -- in particular no Repeater token --, and no operator outside
   the table anywhere. *)
(* (a) tokenizer, for ALL strings: its output is accepted by the automaton *)
Theorem C07_tokenizer_output_wellformed : forall s l, tokenize s = TOk l -> W MPlain l = true.
Proof. exact tokenize_W. Qed.
Print Assumptions C07_tokenizer_output_wellformed.

(* (b) parser, for ALL token lists accepted by the automaton: every tree it returns satisfies the hypothesis of
   convert_safe *)
Theorem C07_parser_output_convertible : forall jsx toks root,
  W MPlain toks = true -> parse jsx toks = POk root -> forallb tnode_ok root = true.
Proof. exact parse_tree_ok. Qed.
Print Assumptions C07_parser_output_convertible.

(* ---- composition, FULL STATEMENT for the markup model (DESIGN §5 C07):
   for ALL abbreviations and ALL configurations with a well-formed snippet table (all markup syntaxes, wrap text
   str/list/none, variables, context, comments, JSX, BEM (bem.enabled, every element/modifier separator, every
   context class), every output option, every repeat limit):
   expand returns a value, or one of the two parse errors with 0 <= position <= length of the abbreviation (or no
   position); never Internal; OutOfFuel ONLY when the abbreviation contains lorem nodes and the oracle stream of random
   draws of the configuration ran out while their text was generated ([draws_exhausted]: parse and snippet
   resolution succeeded and the lorem pass on the resolved forest ended in LExhausted) -- for EVERY stream.
   LOREM abbreviations are covered.  SafeExpand.safe_or_exhausted cfg s r :=
     match r with OutOfFuel => draws_exhausted cfg s | _ => safe_outcome (length s) r end.
   markup.href (URL / e-mail detection on the wrap text, model/MarkupHref.v) is part of the model and hence of this
   theorem for every value of the option; props/Href.v: it adds no failure (Href_same_outcome).
   Not in the model (hence not in this theorem; implementation oracle only):
   user callbacks other than the identity; CPython's recursion limit (known finding). *)
Theorem C07_expand_safe : forall x s,
  wf_cfg (xc_m x) -> safe_or_exhausted (xc_m x) s (expand_markup_str x s).
Proof. exact expand_safe. Qed.
Print Assumptions C07_expand_safe.

(* ---- ANY snippet table, malformed user snippets included: still never Internal / OutOfFuel; a parse error
   carries a position inside the abbreviation OR inside the text of one of the snippet values (the library parses a
   snippet value as an abbreviation of its own and reports the position in it: this is what the real code does for
   a malformed USER snippet, e.g. snippets {bad: 'aaaaaaaaaaaa[${'} and abbreviation 'bad' -> ScannerException pos 15) *)
Theorem C07_expand_safe_any_table : forall x s,
  match expand_markup_str x s with
  | OutOfFuel => draws_exhausted (xc_m x) s          (* the lorem oracle ran out, as in C07_expand_safe *)
  | Ok _ => True
  | ParseErr k None => k = EK_Token
  | ParseErr k (Some p) =>
      (k = EK_Scanner \/ k = EK_Token) /\
      exists v, In v (s :: map snd (mc_snippets (xc_m x))) /\ (0 <= p <= Z.of_nat (length v))%Z
  | Internal _ => False
  end.
Proof. exact expand_safe_general. Qed.
Print Assumptions C07_expand_safe_any_table.

(* non-vacuity: a [ b = and a double quote: tokenizes, and the parser reports the unclosed quote at offset 4;
   and ul>li*2 expands to a value under the built-in table *)
Example C07_parse_error_nonvacuous :
  exists toks, tokenize [97;91;98;61;34]%N = TOk toks /\ parse false toks = PErr (Some 4).
Proof. eexists. split; vm_compute; reflexivity. Qed.

Example C07_markup_parse_nonvacuous :
  let cfg := mkMConfig [104;116;109;108]%N markup_snippets [] WNone None None false None [] false false
                       false [] [] None in
  wf_cfg cfg /\ exists r, markup_parse cfg [117;108;62;108;105;42;50]%N = Ok r /\ length r = 1.
Proof. split; [exact markup_snippets_good|]. eexists. split; vm_compute; reflexivity. Qed.

(* BEM configuration (bem.enabled, separators "__" and "_"): .b>.-e>.-x expands to a value, and the innermost class
   is b__x -- the element took the block name of the top node although its parent's final class is b__e, because
   the parent cached its own (block-less) data while it expanded itself (the module-lifetime cache of
   get_block_name; same output as the implementation) *)
Example C07_bem_nonvacuous :
  let cfg := mkMConfig [104;116;109;108]%N markup_snippets [] WNone None None false None [] false false
                       true [95;95]%N [95]%N None in
  wf_cfg cfg /\
  exists a b c d e, markup_parse cfg [46;98;62;46;45;101;62;46;45;120]%N =
    Ok [ANode a b c d [ANode a b c e [ANode a b c
          (Some [mkAAttr (Some [99;108;97;115;115]%N) (Some [VStr [98;95;95;120]%N]) VRaw false false false]) [] false] false] false].
Proof. split; [exact markup_snippets_good|]. do 5 eexists. vm_compute. reflexivity. Qed.

(* a malformed user snippet: the scanner error points into the snippet text (offset 15 > length of "bad") *)
Example C07_user_snippet_error_nonvacuous :
  let cfg := mkMConfig [104;116;109;108]%N
               [([98;97;100], [97;97;97;97;97;97;97;97;97;97;97;97;91;36;123])]%N [] WNone None None false None [] false false
               false [] [] None in
  markup_parse cfg [98;97;100]%N = ParseErr EK_Scanner (Some 15%Z).
Proof. vm_compute. reflexivity. Qed.
