(* C07 -- expand fails only with its two parse errors, position inside the input; never an
   internal error.  Markup side.  Property theorems only; each closed by [exact] of a lemma of
   proofs/Safe*.v.  (Stylesheet side: props/C07Css.v, another component.)

   The model result type is  res A = Ok a | ParseErr kind pos | Internal kind | OutOfFuel  (lib/Base.v):
   every Python operation that can raise is an explicit Internal in the models, every fuel-driven
   loop has OutOfFuel.  [safe_outcome len r] is the statement of C07 on such a result:
     Ok _ | ParseErr EK_Token None | ParseErr (EK_Scanner|EK_Token) (Some p) with 0 <= p <= len. *)
From Emmet Require Import lib.Base model.MarkupTokenizer model.MarkupParser model.MarkupConvert model.MarkupResolve
     model.MarkupExpand gen.GenMarkupSnippets
     proofs.MarkupTokenizerProofs proofs.SafeTokenizer proofs.SafeParser proofs.SafeConvert proofs.SafeResolve
     proofs.SafeExpand.

(* ---- stage 1: tokenizer, for ALL strings: tokens that tile the input, or the scanner error inside the input *)
Theorem C07_tokenize_safe : forall s,
  match tokenize s with
  | TOk l => tiles l 0 (length s)
  | TErr p => p <= length s
  end.
Proof. exact tokenize_safe. Qed.
Print Assumptions C07_tokenize_safe.

(* ---- stage 2: parser, for ALL token lists (not only tokenizer outputs): a tree, or the token error whose
   position (when present) is the start of one of the given tokens *)
Theorem C07_parser_safe : forall jsx toks,
  match parse jsx toks with
  | POk _ => True
  | PErr None => True
  | PErr (Some p) => exists t, In t toks /\ tstart t = p
  end.
Proof. exact parser_safe. Qed.
Print Assumptions C07_parser_safe.

(* tokenizer + parser, for ALL strings *)
Theorem C07_tokenize_parse_safe : forall jsx s,
  match tokenize s with
  | TErr p => p <= length s
  | TOk toks =>
      match parse jsx toks with
      | POk _ => True
      | PErr None => True
      | PErr (Some p) => p < length s
      end
  end.
Proof. exact tokenize_parse_safe. Qed.
Print Assumptions C07_tokenize_parse_safe.

(* ---- stage 3: convert, for ALL token trees whose name/value tokens have a string conversion
   ([tnode_ok]: no Repeater token, no operator outside the table), ALL wrap texts (none, str, list),
   ALL variables, ALL repeat limits: Ok -- never Internal (get_text IndexError, stringify TypeError /
   'Unknown token'), never a parse error, never OutOfFuel.
   [tnode_ok] is necessary (SafeConvert.convert_needs_tnode_ok: a Repeater token inside a text value
   is the bare Exception the code raises). *)
Theorem C07_convert_safe : forall env max_repeat root,
  forallb tnode_ok root = true -> exists r, convert env max_repeat root = Ok r.
Proof. exact convert_safe. Qed.
Print Assumptions C07_convert_safe.

(* ---- stage 4: snippet resolution, for ALL trees and ALL configurations whose snippet values are
   well-formed abbreviations: the fuel supplied by markup_parse is never exhausted, no Internal,
   no parse error *)
Theorem C07_resolve_safe : forall cfg tree, wf_cfg cfg ->
  exists r, walk_resolve (S (length (mc_snippets cfg))) cfg [] tree = Ok r.
Proof. exact resolve_safe. Qed.
Print Assumptions C07_resolve_safe.

(* wf_cfg for the built-in tables: COMPLETE sweep (vm_compute over every snippet value of the tables
   regenerated from emmet/snippets on this run) *)
Theorem C07_builtin_tables_wf :
  table_good markup_snippets = true /\ table_good (xsl_snippets ++ markup_snippets) = true
  /\ table_good (pug_snippets ++ markup_snippets) = true.
Proof. exact builtin_tables_wf. Qed.
Print Assumptions C07_builtin_tables_wf.

(* user snippets in front of a well-formed table (merged_data: user entries override) keep it well-formed
   exactly when they are well-formed themselves *)
Theorem C07_user_table_wf : forall user base,
  table_good user = true -> table_good base = true -> table_good (user ++ base) = true.
Proof. exact table_good_app. Qed.
Print Assumptions C07_user_table_wf.

(* ---- stage 5: transform pass and formatters: total by construction (`transform_list`,
   `stringify_markup` return plain values, not `res`; no fuel).  Nothing to prove. *)

(* ---- composition.  FULL STATEMENT (DESIGN §5 C07):
       expand_safe : forall x s, wf_cfg (xc_m x) -> safe_outcome (length s) (expand_markup_str x s).
   Proved below with ONE extra hypothesis, [abbr_wf jsx s]: "no tree the parser builds from the tokens of [s]
   carries a Repeater token inside a name or value".  It links the tokenizer's context counters to the regions
   the parser turns into values (the tokenizer emits Repeater only outside brackets/quotes; the parser makes
   values only from bracketed/quoted regions) and is not proved for all strings yet; it is a decidable
   per-input condition (SafeResolve.abbr_good) and part of what the correspondence run checks on every
   generated input (an Internal model outcome is a disagreement). *)
Theorem C07_expand_safe_partial : forall x s,
  wf_cfg (xc_m x) -> abbr_wf (mc_jsx (xc_m x)) s ->
  safe_outcome (length s) (expand_markup_str x s).
Proof. exact expand_safe_under_wf. Qed.
Print Assumptions C07_expand_safe_partial.

(* non-vacuity: a [ b = and a double quote: tokenizes, and the parser reports the unclosed quote at offset 4;
   and ul>li*2 expands to a value under the built-in table *)
Example C07_parse_error_nonvacuous :
  exists toks, tokenize [97;91;98;61;34]%N = TOk toks /\ parse false toks = PErr (Some 4).
Proof. eexists. split; vm_compute; reflexivity. Qed.

Example C07_markup_parse_nonvacuous :
  let cfg := mkMConfig [104;116;109;108]%N markup_snippets [] WNone None None false None [] false false in
  wf_cfg cfg /\ exists r, markup_parse cfg [117;108;62;108;105;42;50]%N = Ok r /\ length r = 1.
Proof. split; [exact markup_snippets_good|]. eexists. split; vm_compute; reflexivity. Qed.
