(* C12 -- Formatting options are cosmetic and indentation equals nesting depth.
   Model: model/FormatHtml.v (should_format, get_indent, html_element), model/OutStream.v.
   Proofs: proofs/FormatSteps.v (element() cut into blocks), proofs/FormatChunks.v (chunk view of
   the stream), proofs/FormatCosmetic.v, proofs/FormatProofs.v. *)
From Emmet Require Import lib.Base model.MarkupConvert model.OutStream model.FormatHtml
     proofs.FormatSteps proofs.FormatProofs proofs.FormatChunks proofs.FormatTabstops proofs.FormatCosmetic.

(* SPEC.
   fchunks st      the callback invocations of a run, positions erased: CT text | CF index placeholder
   content st      fchunks with every text chunk made of blanks only removed and leading blanks of
                   the other text chunks removed: the tags, attributes, text and fields, in order
   ws_fmt f        output.indent, output.baseIndent and output.newline consist of blanks
   same_but_cosmetic c1 c2
                   the two option records agree on every option except output.format, indent,
                   newline, baseIndent, inlineBreak, formatLeafNode, formatSkip, formatForce *)

(* format_cosmetic: for ALL trees and ALL pairs of option records that differ only in the
   cosmetic options, the two runs of the HTML formatter produce the same content. *)
Theorem format_cosmetic c1 c2 children :
  same_but_cosmetic c1 c2 -> ws_fmt (oc_fmt c1) -> ws_fmt (oc_fmt c2) ->
  content (html_format c1 children) = content (html_format c2 children).
Proof. exact (format_cosmetic_lemma c1 c2 children). Qed.
Print Assumptions format_cosmetic.

(* comments_additive.  Full statement: enabling comments only adds comment text before/after
   commented elements.
   Adds x y        x is y with additional TEXT items inserted; nothing of y is changed, dropped or reordered
   with_comment e c   the option record c with comment.enabled := e
   all_nodes P n   P holds at every node of the tree n;  attrs_plain n: no attribute value of n has a ${..} field
   Proved for ALL trees whose attribute values carry no explicit fields and all option records
   (any comment templates / triggers).  _partial: when a commented attribute value (id/class)
   contains a field, the comment repeats that field and every later tabstop number shifts; this
   theorem compares tabstop numbers as well (the statement speaks about text only), so those
   trees are excluded; where in the output the added text sits (right before / after the
   element) is not expressed by [Adds]. *)
Theorem comments_additive_partial c children :
  ws_fmt (oc_fmt c) ->
  Forall (all_nodes (fun n => attrs_plain n = true)) children ->
  Adds (content (html_format (with_comment true c) children)) (content (html_format (with_comment false c) children)).
Proof. exact (fun Hf => comments_additive_lemma c Hf children). Qed.
Print Assumptions comments_additive_partial.

(* selfclose_local.  Full statement: the self-closing style changes only the ` /` or `/` before `>`.
   with_style s c     the option record c with output.selfClosingStyle := s
   close_mark c       the content item of the end of a self-closed tag: ">" (html), "/>" (xhtml: the
                      blank of " />" is a leading blank of its chunk, and xml)
   RelS c s1 s2 x y   x and y have the same length and are equal item by item, except that where x has
                      the closing mark of style s1, y has the closing mark of style s2
   Proved for ALL trees, ALL pairs of styles and ALL option records with compactBoolean off.
   _partial: (1) with output.compactBoolean on the statement is false on the code (theorem
   selfclose_compact_boolean_refuted below, known finding C12:selfclose-compact-boolean);
   (2) compared is the content: chunks made of blanks only and leading blanks are not compared
   (the two runs have identical cosmetic options). *)
Theorem selfclose_local_partial c s1 s2 children :
  ws_fmt (oc_fmt c) -> oc_compact_boolean c = false ->
  RelS c s1 s2 (content (html_format (with_style s1 c) children)) (content (html_format (with_style s2 c) children)).
Proof. exact (fun Hf Hc => selfclose_local_lemma c s1 s2 Hf Hc children). Qed.
Print Assumptions selfclose_local_partial.

(* level_restored: the indentation level (the number of indent units a line break made now
   would be followed by) is the same after an element as before it, for ALL trees, sibling
   positions, option records and stream states. *)
Theorem level_restored c node parent index items st :
  os_level (fs_out (html_element c parent node index items st)) = os_level (fs_out st).
Proof. exact (level_restored_lemma c node parent index items st). Qed.
Print Assumptions level_restored.

(* Non-vacuity: <div><p>hi</p><span title="${1}"> x</span></div> under the default options and
   under format=false, indent two blanks, newline CRLF: different chunk lists, same non-empty content. *)
Definition ex_c1 : oconfig :=
  mkOconfig (mkOfmt [9] [] [10])%N [] [] [] true false [] [] 3 false [] s_html [[115;112;97;110]]%N
            false [] [] [] false None None.
Definition ex_c2 : oconfig :=
  mkOconfig (mkOfmt [32;32] [9] [13;10])%N [] [] [] false true [[112]]%N [] 0 false [] s_html [[115;112;97;110]]%N
            false [] [] [] false None None.
Definition ex_tree : list anode :=
  [ANode (Some [100;105;118]%N) None None None
     [ANode (Some [112]%N) (Some [VStr [104;105]%N]) None None [] false;
      ANode (Some [115;112;97;110]%N) (Some [VStr [32;120]%N]) None
            (Some [mkAAttr (Some [116]%N) (Some [VField 1 []]) VRaw false false false]) [] false] false].
Example format_cosmetic_nonvacuous :
  same_but_cosmetic ex_c1 ex_c2 /\ ws_fmt (oc_fmt ex_c1) /\ ws_fmt (oc_fmt ex_c2) /\
  fchunks (html_format ex_c1 ex_tree) <> fchunks (html_format ex_c2 ex_tree) /\
  length (content (html_format ex_c1 ex_tree)) = 15.
Proof.
  split; [repeat split|]. split; [repeat split|]. split; [repeat split|].
  split; [vm_compute; discriminate|vm_compute; reflexivity].
Qed.

(* the faithful model violates selfclose_local under compactBoolean: <input disabled/> *)
Definition ex_cb : oconfig :=
  mkOconfig (mkOfmt [9] [] [10])%N [] [] [] true false [] [] 3 true [] s_html [] false [] [] [] false None None.
Definition ex_input : list anode :=
  [ANode (Some [105;110;112;117;116]%N) None None
         (Some [mkAAttr (Some [100;105;115;97;98;108;101;100]%N) None VRaw true false false]) [] true].
Theorem selfclose_compact_boolean_refuted :
  ws_fmt (oc_fmt ex_cb) /\
  ~ RelS ex_cb s_html s_xhtml (content (html_format (with_style s_html ex_cb) ex_input))
                              (content (html_format (with_style s_xhtml ex_cb) ex_input)).
Proof.
  split; [repeat split|]. intros H. apply Forall2_len in H. vm_compute in H. discriminate.
Qed.
Print Assumptions selfclose_compact_boolean_refuted.

Example comments_nonvacuous :
  let t := [ANode (Some [100;105;118]%N) None None
                  (Some [mkAAttr (Some [105;100]%N) (Some [VStr [97]%N]) VRaw false false false]) [] false] in
  let c := mkOconfig (mkOfmt [9] [] [10])%N [] [] [] true false [] [] 3 false [] s_html [] false [[105;100]]%N []
                     [10;60;33;45;45;32;47;91;35;73;68;93;32;45;45;62]%N false None None in
  Forall (all_nodes (fun n => attrs_plain n = true)) t /\
  length (content (html_format (with_comment true c) t)) = 12 /\
  length (content (html_format (with_comment false c) t)) = 8.
Proof. cbv zeta. split; [repeat constructor|]. vm_compute. split; reflexivity. Qed.
