(* C12 -- Formatting options are cosmetic and indentation equals nesting depth.
   Model: model/FormatHtml.v (should_format, get_indent, html_element), model/OutStream.v.
   Proofs: proofs/FormatSteps.v (element() cut into blocks), proofs/FormatChunks.v (chunk view of
   the stream), proofs/FormatCosmetic.v, proofs/FormatProofs.v. *)
From Emmet Require Import lib.Base model.MarkupConvert model.OutStream model.FormatHtml
     proofs.FormatSteps proofs.FormatProofs proofs.FormatChunks proofs.FormatCosmetic.

(* SPEC.
   fchunks st      the callback invocations of a run, positions erased: CT text | CF index placeholder
   content st      fchunks with every text chunk made of blanks only removed and leading blanks of
                   the other text chunks removed: the tags, attributes, text and fields, in order
   ws_fmt f        output.indent, output.baseIndent and output.newline consist of blanks
   same_but_cosmetic c1 c2
                   the two option records agree on every option except output.format, indent,
                   newline, baseIndent, inlineBreak, formatLeafNode, formatSkip, formatForce *)

(* format_cosmetic: for ALL trees and ALL pairs of option records that differ only in the
   cosmetic options, the two runs of the HTML formatter produce the same content. *)
Theorem format_cosmetic c1 c2 children :
  same_but_cosmetic c1 c2 -> ws_fmt (oc_fmt c1) -> ws_fmt (oc_fmt c2) ->
  content (html_format c1 children) = content (html_format c2 children).
Proof. exact (format_cosmetic_lemma c1 c2 children). Qed.
Print Assumptions format_cosmetic.

(* level_restored: the indentation level (the number of indent units a line break made now
   would be followed by) is the same after an element as before it, for ALL trees, sibling
   positions, option records and stream states. *)
Theorem level_restored c node parent index items st :
  os_level (fs_out (html_element c parent node index items st)) = os_level (fs_out st).
Proof. exact (level_restored_lemma c node parent index items st). Qed.
Print Assumptions level_restored.

(* Non-vacuity: <div><p>hi</p><span title="${1}"> x</span></div> under the default options and
   under format=false, indent two blanks, newline CRLF: different chunk lists, same non-empty content. *)
Definition ex_c1 : oconfig :=
  mkOconfig (mkOfmt [9] [] [10])%N [] [] [] true false [] [] 3 false [] s_html [[115;112;97;110]]%N
            false [] [] [] false None None.
Definition ex_c2 : oconfig :=
  mkOconfig (mkOfmt [32;32] [9] [13;10])%N [] [] [] false true [[112]]%N [] 0 false [] s_html [[115;112;97;110]]%N
            false [] [] [] false None None.
Definition ex_tree : list anode :=
  [ANode (Some [100;105;118]%N) None None None
     [ANode (Some [112]%N) (Some [VStr [104;105]%N]) None None [] false;
      ANode (Some [115;112;97;110]%N) (Some [VStr [32;120]%N]) None
            (Some [mkAAttr (Some [116]%N) (Some [VField 1 []]) VRaw false false false]) [] false] false].
Example format_cosmetic_nonvacuous :
  same_but_cosmetic ex_c1 ex_c2 /\ ws_fmt (oc_fmt ex_c1) /\ ws_fmt (oc_fmt ex_c2) /\
  fchunks (html_format ex_c1 ex_tree) <> fchunks (html_format ex_c2 ex_tree) /\
  length (content (html_format ex_c1 ex_tree)) = 15.
Proof.
  split; [repeat split|]. split; [repeat split|]. split; [repeat split|].
  split; [vm_compute; discriminate|vm_compute; reflexivity].
Qed.
