(* C12 -- Formatting options are cosmetic and indentation equals nesting depth.
   Model: model/FormatHtml.v (should_format, get_indent, html_element), model/OutStream.v.
   Proofs: proofs/FormatSteps.v (element() cut into blocks), proofs/FormatChunks.v (chunk view of
   the stream), proofs/FormatCosmetic.v, proofs/FormatProofs.v; the full statements:
   proofs/FormatLines.v + FormatDepthFull.v + FormatGrows.v (C12_indent_is_depth, C12_close_aligned),
   proofs/FormatComments.v (C12_comments_additive), proofs/FormatSelfCloseFull.v (C12_selfclose_local).
   Full: format_cosmetic, level_restored, C12_indent_is_depth, C12_close_aligned, C12_comments_additive,
   C12_selfclose_local (each on its exact domain, the excluded shapes proved deviating: *_refuted).  The *_partial
   theorems are the earlier per-invocation statements, kept. *)
From Coq Require Import ZArith List.
From Emmet Require Import lib.Base model.MarkupConvert model.MarkupResolve model.OutStream model.FormatHtml proofs.HtmlEvents
     proofs.FormatSteps proofs.FormatProofs proofs.FormatChunks proofs.FormatTabstops proofs.FormatCosmetic proofs.FormatDepth proofs.FormatSelfClose
     proofs.FormatLines proofs.FormatDepthFull proofs.FormatSelfCloseFull proofs.FormatComments proofs.HtmlTagClass.

(* SPEC.
   fchunks st      the callback invocations of a run, positions erased: CT text | CF index placeholder
   content st      fchunks with every text chunk made of blanks only removed and leading blanks of
                   the other text chunks removed: the tags, attributes, text and fields, in order
   ws_fmt f        output.indent, output.baseIndent and output.newline consist of blanks
   same_but_cosmetic c1 c2
                   the two option records agree on every option except output.format, indent,
                   newline, baseIndent, inlineBreak, formatLeafNode, formatSkip, formatForce *)

(* format_cosmetic: for ALL trees and ALL pairs of option records that differ only in the
   cosmetic options, the two runs of the HTML formatter produce the same content. *)
Theorem format_cosmetic c1 c2 children :
  same_but_cosmetic c1 c2 -> ws_fmt (oc_fmt c1) -> ws_fmt (oc_fmt c2) ->
  content (html_format c1 children) = content (html_format c2 children).
Proof. exact (format_cosmetic_lemma c1 c2 children). Qed.
Print Assumptions format_cosmetic.

(* comments_additive.  Full statement: enabling comments only adds comment text before/after
   commented elements.
   with_comment e c   the option record c with comment.enabled := e
   texts X            the strings of the content items X in order (a field counts with its placeholder)
   Sub y x            y is a subsequence of x: x is y with items inserted, nothing of y changed, dropped
                      or reordered
   comments_additive_partial: for ALL trees and ALL option records (any templates / triggers) the text
   items of the comment-off run are a subsequence of those of the comment-on run.
   comments_additive_tabstops_partial: for trees whose attribute values carry no explicit fields, moreover
   every kept item is identical (tabstop numbers included) and every inserted item is a text item
   (Adds x y: x is y with TEXT items inserted).  (When an id / class value contains a field, the comment
   repeats it and the later tabstop numbers shift: hence the hypothesis there.)
   _partial: that the inserted items are exactly the instantiated comment templates and sit right
   before / after the commented element is not expressed by Sub / Adds: see C12_comments_additive below. *)
Theorem comments_additive_partial c children :
  ws_fmt (oc_fmt c) ->
  Sub (texts (content (html_format (with_comment false c) children)))
      (texts (content (html_format (with_comment true c) children))).
Proof. exact (fun Hf => comments_additive_text_lemma c Hf children). Qed.
Print Assumptions comments_additive_partial.

Theorem comments_additive_tabstops_partial c children :
  ws_fmt (oc_fmt c) ->
  Forall (all_nodes (fun n => attrs_plain n = true)) children ->
  Adds (content (html_format (with_comment true c) children)) (content (html_format (with_comment false c) children)).
Proof. exact (fun Hf => comments_additive_lemma c Hf children). Qed.
Print Assumptions comments_additive_tabstops_partial.

(* C12_comments_additive (FULL, proofs/FormatComments.v): for ALL trees and ALL option records (any templates, triggers,
   formatting options; ws_fmt: the indent / newline strings are blanks).
     texts (content st)        the text items of a run in order: every chunk written, blank-only chunks dropped, leading
                               blanks removed, a field counted with its placeholder
     comment_texts text n      the text items the template `text` writes for node n: its plain parts and, for every
                               placeholder [before NAME after] whose attribute NAME n has, before ++ value ++ after
     open_texts n / close_texts n   the items of the chunks `<name` / `</name>` of n
     CIns c on off             on is off with comment blocks inserted and nothing else changed, dropped or reordered:
                               ci_same    the same items appended to both
                               ci_before  on gets comment_texts comment.before n directly before the opening tag of n
                               ci_after   on gets comment_texts comment.after n directly after the closing tag of n
                               both only for nodes n with should_comment (comment.enabled, a trigger attribute present)
   STATEMENT: the items of the comment-on run are those of the comment-off run with exactly these blocks inserted at
   exactly these places.  Erasing the blocks gives the comment-off items (comments_erase: CIns on off -> Sub off on).
   Text level rather than chunk level because the two runs are not chunk-equal outside the comments: a comment with
   a line break changes the line counter, and push_snippet() left-strips the text after the children only when the
   line changed (` b` vs `b`); tabstop numbers shift when an id / class value holds a field
   (comments_additive_tabstops_partial gives identical items, numbers included, without such fields). *)
Theorem C12_comments_additive c children :
  ws_fmt (oc_fmt c) ->
  CIns c (texts (content (html_format (with_comment true c) children)))
         (texts (content (html_format (with_comment false c) children))).
Proof. exact (fun Hf => comments_positions_lemma c Hf children). Qed.
Print Assumptions C12_comments_additive.

Theorem comments_erase c on off : CIns c on off -> Sub off on.
Proof. exact (CIns_Sub c on off). Qed.
Print Assumptions comments_erase.

(* selfclose_local.  Full statement: the self-closing style changes only the ` /` or `/` before `>`.
   with_style s c       the option record c with output.selfClosingStyle := s
   mark c               the chunk that closes a self-closed tag: self_close c ++ ">", i.e. ">" (html),
                        " />" (xhtml), "/>" (xml)
   same_chunk c s1 s2 x y   x = y, or x is the mark of style s1 and y the mark of style s2
   selfclose_local_partial: for ALL trees, ALL pairs of styles and ALL option records with compactBoolean
   off, the two runs make the same callback invocations one by one (blanks, line breaks and tabstop
   numbers included), except that the mark of one style faces the mark of the other.
   _partial only because of the hypothesis: with output.compactBoolean on the statement is false on the
   code (selfclose_compact_boolean_refuted below, known finding C12:selfclose-compact-boolean).
   C12_selfclose_local below adds the number of differing positions and writes the closing chunks out. *)
Theorem selfclose_local_partial c s1 s2 children :
  oc_compact_boolean c = false ->
  Forall2 (same_chunk c s1 s2) (fchunks (html_format (with_style s1 c) children))
                               (fchunks (html_format (with_style s2 c) children)).
Proof. exact (fun Hc => selfclose_exact_lemma c s1 s2 Hc children). Qed.
Print Assumptions selfclose_local_partial.

(* C12_selfclose_local (FULL on its exact domain, proofs/FormatSelfCloseFull.v): for ALL trees, ALL pairs of styles
   and ALL option records with compactBoolean off.
     close_chunk s      the chunk that closes a self-closed tag under style s: ` />` (xhtml), `/>` (xml), `>` (any other)
     Differ x y k X Y   the chunk lists X and Y are equal chunk by chunk (blanks, line breaks and tabstop numbers
                        included), except at exactly k positions where X has x and Y has y
     nvoid E            the number of elements of the tree that are written self-closed (events SOpen _ true)
   The two streams are equal except that at exactly one position per self-closed element the closing chunk of style 1
   faces the closing chunk of style 2.  With output.compactBoolean on the statement is false on the code
   (selfclose_compact_boolean_refuted, known finding C12:selfclose-compact-boolean): the hypothesis is the exact domain. *)
Theorem C12_selfclose_local c s1 s2 children :
  oc_compact_boolean c = false ->
  Differ (close_chunk s1) (close_chunk s2) (nvoid (flat_map (tree_events c) children))
         (fchunks (html_format (with_style s1 c) children)) (fchunks (html_format (with_style s2 c) children)).
Proof. exact (selfclose_local_full_lemma c s1 s2 children). Qed.
Print Assumptions C12_selfclose_local.

(* indent_is_depth.  Full statement: with formatting on and no element exempted through formatSkip,
   every line after the first starts with baseIndent plus one indent unit per element open at that
   point; a closing tag on its own line is aligned with its opening tag.
   nl_chunk f          the chunk of a line break: output.newline ++ output.baseIndent
   indent_chunk f k    the chunk that follows it: k copies of output.indent
   nl_chunks f L ind   a line break as the stream writes it: nl_chunk, then indent_chunk of L units
                       (ind = Some None), of n units (ind = Some (Some n)), or nothing (ind = None; int_ind 0 = None)
   get_indent c (Some a) = 1 iff a indents its content: a named element not listed in formatSkip
                       (lemmas get_indent_element / get_indent_text); 0 for text nodes and at top level
   visits c st0 top p n i items s L
                       in the walk of the forest [top] from stream state st0, element() is invoked for node n
                       (parent p, position i among items) at stream state s; L = sum of get_indent over the
                       enclosing nodes including p = number of open elements that indent their content
   entry c p n i items s   the state after element() has raised the level and made the node's own line break
   The definition of [visits] is certified by children_walk_starts_at: element() runs the walk over the
   children exactly once, from [pre_children], whatever the tree and the options.
   _partial: proved are (a) the level at every invocation of element() = number of enclosing indenting
   elements (level_is_depth), hence (b) the own line break of EVERY formatted element carries exactly L
   units (indent_is_depth_partial), (c) the closing line break after the last formatted child carries L - 1
   units = the units of the parent's own line (close_aligned_partial), (d) the lines of a multi-line value
   and the caret line of an empty leaf carry L + 1 units, the line break before the closing tag L units
   (value_lines_indent, leaf_lines_indent).  _partial: these are statements per invocation of element(); the
   ONE statement quantified over every line-break chunk of the final chunk list is C12_indent_is_depth /
   C12_close_aligned below (the open-element count read off the tag chunks with the tree events deciding which
   opening tags are self-closed; the push_snippet shapes that deviate on the code excluded and refuted). *)
Theorem level_is_depth c st0 top p n i items s L :
  visits c st0 top p n i items s L -> (lvl s + get_indent c p = lvl st0 + L)%Z.
Proof. exact (level_is_depth_lemma c st0 top p n i items s L). Qed.
Print Assumptions level_is_depth.

Theorem children_walk_starts_at c parent node index items st :
  html_element c parent node index items st =
  html_element_step c parent node index items
    (fun _ => html_walk c (Some node) (an_children node) O (an_children node) (pre_children c parent node index items st)) st.
Proof. exact (children_start c parent node index items st). Qed.
Print Assumptions children_walk_starts_at.

Theorem indent_is_depth_partial c st0 top p n i items s L :
  visits c st0 top p n i items s L -> lvl st0 = 0%Z ->
  should_format c p n i items = true ->
  fchunks (entry c p n i items s) = fchunks s ++ [nl_chunk (oc_fmt c); indent_chunk (oc_fmt c) L].
Proof. exact (indent_is_depth_lemma c st0 top p n i items s L). Qed.
Print Assumptions indent_is_depth_partial.

Theorem close_aligned_partial c st0 top p n i items s L :
  visits c st0 top p n i items s L -> lvl st0 = 0%Z ->
  tail_newline c (should_format c p n i items) p i items = true ->
  fchunks (html_element c p n i items s) =
  fchunks (el_body c n (html_children c n) (entry c p n i items s))
  ++ nl_chunks (oc_fmt c) L (int_ind (L - (if is_snippet_opt p then 0 else 1))%Z).
Proof. exact (close_aligned_lemma c st0 top p n i items s L). Qed.
Print Assumptions close_aligned_partial.

Theorem value_lines_indent c node st v0 value :
  an_value node = Some (v0 :: value) ->
  existsb has_newline (v0 :: value) || starts_with_block_tag c (v0 :: value) = true ->
  an_children node = [] ->
  fchunks (el_value c node st) =
  fchunks st ++ nl_chunks (oc_fmt c) (lvl st + 1) (int_ind (lvl st + 1))
             ++ token_chunks (oc_fmt c) (lvl st + 1) (fs_field st) (v0 :: value)
             ++ nl_chunks (oc_fmt c) (lvl st) (int_ind (lvl st)).
Proof. exact (value_chunks c node st v0 value). Qed.
Print Assumptions value_lines_indent.

Theorem leaf_lines_indent c nm node st :
  negb (truthy_l (an_value node)) && match an_children node with [] => true | _ => false end = true ->
  oc_format_leaf c || mem_str nm (oc_format_force c) = true ->
  fchunks (el_leaf c nm node st) =
  fchunks st ++ nl_chunks (oc_fmt c) (lvl st + 1) (int_ind (lvl st + 1))
             ++ [CF (fs_field st) []]
             ++ nl_chunks (oc_fmt c) (lvl st) (int_ind (lvl st)).
Proof. exact (leaf_chunks c nm node st). Qed.
Print Assumptions leaf_lines_indent.

(* C12_indent_is_depth (FULL; proofs/FormatLines.v, proofs/FormatDepthFull.v): ONE statement quantified over every
   line-break chunk of the final stream, for ALL trees of the domain [depth_dom] and ALL option records with an
   empty formatSkip list (output.format on or off; the statement needs no hypothesis on it).
   SPEC (proofs/FormatLines.v):
     tree_events c n     the open/close events of the tree in document order (HtmlEvents): SOpen name void | SClose name
     chunk_tags x        the tag a chunk stands for: `<name` -> TOpen, `</name>` -> TClose, nothing otherwise
     open_at E pre       the number of elements open after the chunks pre: the i-th tag chunk of the stream is the i-th
                         event of E (tag_chunks_are_events below), an open event counts +1 unless the element is written
                         self-closed, a close event -1
     starts_close more   the first text on the line is a closing tag (empty text chunks skipped; a tabstop is text)
     indented f k rest more   rest = the indentation chunk of k units followed by more; the stream writes no
                         indentation chunk for an explicit size 0: then k = 0 and rest = more
   STATEMENT: every chunk written by push_newline (ghost flag true) is output.newline ++ output.baseIndent and is
   followed by exactly k indent units, k = number of elements open at that point, one less when the line starts with a
   closing tag (the closing tag then has the indentation of its opening tag's line: C12_close_aligned).
   DOMAIN, exactly:
     cfg_depth c         newline ++ baseIndent and indent do not start with '<'; comments off, or on with templates no
                         line of which is read as a tag chunk (`<!-- ...` is none: the default templates qualify);
                         no '<', CR, LF in the markup.attributes / markup.valuePrefix tables
     depth_dom c forest  for every node: name without '<', CR, LF, not starting with '/' or '!'; attributes only on named
                         nodes (as the resolver guarantees: implicit tag); no '<' in text; attribute names and values
                         without '<', CR, LF (a line break inside an opening tag is indented by the elements open
                         BEFORE that tag: outside the tag-chunk reading of open_at); and for every named element
       last_ok           its last child is an element (whose comment.after, if it gets one, ends on its line:
                         comment_quiet), or is line-broken itself (should_format), or is a text that ends on its line
                         (ends_text: no children and a non-empty last line; or a text without field whose last child
                         is not line-broken and ends on its line).  Technical: keeps `</name>` from
                         following a pending empty line; no deviation of the code is known outside it (21k generated
                         abbreviations with text nodes with children, three inlineBreak values: none)
       snippet_ok        if its text has a field and it has children (push_snippet path): the text has no line break
                         and, when the last child is line-broken, the text ends with that field.
   The shapes excluded by snippet_ok are exactly those on which the code deviates: known finding
   C12:depth-multiline-field-text-with-children (continuation lines of the text, and the rest of the text after the
   children, get the level of the element instead of level + 1): C12_depth_multiline_field_text_refuted and
   C12_depth_text_after_children_refuted prove the deviation on the model.
   Not covered: line breaks inside attribute values and inside field placeholders (the latter are no newline events:
   C13).  (tag_chunks_are_events, which justifies the reading of open_at, is proved for comments off.) *)
Theorem C12_indent_is_depth c forest :
  oc_format_skip c = [] -> cfg_depth c = true -> depth_dom c forest = true ->
  forall pre s rest, fchunks (html_format c forest) = pre ++ CT true s :: rest ->
    s = of_newline (oc_fmt c) ++ of_base_indent (oc_fmt c) /\
    exists k more, indented (oc_fmt c) k rest more /\
                   k = (open_at (flat_map (tree_events c) forest) pre - (if starts_close more then 1 else 0))%Z.
Proof. exact (indent_is_depth_full_lemma c forest). Qed.
Print Assumptions C12_indent_is_depth.

(* the reading of open_at is the reading of the output: the tag chunks of the stream are the events of the tree, one by one *)
Theorem tag_chunks_are_events c forest :
  oc_comment_enabled c = false -> cfg_depth c = true -> depth_dom c forest = true ->
  flat_map chunk_tags (fchunks (html_format c forest)) = map erase (flat_map (tree_events c) forest).
Proof. exact (FormatDepthFull.tag_chunks_are_events c forest). Qed.
Print Assumptions tag_chunks_are_events.

Theorem C12_depth_multiline_field_text_refuted :
  oc_format_skip dx_cfg = [] /\ cfg_depth dx_cfg = true /\ depth_dom dx_cfg dx_multiline = false /\
  ~ lines_indented (oc_fmt dx_cfg) (flat_map (tree_events dx_cfg) dx_multiline) (fchunks (html_format dx_cfg dx_multiline)).
Proof. exact depth_multiline_field_text_refuted. Qed.
Print Assumptions C12_depth_multiline_field_text_refuted.

Theorem C12_depth_text_after_children_refuted :
  oc_format_skip dx_cfg = [] /\ cfg_depth dx_cfg = true /\ depth_dom dx_cfg dx_after = false /\
  ~ lines_indented (oc_fmt dx_cfg) (flat_map (tree_events dx_cfg) dx_after) (fchunks (html_format dx_cfg dx_after)).
Proof. exact depth_text_after_children_refuted. Qed.
Print Assumptions C12_depth_text_after_children_refuted.

(* C12_close_aligned (FULL; same proof as C12_indent_is_depth with the alignment obligation threaded through):
   a closing tag that is first on its line has the indentation of the line on which its opening tag stands.
   SPEC (proofs/FormatLines.v):
     line_of f A k           the chunks A end on a line with k indent units: A has no line break and k = 0 (the first
                             line), or A = A1 ++ line break of k units ++ chunks without line break
     opens_innermost E A o B the chunk o (after A, before B) is the opening tag of the innermost element that is open
                             after A ++ o :: B: o raises the number of open elements by one, to its value after B, and
                             that number never falls below it inside B
     aligned_at f E pre k    every such opening tag chunk o, pre = A ++ o :: B, stands on a line with k units
   STATEMENT: for every line-break chunk (reading k, more as in C12_indent_is_depth): if the first text on the line is a
   closing tag, the opening tag of the element it closes stands on a line with the same k units.  Same reading of
   "aligned" as the oracle harness/format_util.depth_check: the indentation of the closing tag's line against the
   indentation of the line of the opening tag, the first line counting as baseIndent + 0 units.
   DOMAIN: that of C12_indent_is_depth, and
     align_dom c forest      every element whose closing tag goes on a line of its own (closes_own_line: its last child is
                             line-broken; or no children and a text with a line break; or an empty leaf under
                             formatLeafNode / formatForce) is line-broken itself (should_format), or is the very first node.
   The excluded shapes deviate on the code: known finding C12:close-aligned-inline-leaf-inner-format (an inline leaf
   with inner formatting), proved on the model by C12_close_aligned_inline_leaf_refuted; and inline elements that
   are not line-broken although their last child is (should_format() asks its children with the grandparent as
   parent: the first top-level rule "do not format the very first node" fires for the first child of a top-level inline
   element), recorded as finding C12:close-aligned-unformatted-inline-parent. *)
Theorem C12_close_aligned c forest :
  oc_format_skip c = [] -> cfg_depth c = true -> depth_dom c forest = true -> align_dom c forest = true ->
  forall pre s rest, fchunks (html_format c forest) = pre ++ CT true s :: rest ->
    exists k more, indented (oc_fmt c) k rest more /\
                   k = (open_at (flat_map (tree_events c) forest) pre - (if starts_close more then 1 else 0))%Z /\
                   (starts_close more = true -> aligned_at (oc_fmt c) (flat_map (tree_events c) forest) pre k).
Proof. exact (close_aligned_full_lemma c forest). Qed.
Print Assumptions C12_close_aligned.

Theorem C12_close_aligned_inline_leaf_refuted :
  oc_format_skip ax_cfg = [] /\ cfg_depth ax_cfg = true /\ depth_dom ax_cfg ax_tree = true /\ align_dom ax_cfg ax_tree = false /\
  ~ lines_aligned (oc_fmt ax_cfg) (flat_map (tree_events ax_cfg) ax_tree) (fchunks (html_format ax_cfg ax_tree)).
Proof. exact close_aligned_inline_leaf_refuted. Qed.
Print Assumptions C12_close_aligned_inline_leaf_refuted.

(* level_restored: the indentation level (the number of indent units a line break made now
   would be followed by) is the same after an element as before it, for ALL trees, sibling
   positions, option records and stream states. *)
Theorem level_restored c node parent index items st :
  os_level (fs_out (html_element c parent node index items st)) = os_level (fs_out st).
Proof. exact (level_restored_lemma c node parent index items st). Qed.
Print Assumptions level_restored.

(* Non-vacuity: <div><p>hi</p><span title="${1}"> x</span></div> under the default options and
   under format=false, indent two blanks, newline CRLF: different chunk lists, same non-empty content. *)
Definition ex_c1 : oconfig :=
  mkOconfig (mkOfmt [9] [] [10])%N [] [] [] true false [] [] 3 false [] s_html [[115;112;97;110]]%N
            false [] [] [] false None None.
Definition ex_c2 : oconfig :=
  mkOconfig (mkOfmt [32;32] [9] [13;10])%N [] [] [] false true [[112]]%N [] 0 false [] s_html [[115;112;97;110]]%N
            false [] [] [] false None None.
Definition ex_tree : list anode :=
  [ANode (Some [100;105;118]%N) None None None
     [ANode (Some [112]%N) (Some [VStr [104;105]%N]) None None [] false;
      ANode (Some [115;112;97;110]%N) (Some [VStr [32;120]%N]) None
            (Some [mkAAttr (Some [116]%N) (Some [VField 1 []]) VRaw false false false]) [] false] false].
Example format_cosmetic_nonvacuous :
  same_but_cosmetic ex_c1 ex_c2 /\ ws_fmt (oc_fmt ex_c1) /\ ws_fmt (oc_fmt ex_c2) /\
  fchunks (html_format ex_c1 ex_tree) <> fchunks (html_format ex_c2 ex_tree) /\
  length (content (html_format ex_c1 ex_tree)) = 15.
Proof.
  split; [repeat split|]. split; [repeat split|]. split; [repeat split|].
  split; [vm_compute; discriminate|vm_compute; reflexivity].
Qed.

(* the faithful model violates selfclose_local under compactBoolean: <input disabled/> *)
Definition ex_cb : oconfig :=
  mkOconfig (mkOfmt [9] [] [10])%N [] [] [] true false [] [] 3 true [] s_html [] false [] [] [] false None None.
Definition ex_input : list anode :=
  [ANode (Some [105;110;112;117;116]%N) None None
         (Some [mkAAttr (Some [100;105;115;97;98;108;101;100]%N) None VRaw true false false]) [] true].
Theorem selfclose_compact_boolean_refuted :
  oc_compact_boolean ex_cb = true /\
  ~ Forall2 (same_chunk ex_cb s_html s_xhtml) (fchunks (html_format (with_style s_html ex_cb) ex_input))
                                             (fchunks (html_format (with_style s_xhtml ex_cb) ex_input)).
Proof.
  split; [reflexivity|]. intros H. apply Forall2_len in H. vm_compute in H. discriminate.
Qed.
Print Assumptions selfclose_compact_boolean_refuted.

Example comments_nonvacuous :
  let t := [ANode (Some [100;105;118]%N) None None
                  (Some [mkAAttr (Some [105;100]%N) (Some [VStr [97]%N]) VRaw false false false]) [] false] in
  let c := mkOconfig (mkOfmt [9] [] [10])%N [] [] [] true false [] [] 3 false [] s_html [] false [[105;100]]%N []
                     [10;60;33;45;45;32;47;91;35;73;68;93;32;45;45;62]%N false None None in
  Forall (all_nodes (fun n => attrs_plain n = true)) t /\
  length (content (html_format (with_comment true c) t)) = 12 /\
  length (content (html_format (with_comment false c) t)) = 8.
Proof. cbv zeta. split; [repeat constructor|]. vm_compute. split; reflexivity. Qed.

(* Non-vacuity of the depth theorems: in <div><p>hi</p><span ...> x</span></div> the node <p> is
   visited at L = 1, is formatted, and its own line break carries one indent unit. *)
Example depth_nonvacuous :
  let st0 := mkFs os_empty 1 in
  let d := ANode (Some [100;105;118]%N) None None None
     [ANode (Some [112]%N) (Some [VStr [104;105]%N]) None None [] false;
      ANode (Some [115;112;97;110]%N) (Some [VStr [32;120]%N]) None
            (Some [mkAAttr (Some [116]%N) (Some [VField 1 []]) VRaw false false false]) [] false] false in
  let p := ANode (Some [112]%N) (Some [VStr [104;105]%N]) None None [] false in
  ex_tree = [d] /\
  (exists s, visits ex_c1 st0 [d] (Some d) p 0 (an_children d) s (0 + get_indent ex_c1 (Some d))%Z) /\
  (0 + get_indent ex_c1 (Some d) = 1)%Z /\
  should_format ex_c1 (Some d) p 0 (an_children d) = true /\
  indent_chunk (oc_fmt ex_c1) 1 = CT false [9%N].
Proof.
  cbv zeta. split; [reflexivity|]. split; [|split; [reflexivity|split; [vm_compute; reflexivity|reflexivity]]].
  eexists. eapply v_child; [apply (v_top _ _ _ 0); reflexivity|reflexivity].
Qed.

(* Known finding C12:depth-multiline-field-text-with-children on the model: in
   <div><p>a\nb ${1} c</p> with a child <x> of p (push_snippet path), the continuation line "b " of
   p's own text follows a line break with 1 indent unit -- the level of <p> itself -- although two
   elements (div, p) are open there; value_lines_indent gives level + 1 = 2 units for the same text
   when p has no children. *)
Example snippet_text_not_inner_formatted :
  let x := ANode (Some [120]%N) None None None [] false in
  let p := ANode (Some [112]%N) (Some [VStr [97;10;98;32]%N; VField 1 []; VStr [32;99]%N]) None None [x] false in
  let d := ANode (Some [100;105;118]%N) None None None [p] false in
  exists pre post,
    fchunks (html_format ex_c1 [d]) =
    pre ++ [CT false [62]%N; CT false [97]%N; nl_chunk (oc_fmt ex_c1); indent_chunk (oc_fmt ex_c1) 1; CT false [98;32]%N] ++ post.
Proof.
  cbv zeta.
  match goal with |- exists pre post, ?X = _ => exists (firstn 5 X), (skipn 10 X) end.
  vm_compute. reflexivity.
Qed.

(* Non-vacuity of C12_indent_is_depth: <div><p>hi</p><span title="${1}"> x</span></div> under the default options is in
   the domain; its stream has three line breaks: before <p and before <span with 1 unit (div is open), before </div>
   with none (explicit size 0: no indentation chunk). *)
Example indent_is_depth_nonvacuous :
  oc_format_skip ex_c1 = [] /\ cfg_depth ex_c1 = true /\ depth_dom ex_c1 ex_tree = true /\
  exists pre rest more,
    fchunks (html_format ex_c1 ex_tree) = pre ++ CT true [10%N] :: rest /\
    indented (oc_fmt ex_c1) 1 rest more /\ open_at (flat_map (tree_events ex_c1) ex_tree) pre = 1%Z /\ starts_close more = false.
Proof.
  split; [reflexivity|]. split; [reflexivity|]. split; [reflexivity|].
  match goal with |- exists pre rest more, ?X = _ /\ _ =>
    let X' := eval vm_compute in X in exists (firstn 2 X'), (skipn 3 X'), (skipn 4 X') end.
  split; [vm_compute; reflexivity|]. split; [left; vm_compute; reflexivity|]. split; vm_compute; reflexivity.
Qed.

(* Non-vacuity of C12_selfclose_local: <div><br/></div> under html and xhtml: one differing position, `>` against ` />`. *)
Example selfclose_nonvacuous :
  let t := [ANode (Some [100;105;118]%N) None None None [ANode (Some [98;114]%N) None None None [] true] false] in
  oc_compact_boolean ex_c1 = false /\ nvoid (flat_map (tree_events ex_c1) t) = 1 /\
  close_chunk s_html = CT false [62%N] /\ close_chunk s_xhtml = CT false [32;47;62]%N /\
  fchunks (html_format (with_style s_html ex_c1) t) <> fchunks (html_format (with_style s_xhtml ex_c1) t).
Proof. cbv zeta. repeat split; try reflexivity. vm_compute. discriminate. Qed.

(* Non-vacuity of C12_close_aligned: the same tree is in align_dom; the last line break (before </div>) has 0 units, the
   line starts with the closing tag, and the opening tag <div stands on the first line. *)
Example close_aligned_nonvacuous :
  align_dom ex_c1 ex_tree = true /\
  exists pre rest, fchunks (html_format ex_c1 ex_tree) = pre ++ CT true [10%N] :: rest /\
                   starts_close rest = true /\ open_at (flat_map (tree_events ex_c1) ex_tree) pre = 1%Z /\
                   line_of (oc_fmt ex_c1) [] 0.
Proof.
  split; [reflexivity|].
  match goal with |- exists pre rest, ?X = _ /\ _ =>
    let X' := eval vm_compute in X in exists (firstn 18 X'), (skipn 19 X') end.
  split; [vm_compute; reflexivity|]. split; [vm_compute; reflexivity|]. split; [vm_compute; reflexivity|].
  left. split; [intros s0 []|reflexivity].
Qed.

(* Non-vacuity of C12_comments_additive: <div id="a"> with the default comment.after template "\n<!-- /[#ID][.CLASS] -->":
   div satisfies should_comment, the template writes the three items `<!-- /`, `#a`, ` -->`... after `</div>`. *)
Example comments_positions_nonvacuous :
  let n := ANode (Some [100;105;118]%N) None None
                 (Some [mkAAttr (Some [105;100]%N) (Some [VStr [97]%N]) VRaw false false false]) [] false in
  let c := mkOconfig (mkOfmt [9] [] [10])%N [] [] [] true false [] [] 3 false [] s_html [] false [[105;100]]%N []
                     [10;60;33;45;45;32;47;91;35;73;68;93;91;46;67;76;65;83;83;93;32;45;45;62]%N false None None in
  should_comment (with_comment true c) n = true /\
  length (comment_texts (oc_comment_after c) n) = 4 /\
  texts (content (html_format (with_comment true c) [n])) =
  texts (content (html_format (with_comment false c) [n])) ++ comment_texts (oc_comment_after c) n.
Proof. cbv zeta. split; [reflexivity|]. split; vm_compute; reflexivity. Qed.

(* The domains hold on what the parser and resolver produce: div>p{a\nb}+ul>li*2+span>em (html, no snippets) is in
   depth_dom and align_dom; its stream has 49 chunks. *)
Example domains_on_parser_output :
  let mc := mkMConfig [104;116;109;108]%N [] [] WNone None None false None [[115;112;97;110];[101;109]]%N false false false [] [] None in
  let ab := [100;105;118;62;112;123;97;10;98;125;43;117;108;62;108;105;42;50;43;115;112;97;110;62;101;109]%N in
  match markup_parse mc ab with
  | Ok t => depth_dom ex_c1 t = true /\ align_dom ex_c1 t = true /\ length (fchunks (html_format ex_c1 t)) = 49
  | _ => False
  end.
Proof. vm_compute. repeat split. Qed.

(* Non-vacuity with comments on: <div id="a"><p>hi</p></div> under the default comment templates is in both domains;
   the comment goes on a line of its own after </div>, with 0 units, no element open. *)
Example indent_is_depth_comments_nonvacuous :
  let t := [ANode (Some [100;105;118]%N) None None
                  (Some [mkAAttr (Some [105;100]%N) (Some [VStr [97]%N]) VRaw false false false])
                  [ANode (Some [112]%N) (Some [VStr [104;105]%N]) None None [] false] false] in
  let c := mkOconfig (mkOfmt [9] [] [10])%N [] [] [] true false [] [] 3 false [] s_html [] true [[105;100]]%N []
                     [10;60;33;45;45;32;47;91;35;73;68;93;91;46;67;76;65;83;83;93;32;45;45;62]%N false None None in
  oc_comment_enabled c = true /\ cfg_depth c = true /\ depth_dom c t = true /\ align_dom c t = true /\
  length (filter is_nl (fchunks (html_format c t))) = 3.
Proof. cbv zeta. repeat split; vm_compute; reflexivity. Qed.

(* The model of starts_with_block_tag() (which texts are set on lines of their own) is a hand-compiled matcher for
   re_html_tag = `<` NAME+ END: a greedy run of name characters, then one end character.  It decides the same language as
   the backtracking regex because the two classes -- generated from the compiled regex, gen/GenHtmlTag.v -- share no code
   point: for EVERY code point, a name character is never an end character (so the run can never give one back). *)
Theorem block_tag_classes_disjoint ch : is_tagname_char ch = true -> is_tag_end_char ch = false.
Proof. exact (tag_name_char_not_end ch). Qed.
Print Assumptions block_tag_classes_disjoint.
