(* C12 -- Formatting options are cosmetic and indentation equals nesting depth.
   Model: model/FormatHtml.v (should_format, get_indent, html_element), model/OutStream.v.
   Proofs: proofs/FormatSteps.v (element() cut into blocks), proofs/FormatProofs.v. *)
From Emmet Require Import lib.Base model.MarkupConvert model.OutStream model.FormatHtml
     proofs.FormatSteps proofs.FormatProofs.

(* level_restored: the indentation level (the number of indent units a line break made now
   would be followed by) is the same after an element as before it, for ALL trees, sibling
   positions, option records and stream states.  With get_indent this is what makes the level
   at any point the number of enclosing elements (minus those exempted by formatSkip). *)
Theorem level_restored c node parent index items st :
  os_level (fs_out (html_element c parent node index items st)) = os_level (fs_out st).
Proof. exact (level_restored_lemma c node parent index items st). Qed.
Print Assumptions level_restored.
