(* C09 -- HTML matcher returns the innermost enclosing tag pair with exact ranges.
   Property theorems only; each closed by [exact] of a lemma proved in proofs/.

   Level A (full, unbounded): for EVERY element forest [f] (any size, any depth) whose
   void names occur only as single tags, over the scanner events of the forest
     match            = the innermost enclosing element            (C09_match_innermost)
     balanced_outward = every enclosing element, innermost first   (C09_outward_enclosing)
     balanced_inward  = the element at the position followed by its chain of first children
                                                                    (C09_inward_first_children)
   with exactly the open / close ranges recorded in the forest; in a well-nested forest
   the enclosing elements form a strictly nested chain around the position, so the head
   is the innermost one (C09_enclosing_is_chain).  Attribute ranges of a matched tag lie
   inside the tag, in order, and slice the SOURCE exactly to each attribute's name and
   value (C09_attribute_ranges_exact; holds for every source and every tag range).
   C09_public_* lift Level A to html_match / balanced_outward / balanced_inward for every
   source whose scan yields the events of the forest.

   Spec (proofs/HtmlForestProofs.v, section SPEC): [node] = Pair name open close kids |
   Single name selfclosed range; [events_forest] document order; [postorder] closing order;
   [enclosing f pos] = entries of the nodes of [postorder f] whose range strictly contains pos;
   [innermost] = its head; [inward_spec] = first node of [postorder f] at the position
   (bounds inclusive for pairs, strict for single tags) followed by [first_child_chain].

   Level B (full, unbounded; proofs/HtmlRender*.v): from TEXT to events.  SPEC (proofs/HtmlRender.v,
   proofs/HtmlRenderScan.v, sections SPEC): a document is a list of [item]s
     IText s | ILt s | IComment body | ICData body | IPI pieces | IPaired name attrs ws kids
     | ISelf name attrs ws | IVoid name attrs ws | IRaw name attrs ws body
   an attribute is white space, a name  NIdent n | NDirective d n (`*ngIf`, `#ref`) | NBracket o pieces
   (`[prop]`, `(click)`, `[(ngModel)]`, `{...spread}`) and a value  VNone | VQuoted q body | VUnquoted body |
   VExpr pieces ({...} with nested braces and quoted strings);  [render : list item -> str] writes the text,
   [forest_of d] is the record of where every element of [render d] lies (exact open / close ranges computed from
   the lengths of the rendered parts), [events d] its tag events in document order.  [item_ok special] says which
   documents: names over the scanner's XML name alphabet (name_start_char / name_char); attribute white space not
   empty; quoted values free of their quote and of backslash (they MAY contain `>` `<` `/` `=`); unquoted values
   not empty, free of quote / white space / `>` / `/`, not starting with a bracket; expression characters free of
   quote / brace / backslash outside its quoted strings; text free of `<`; ILt = a `<` that starts nothing
   (`<!DOCTYPE html>`, `a < b`: followed by text that begins with no name start, `/`, `?`, `!-`, `![`); comment / CDATA / raw bodies in which
   the terminator (`-->`, `]]>`, `</name>`) occurs first at the end (ends_firstb; C09_ends_first_spec; true of
   every body that does not contain its terminator: C09_terminator_free_bodies); PI pieces
   plain non-quote characters or quoted strings, no `?>` before the end; an element is IRaw exactly when the scanner
   option `special` makes it raw ([is_raw]: `style`, `script` whose first `type` attribute, unquoted, is a
   JavaScript type or absent) -- then its body is arbitrary text free of its own close tag.
     C09_scan_render          scan special (render d) = (events d, None)   for EVERY such document: comments,
                              CDATA, PIs and raw bodies contribute no tags, every tag is found with its exact range
     C09_match_text / C09_outward_text / C09_inward_text
                              html_match / balanced_outward / balanced_inward on the TEXT return the innermost
                              element / enclosing chain / element at the position + first-child chain of the record
     C09_enclosing_chain_text the enclosing elements of a position of the text are strictly nested (head = innermost)
     C09_record_well_nested   the record is well nested inside [0, length (render d)]
     C09_attributes_render    attributes (render_attrs l ++ ws) = the attributes as written, with exact ranges
     C09_attribute_ranges_text   get_attributes over a tag lying anywhere in a source = those tokens, shifted
     C09_attribute_tokens_slice  every such token slices the source exactly to the name and to the value as written
     C09_attributes_doc / C09_match_text_attrs   the attribute tokens match() returns on the text are the attributes
                              of the matched element's tag as written in the document, at their exact ranges
   The name alphabet (proofs/XmlNames.v; SPEC there: the productions [4] NameStartChar, [4a] NameChar, [5] Name of
   XML 1.0 (5th ed.) sect. 2.3 as lists of (lo, hi) code point ranges swept by [in_ranges], all planes):
     C09_name_start_char_is_xml / C09_name_char_is_xml   the scanner's character classes ARE the XML productions
     C09_grammar_names_are_xml_names   the names of the Level B grammar ([name_ok]) are exactly the XML Names
     C09_ident_longest_xml_name / C09_ident_fails_without_name   ident consumes the longest prefix that is an XML
                              Name and fails exactly when no prefix is one
     C09_scan_xml_named_pair / C09_match_xml_named_pair   `<n a="v">t</n>` for EVERY XML Name n, a (CJK, Hangul,
                              astral letters ...): both tags at their exact ranges, match() returns the element
                              with its attribute at every position strictly inside, None elsewhere
   Outside the grammar (covered by correspondence + ground-truth oracle only):
   backslash escapes inside quoted values, white space around `=` or inside close tags, unbalanced quotes in PIs.
   What is proved about the scanner for ALL strings is in props/C16Html.v. *)
From Coq Require Import List NArith ZArith.
From Emmet Require Import lib.Base gen.GenHtml model.HtmlScan model.HtmlMatch
  proofs.HtmlScanProofs proofs.HtmlFoldProofs proofs.HtmlC16Proofs proofs.HtmlForestProofs
  proofs.HtmlRenderLib proofs.HtmlRender proofs.HtmlRenderScan proofs.HtmlRenderCompose proofs.HtmlRenderFree
  proofs.XmlNames.
From Emmet Require lib.StrLit.
Import ListNotations.

Theorem C09_match_innermost :
  forall (o : opts) (pos : Z) (f : list node),
    forallb (names_ok o) f = true ->
    match_go o pos [] (events_forest f) = innermost f pos.
Proof. exact match_forest. Qed.
Print Assumptions C09_match_innermost.

Theorem C09_outward_enclosing :
  forall (o : opts) (pos : Z) (f : list node),
    forallb (names_ok o) f = true ->
    outward_go o pos [] (events_forest f) = enclosing f pos.
Proof. exact outward_forest. Qed.
Print Assumptions C09_outward_enclosing.

Theorem C09_inward_first_children :
  forall (o : opts) (pos : Z) (f : list node),
    forallb (names_ok o) f = true ->
    opt_default [] (inward_go o pos [] (events_forest f)) = inward_spec f pos.
Proof. exact inward_forest. Qed.
Print Assumptions C09_inward_first_children.

Theorem C09_enclosing_is_chain :
  forall (o : opts) (pos : Z) (f : list node) (hi : N),
    forallb (names_ok o) f = true -> forest_wf 0 hi f = true ->
    Forall (contains_pos pos) (enclosing f pos) /\ strictly_nested (enclosing f pos).
Proof. exact enclosing_is_chain. Qed.
Print Assumptions C09_enclosing_is_chain.

Theorem C09_attribute_ranges_exact :
  forall (src : str) (start stop : N) (name : str),
    (stop <= N.of_nat (length src))%N -> (start <= stop)%N ->
    attrs_sorted src start stop (get_attributes src start stop name).
Proof. exact get_attributes_sorted. Qed.
Print Assumptions C09_attribute_ranges_exact.

Theorem C09_public_match :
  forall (o : opts) (src : str) (f : list node),
    fst (scan (o_special o) src) = events_forest f -> forallb (names_ok o) f = true ->
    forall pos, html_match o src pos =
      Ok (match innermost f pos with
          | Some b => Some (mkMatched (b_name b)
                              (get_attributes src (fst (b_open b)) (snd (b_open b)) (b_name b))
                              (b_open b) (b_close b))
          | None => None
          end).
Proof. exact html_match_forest. Qed.
Print Assumptions C09_public_match.

Theorem C09_public_outward :
  forall (o : opts) (src : str) (f : list node),
    fst (scan (o_special o) src) = events_forest f -> forallb (names_ok o) f = true ->
    forall pos, balanced_outward o src pos = Ok (enclosing f pos).
Proof. exact balanced_outward_forest. Qed.
Print Assumptions C09_public_outward.

Theorem C09_public_inward :
  forall (o : opts) (src : str) (f : list node),
    fst (scan (o_special o) src) = events_forest f -> forallb (names_ok o) f = true ->
    forall pos, balanced_inward o src pos = Ok (inward_spec f pos).
Proof. exact balanced_inward_forest. Qed.
Print Assumptions C09_public_inward.

(* non-vacuity: `<ul><li><br></li><img/></ul>` : the scan yields the events of the forest
   ul[li[br], img], names are ok in HTML mode, ranges are well nested; position 9 lies in `<br>` *)
Example C09_nonvacuous :
  let s := [60;117;108;62; 60;108;105;62; 60;98;114;62; 60;47;108;105;62; 60;105;109;103;47;62; 60;47;117;108;62]%N in
  let f := [Pair [117;108]%N 0 4 23 28
             [Pair [108;105]%N 4 8 12 17 [Single [98;114]%N false 8 12];
              Single [105;109;103]%N true 17 23]]%N in
  fst (scan (o_special default_opts) s) = events_forest f /\
  forallb (names_ok default_opts) f = true /\ forest_wf 0 28 f = true /\
  length (enclosing f 9) = 3 /\ length (inward_spec f 5) = 2.
Proof. vm_compute. repeat split. Qed.

(* ================================================================== Level B: from text to events *)
Theorem C09_scan_render :
  forall (special : list (str * option (list str))) (d : list item),
    forallb (item_ok special) d = true -> scan special (render d) = (events d, None).
Proof. exact scan_render. Qed.
Print Assumptions C09_scan_render.

Theorem C09_match_text :
  forall (o : opts) (d : list item) (pos : Z),
    doc_ok o d = true ->
    html_match o (render d) pos =
    Ok (match innermost (forest_of d) pos with
        | Some b => Some (mkMatched (b_name b)
                            (get_attributes (render d) (fst (b_open b)) (snd (b_open b)) (b_name b))
                            (b_open b) (b_close b))
        | None => None
        end).
Proof. exact match_text. Qed.
Print Assumptions C09_match_text.

Theorem C09_outward_text :
  forall (o : opts) (d : list item) (pos : Z),
    doc_ok o d = true -> balanced_outward o (render d) pos = Ok (enclosing (forest_of d) pos).
Proof. exact outward_text. Qed.
Print Assumptions C09_outward_text.

Theorem C09_inward_text :
  forall (o : opts) (d : list item) (pos : Z),
    doc_ok o d = true -> balanced_inward o (render d) pos = Ok (inward_spec (forest_of d) pos).
Proof. exact inward_text. Qed.
Print Assumptions C09_inward_text.

Theorem C09_enclosing_chain_text :
  forall (o : opts) (d : list item) (pos : Z),
    doc_ok o d = true ->
    Forall (contains_pos pos) (enclosing (forest_of d) pos) /\ strictly_nested (enclosing (forest_of d) pos).
Proof. exact enclosing_chain_text. Qed.
Print Assumptions C09_enclosing_chain_text.

Theorem C09_record_well_nested :
  forall d : list item, forest_wf 0 (N.of_nat (length (render d))) (forest_of d) = true.
Proof. exact forest_of_wf. Qed.
Print Assumptions C09_record_well_nested.

Theorem C09_attributes_render :
  forall (l : list dattr) (w : str),
    forallb dattr_ok l = true -> forallb is_space w = true ->
    attributes (render_attrs l ++ w) None = attr_tokens 0 l.
Proof. exact attributes_render. Qed.
Print Assumptions C09_attributes_render.

Theorem C09_attribute_ranges_text :
  forall (pre post n : str) (l : list dattr) (w : str) (selfclose : bool),
    tag_ok n l w = true ->
    get_attributes (pre ++ open_tag n l w selfclose ++ post)
                   (N.of_nat (length pre)) (N.of_nat (length pre) + N.of_nat (length (open_tag n l w selfclose)))%N n =
    attr_tokens (N.of_nat (length pre) + N.of_nat (S (length n)))%N l.
Proof. exact get_attributes_text. Qed.
Print Assumptions C09_attribute_ranges_text.

Theorem C09_attribute_tokens_slice :
  forall (l : list dattr) (pre post : str),
    Forall (token_slices (pre ++ render_attrs l ++ post)) (attr_tokens (N.of_nat (length pre)) l).
Proof. exact attr_tokens_slice. Qed.
Print Assumptions C09_attribute_tokens_slice.

(* [tags_of d]: every open tag of the document with its offset and its attribute list as written.
   get_attributes over the text of the document at the range of any of its tags yields exactly those attributes *)
Theorem C09_attributes_doc :
  forall (special : list (str * option (list str))) (d : list item) (t : tagrec),
    forallb (item_ok special) d = true -> In t (tags_of d) ->
    get_attributes (render d) (tr_start t) (tr_end t) (tr_name t) =
    attr_tokens (tr_start t + N.of_nat (S (length (tr_name t))))%N (tr_attrs t).
Proof. exact get_attributes_doc. Qed.
Print Assumptions C09_attributes_doc.

(* end to end, with attributes: whatever match() returns on the text is the innermost element of the record, its
   open range is the range of one of the document's tags, and its attribute tokens are that tag's attributes as
   written -- names and values at their exact ranges (C09_attribute_tokens_slice: they slice the text exactly) *)
Theorem C09_match_text_attrs :
  forall (o : opts) (d : list item) (pos : Z) (m : matched),
    doc_ok o d = true -> html_match o (render d) pos = Ok (Some m) ->
    exists b t, innermost (forest_of d) pos = Some b /\ In t (tags_of d) /\
      m_name m = b_name b /\ m_open m = b_open b /\ m_close m = b_close b /\
      b_name b = tr_name t /\ b_open b = (tr_start t, tr_end t) /\
      m_attrs m = attr_tokens (tr_start t + N.of_nat (S (length (tr_name t))))%N (tr_attrs t).
Proof. exact match_text_attrs. Qed.
Print Assumptions C09_match_text_attrs.

(* the body condition of comments / CDATA / raw elements, as a statement about occurrences *)
Theorem C09_ends_first_spec :
  forall pat body : str,
    ends_firstb pat body = true <->
    (forall i, (i < length body)%nat -> starts_with pat (skipn i (body ++ pat)) = false).
Proof. exact ends_firstb_spec. Qed.
Print Assumptions C09_ends_first_spec.

(* ... and it holds whenever the body does not contain its terminator at all *)
Theorem C09_terminator_free_bodies :
  (forall b, contains comment_close b = false -> ends_firstb comment_close b = true) /\
  (forall b, contains cdata_close b = false -> ends_firstb cdata_close b = true) /\
  (forall n b, name_ok n = true -> contains (close_tag n) b = false -> ends_firstb (close_tag n) b = true).
Proof. exact (conj comment_body_free (conj cdata_body_free raw_body_free)). Qed.
Print Assumptions C09_terminator_free_bodies.

(* ================================================================== the name alphabet is the XML name alphabet *)
Theorem C09_name_start_char_is_xml :
  forall c : char, name_start_char c = true <-> in_ranges xml_name_start_ranges c = true.
Proof. exact name_start_char_iff. Qed.
Print Assumptions C09_name_start_char_is_xml.

Theorem C09_name_char_is_xml :
  forall c : char, name_char c = true <-> in_ranges xml_name_char_ranges c = true.
Proof. exact name_char_iff. Qed.
Print Assumptions C09_name_char_is_xml.

(* [in_ranges rs c]: c lies in one of the listed ranges *)
Theorem C09_in_ranges_spec :
  forall (rs : list (N * N)) (c : char),
    in_ranges rs c = true <-> exists lo hi, In (lo, hi) rs /\ (lo <= c <= hi)%N.
Proof. exact in_ranges_spec. Qed.
Print Assumptions C09_in_ranges_spec.

Theorem C09_grammar_names_are_xml_names :
  forall n : str, name_ok n = xml_name n.
Proof. exact name_ok_xml. Qed.
Print Assumptions C09_grammar_names_are_xml_names.

Theorem C09_ident_longest_xml_name :
  forall (s : str) (k : nat),
    ident s = Some k <->
    (k <= length s)%nat /\ xml_name (firstn k s) = true /\ stops (in_ranges xml_name_char_ranges) (skipn k s).
Proof. exact ident_xml_name. Qed.
Print Assumptions C09_ident_longest_xml_name.

Theorem C09_ident_fails_without_name :
  forall s : str, ident s = None <-> (forall k, xml_name (firstn k s) = false).
Proof. exact ident_none_xml. Qed.
Print Assumptions C09_ident_fails_without_name.

(* [xdoc n a v t] is the document `<n a="v">t</n>` (C09_xdoc_text); [xdoc_ok]: n and a are XML Names, the element
   is not a raw-text element of the options, v is free of the double quote and of backslash, t free of `<` *)
Theorem C09_xdoc_text :
  forall n a v t : str,
    render (xdoc n a v t) =
    [c_lt] ++ n ++ [c_space] ++ a ++ [c_eq; c_dquote] ++ v ++ [c_dquote; c_gt] ++ t ++ [c_lt; c_slash] ++ n ++ [c_gt].
Proof. exact xdoc_text. Qed.
Print Assumptions C09_xdoc_text.

Theorem C09_scan_xml_named_pair :
  forall (special : list (str * option (list str))) (n a v t : str),
    xdoc_ok special n a v t ->
    scan special (render (xdoc n a v t)) =
    ([mkEv n EOpen 0%N (x_oe n a v); mkEv n EClose (x_cs n a v t) (x_ce n a v t)], None).
Proof. exact scan_xml_named_pair. Qed.
Print Assumptions C09_scan_xml_named_pair.

Theorem C09_match_xml_named_pair :
  forall (o : opts) (n a v t : str) (pos : Z),
    xdoc_ok (o_special o) n a v t -> is_self_close o n = false ->
    html_match o (render (xdoc n a v t)) pos =
    Ok (if strictly_in 0 pos (x_ce n a v t)
        then Some (mkMatched n (attr_tokens (N.of_nat (S (length n))) [xattr a v])
                     (0%N, x_oe n a v) (Some (x_cs n a v t, x_ce n a v t)))
        else None).
Proof. exact match_xml_named_pair. Qed.
Print Assumptions C09_match_xml_named_pair.

(* non-vacuity: `<日本 名前="1">x</日本>` in XML mode at position 4 (the defect report's documents, merged); names
   with astral letters, U+203F, U+200D are Names, U+203F alone, U+3000, U+F0000 are not *)
Example C09_xml_names_nonvacuous :
  let n := [0x65E5; 0x672C]%N in let a := [0x540D; 0x524D]%N in
  xml_name n = true /\ xml_name a = true /\ xml_name [0x20000; 0x203F; 0x200D; 0xEFFFF]%N = true /\
  xml_name [0x203F]%N = false /\ xml_name [0x3000]%N = false /\ xml_name [0xF0000]%N = false /\
  is_raw default_special n [xattr a [49]%N] = false /\
  html_match (mkOpts true default_special default_empty) (render (xdoc n a [49] [120])%N) 4 =
    Ok (Some (mkMatched n [mkAttr a 4 6 (Some ([34; 49; 34], 7, 10))%N] (0, 11)%N (Some (12, 17)%N))) /\
  ident [0x65E5; 0x672C; 62]%N = Some 2%nat.
Proof. vm_compute. repeat split. Qed.

(* non-vacuity of Level B: a document with every construct of the grammar is in the domain, renders to the
   text shown, and the functions on the text give the record's answers *)
From Coq Require Import String.
Local Notation s x := (StrLit.S x%string) (only parsing).
Definition c09_example_doc : list item :=
  let at_ n v := mkDAttr (s " ") (NIdent n) v in
  [ IPI (map PChar (s "xml v=") ++ [PQuoted 34 (s "?>")]);
    IComment (s " <b> ");
    IPaired (s "ul") [at_ (s "class") (VQuoted 34 (s "a>b")); at_ (s "data-x") (VUnquoted (s "1"));
                      at_ (s "on") (VExpr [EChar 102; EChar 40; EQuoted 34 (s "}"); ENested [EChar 62]; EChar 41]);
                      at_ (s "hidden") VNone;
                      mkDAttr (s " ") (NDirective 42 (s "ngIf")) (VQuoted 34 (s "a>b"));
                      mkDAttr (s " ") (NDirective 35 (s "ref")) VNone;
                      mkDAttr (s " ") (NBracket 91 [ENested [EChar 97]; EChar 46; EChar 62]) (VUnquoted (s "1"));
                      mkDAttr (s " ") (NBracket 40 [EChar 99; ENested []]) (VQuoted 34 (s "f()"));
                      mkDAttr (s " ") (NBracket 123 (map EChar (s "...p"))) VNone] (s " ")
      [ IText (s "text");
        IPaired (s "li") [at_ (s "id") (VQuoted 39 (s "x"))] []
          [ IVoid (s "br") [] []; ISelf (s "img") [at_ (s "src") (VQuoted 34 (s "/"))] (s " ") ];
        ICData (s "<i>");
        IRaw (s "script") [at_ (s "type") (VQuoted 34 (s "text/javascript"))] [] (s "if (a<b) '</div>'");
        IPaired (s "script") [at_ (s "type") (VQuoted 34 (s "text/x-template"))] [] [IPaired (s "p") [] [] []] ];
    ILt (s "!DOCTYPE html>"); IText (s " a "); ILt (s " b") ]%N.

Example C09_text_nonvacuous :
  doc_ok default_opts c09_example_doc = true /\
  render c09_example_doc =
    s ("<?xml v=""?>""?><!-- <b> --><ul class=""a>b"" data-x=1 on={f(""}""{>})} hidden *ngIf=""a>b"" #ref [[a].>]=1 (c())=""f()"" {...p} >text<li id='x'><br>" ++
              "<img src=""/"" /></li><![CDATA[<i>]]><script type=""text/javascript"">if (a<b) '</div>'</script>" ++
              "<script type=""text/x-template""><p></p></script></ul><!DOCTYPE html> a < b") /\
  map (fun e => (ev_name e, ev_start e)) (events c09_example_doc) =
    [(s "ul", 26); (s "li", 124); (s "br", 135); (s "img", 139); (s "li", 154);
     (s "script", 174); (s "script", 222); (s "script", 231); (s "p", 262);
     (s "p", 265); (s "script", 269); (s "ul", 278)]%N /\
  option_map b_name (innermost (forest_of c09_example_doc) 136) = Some (s "br") /\
  map b_name (enclosing (forest_of c09_example_doc) 267) = [s "p"; s "script"; s "ul"].
Proof. vm_compute. repeat split. Qed.
