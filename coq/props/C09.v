(* C09 -- HTML matcher returns the innermost enclosing tag pair with exact ranges.
   Property theorems only; each closed by [exact] of a lemma proved in proofs/.

   Level A (full, unbounded): for EVERY element forest [f] (any size, any depth) whose
   void names occur only as single tags, over the scanner events of the forest
     match            = the innermost enclosing element            (C09_match_innermost)
     balanced_outward = every enclosing element, innermost first   (C09_outward_enclosing)
     balanced_inward  = the element at the position followed by its chain of first children
                                                                    (C09_inward_first_children)
   with exactly the open / close ranges recorded in the forest; in a well-nested forest
   the enclosing elements form a strictly nested chain around the position, so the head
   is the innermost one (C09_enclosing_is_chain).  Attribute ranges of a matched tag lie
   inside the tag, in order, and slice the SOURCE exactly to each attribute's name and
   value (C09_attribute_ranges_exact; holds for every source and every tag range).
   C09_public_* lift Level A to html_match / balanced_outward / balanced_inward for every
   source whose scan yields the events of the forest.

   Spec (proofs/HtmlForestProofs.v, section SPEC): [node] = Pair name open close kids |
   Single name selfclosed range; [events_forest] document order; [postorder] closing order;
   [enclosing f pos] = entries of the nodes of [postorder f] whose range strictly contains pos;
   [innermost] = its head; [inward_spec] = first node of [postorder f] at the position
   (bounds inclusive for pairs, strict for single tags) followed by [first_child_chain].

   Level B, NOT PROVED (covered by correspondence + ground-truth oracle on generated documents):
     forall d over the document grammar (names over the XML name alphabet; attributes quoted /
     unquoted over a safe alphabet / `{}`-balanced; text free of `<`; comments free of `-->`;
     CDATA free of `]]>`; script/style bodies free of their close tag),
       fst (scan special (render d)) = events_forest (forest d)
   i.e. comments, CDATA, processing instructions and script/style bodies never contribute
   tags and every tag is found with its exact range.  What IS proved about the scanner for all
   strings is in props/C16Html.v (every event is a well-formed tag range carrying its name;
   events ordered and disjoint; no internal error). *)
From Coq Require Import List NArith ZArith.
From Emmet Require Import lib.Base gen.GenHtml model.HtmlScan model.HtmlMatch
  proofs.HtmlScanProofs proofs.HtmlFoldProofs proofs.HtmlC16Proofs proofs.HtmlForestProofs.
Import ListNotations.

Theorem C09_match_innermost :
  forall (o : opts) (pos : Z) (f : list node),
    forallb (names_ok o) f = true ->
    match_go o pos [] (events_forest f) = innermost f pos.
Proof. exact match_forest. Qed.
Print Assumptions C09_match_innermost.

Theorem C09_outward_enclosing :
  forall (o : opts) (pos : Z) (f : list node),
    forallb (names_ok o) f = true ->
    outward_go o pos [] (events_forest f) = enclosing f pos.
Proof. exact outward_forest. Qed.
Print Assumptions C09_outward_enclosing.

Theorem C09_inward_first_children :
  forall (o : opts) (pos : Z) (f : list node),
    forallb (names_ok o) f = true ->
    opt_default [] (inward_go o pos [] (events_forest f)) = inward_spec f pos.
Proof. exact inward_forest. Qed.
Print Assumptions C09_inward_first_children.

Theorem C09_enclosing_is_chain :
  forall (o : opts) (pos : Z) (f : list node) (hi : N),
    forallb (names_ok o) f = true -> forest_wf 0 hi f = true ->
    Forall (contains_pos pos) (enclosing f pos) /\ strictly_nested (enclosing f pos).
Proof. exact enclosing_is_chain. Qed.
Print Assumptions C09_enclosing_is_chain.

Theorem C09_attribute_ranges_exact :
  forall (src : str) (start stop : N) (name : str),
    (stop <= N.of_nat (length src))%N -> (start <= stop)%N ->
    attrs_sorted src start stop (get_attributes src start stop name).
Proof. exact get_attributes_sorted. Qed.
Print Assumptions C09_attribute_ranges_exact.

Theorem C09_public_match :
  forall (o : opts) (src : str) (f : list node),
    fst (scan (o_special o) src) = events_forest f -> forallb (names_ok o) f = true ->
    forall pos, html_match o src pos =
      Ok (match innermost f pos with
          | Some b => Some (mkMatched (b_name b)
                              (get_attributes src (fst (b_open b)) (snd (b_open b)) (b_name b))
                              (b_open b) (b_close b))
          | None => None
          end).
Proof. exact html_match_forest. Qed.
Print Assumptions C09_public_match.

Theorem C09_public_outward :
  forall (o : opts) (src : str) (f : list node),
    fst (scan (o_special o) src) = events_forest f -> forallb (names_ok o) f = true ->
    forall pos, balanced_outward o src pos = Ok (enclosing f pos).
Proof. exact balanced_outward_forest. Qed.
Print Assumptions C09_public_outward.

Theorem C09_public_inward :
  forall (o : opts) (src : str) (f : list node),
    fst (scan (o_special o) src) = events_forest f -> forallb (names_ok o) f = true ->
    forall pos, balanced_inward o src pos = Ok (inward_spec f pos).
Proof. exact balanced_inward_forest. Qed.
Print Assumptions C09_public_inward.

(* non-vacuity: `<ul><li><br></li><img/></ul>` : the scan yields the events of the forest
   ul[li[br], img], names are ok in HTML mode, ranges are well nested; position 9 lies in `<br>` *)
Example C09_nonvacuous :
  let s := [60;117;108;62; 60;108;105;62; 60;98;114;62; 60;47;108;105;62; 60;105;109;103;47;62; 60;47;117;108;62]%N in
  let f := [Pair [117;108]%N 0 4 23 28
             [Pair [108;105]%N 4 8 12 17 [Single [98;114]%N false 8 12];
              Single [105;109;103]%N true 17 23]]%N in
  fst (scan (o_special default_opts) s) = events_forest f /\
  forallb (names_ok default_opts) f = true /\ forest_wf 0 28 f = true /\
  length (enclosing f 9) = 3 /\ length (inward_spec f 5) = 2.
Proof. vm_compute. repeat split. Qed.
