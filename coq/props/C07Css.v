(* C07, stylesheet half -- expand with type stylesheet fails only with its two parse errors
   (scanner error, token error), positioned inside the abbreviation; never with an internal
   error, and the fuel the model supplies to its token loops always suffices.
   Property theorems only; each closed by [exact] of a lemma proved in proofs/. *)
From Coq Require Import String.
From Emmet Require Import lib.Base lib.StyleLib gen.GenCssSnippets model.CssTokenizer model.CssParser model.Score
     model.Color model.CssSnippets model.CssResolve model.CssFormat run.StyleShow
     proofs.CssTokenizerProofs proofs.StyleSafeProofs.

(* [expand_outcome_ok n r]: r is a string, or ParseErr (scanner | token) with a position p, 0 <= p <= n, or
   the position-less token error (unexpected end); NOT Internal, NOT OutOfFuel.
   [wf_cfg cfg]: the snippet table of the configuration converts (each property snippet's value parses);
   true for the built-in table (C07_css_builtin_table_converts), a hypothesis for user tables: a malformed
   user snippet raises a parse error whose position refers to the snippet, which the statement does not cover. *)
Theorem C07_css_expand_safe :
  forall (cfg : sconfig) (abbr : str), wf_cfg cfg -> expand_outcome_ok (length abbr) (expand_css cfg abbr).
Proof. exact expand_css_safe_full. Qed.
Print Assumptions C07_css_expand_safe.

(* with an already converted table (what the cache does) no hypothesis is left *)
Theorem C07_css_expand_with_safe :
  forall cfg sn abbr, safe_on (length abbr) (expand_with cfg sn abbr) /\ expand_with cfg sn abbr <> OutOfFuel.
Proof. exact expand_with_safe_and_fuel. Qed.
Print Assumptions C07_css_expand_with_safe.

Theorem C07_css_builtin_table_converts : exists sn, convert_snippets css_snippets = Ok sn.
Proof. exact builtin_table_converts. Qed.
Print Assumptions C07_css_builtin_table_converts.

(* stage: the parser, for ALL token lists (not only tokenizer outputs): only the token error, positioned
   at the start of a token of the input; the fuel suffices *)
Theorem C07_css_parser_safe :
  forall (vm : bool) (ts : list ctoken), good_final ts (parser vm ts) /\ parser vm ts <> OutOfFuel.
Proof. exact parser_safe_and_fuel. Qed.
Print Assumptions C07_css_parser_safe.

(* stage: tokenizer + parser on a string *)
Theorem C07_css_parse_safe :
  forall (vm : bool) (s : str), safe_on (length s) (css_parse vm s) /\ css_parse vm s <> OutOfFuel.
Proof. exact css_parse_safe_and_fuel. Qed.
Print Assumptions C07_css_parse_safe.

(* stage: resolution of one node never fails (int() of a raw snippet's tabstop index is guarded by the regex) *)
Theorem C07_css_resolve_total :
  forall cfg sn node, exists n, resolve_node cfg sn node = Ok n.
Proof. exact resolve_node_ok. Qed.
Print Assumptions C07_css_resolve_total.

(* non-vacuity: a scanner error, a token error and a string *)
Example C07_css_nonvacuous :
  css_parse false (lit "p10)") = ParseErr EK_Scanner (Some 3%Z) /\
  css_parse false (lit "p(,+") = ParseErr EK_Token (Some 3%Z) /\
  css_parse false (lit "p10+,") = ParseErr EK_Token None /\
  (exists l, css_parse false (lit "p10+m-5e!") = Ok l /\ length l = 2%nat).
Proof. vm_compute. repeat split; try reflexivity. eexists; split; reflexivity. Qed.
