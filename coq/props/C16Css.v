(* C16 (CSS half) -- Scanners and matchers are total and report only well-formed ranges.
   Property theorems only; each closed by [exact] of a lemma proved in proofs/.

   Reading guide.  [scan s] is the list of (type, start, end, delimiter) tuples that
   css_matcher.scan(source, callback) passes to its callback.  [range_wf n a b] is
   0 <= a <= b <= n.  Model functions return [res]: [Ok l] is a normal return;
   [Internal _] models a Python exception, [OutOfFuel] a loop that does not end.
   match() returns an [option] (it contains no operation that can raise).  All
   statements hold for ALL strings and ALL positions (any integer, also out of range). *)
From Coq Require Import ZArith List.
From Emmet Require Import lib.Base model.CssScan model.CssMatch model.CssParse
     proofs.CssScanProofs proofs.CssMatchProofs proofs.CssParseProofs.
Import ListNotations.
Local Open Scope Z_scope.

(* scanner: every reported range satisfies 0 <= start <= end <= |s|; the delimiter is
   -1 or an index into s *)
Theorem C16_css_scan_events_wf :
  forall s : str,
    Forall (fun e => range_wf (Z.of_nat (length s)) (estart e) (eend e)
                     /\ -1 <= edelim e < Z.max (Z.of_nat (length s)) 1) (scan s).
Proof. exact css_scan_events_wf. Qed.
Print Assumptions C16_css_scan_events_wf.

(* scanner: events are ordered (each one starts at or after the frontier left by the
   previous one) -- the invariant the folds below rely on *)
Theorem C16_css_scan_events_ordered :
  forall s : str, events_ok 0 (Z.of_nat (length s)) (scan s).
Proof. exact scan_events_ok. Qed.
Print Assumptions C16_css_scan_events_ordered.

(* css_fold_wf, for ALL ordered event lists (not only scanner outputs) *)
Theorem C16_css_fold_wf_match :
  forall (evs : list event) (n pos : Z) (m : match_result),
    events_ok 0 n evs -> match_events evs pos = Some m ->
    range_wf n (mr_start m) (mr_end m) /\ range_wf n (mr_bstart m) (mr_bend m).
Proof. exact match_events_wf. Qed.
Print Assumptions C16_css_fold_wf_match.

Theorem C16_css_fold_wf_outward :
  forall (s : str) (evs : list event) (pos : Z),
    events_ok 0 (Z.of_nat (length s)) evs ->
    exists l, outward_events s evs pos = Ok l /\ Forall (rwf (Z.of_nat (length s))) l.
Proof. exact outward_events_wf. Qed.
Print Assumptions C16_css_fold_wf_outward.

Theorem C16_css_fold_wf_inward :
  forall (s : str) (evs : list event) (pos : Z),
    events_ok 0 (Z.of_nat (length s)) evs ->
    exists l, inward_events s evs pos = Ok l /\ Forall (rwf (Z.of_nat (length s))) l.
Proof. exact inward_events_wf. Qed.
Print Assumptions C16_css_fold_wf_inward.

(* the functions themselves: all strings, all positions *)
Theorem C16_css_match_wf :
  forall (s : str) (pos : Z) (m : match_result),
    css_match s pos = Some m ->
    range_wf (Z.of_nat (length s)) (mr_start m) (mr_end m) /\
    range_wf (Z.of_nat (length s)) (mr_bstart m) (mr_bend m).
Proof. exact css_match_wf. Qed.
Print Assumptions C16_css_match_wf.

(* returns normally (no_internal: neither Internal nor OutOfFuel) with well-formed ranges *)
Theorem C16_css_balanced_outward_wf :
  forall (s : str) (pos : Z),
    exists l, balanced_outward s pos = Ok l /\ Forall (rwf (Z.of_nat (length s))) l.
Proof. exact balanced_outward_wf. Qed.
Print Assumptions C16_css_balanced_outward_wf.

Theorem C16_css_balanced_inward_wf :
  forall (s : str) (pos : Z),
    exists l, balanced_inward s pos = Ok l /\ Forall (rwf (Z.of_nat (length s))) l.
Proof. exact balanced_inward_wf. Qed.
Print Assumptions C16_css_balanced_inward_wf.

(* value splitter: tokens lie inside the value (shifted by offset), are non-empty *)
Theorem C16_css_split_value_wf :
  forall (v : str) (off : Z),
    Forall (fun r => off <= fst r /\ fst r < snd r /\ snd r <= off + Z.of_nat (length v)) (split_value v off).
Proof. exact split_value_wf. Qed.
Print Assumptions C16_css_split_value_wf.

(* ... and are reported in increasing, non-overlapping order *)
Theorem C16_css_split_value_ordered :
  forall (v : str) (off : Z), toks_ordered off (off + Z.of_nat (length v)) (split_value v off).
Proof. exact split_value_ordered. Qed.
Print Assumptions C16_css_split_value_ordered.

(* non-vacuity: a { b : dquote c backslash  (an unterminated string ending in a backslash,
   no semicolon, no closing brace) produces three events, match finds the declaration,
   and its end is the length 7 *)
Example C16_css_nonvacuous :
  let s := [97; 123; 98; 58; 34; 99; 92]%N in
  length (scan s) = 3%nat /\
  css_match s 5 = Some (mkMR true 2 7 4 7) /\
  balanced_inward s 5 = Ok [(2, 7); (4, 7)].
Proof. vm_compute. repeat split; reflexivity. Qed.
