(* C02 -- Repeaters make exactly N copies and number them as documented.
   Property theorems only; each closed by [exact] of a lemma proved in proofs/.

   Full statement (kept visible): `X*N` produces exactly N consecutive copies of X (element or
   group, with all descendants).  Inside copy i (1-based) every `$` run in names, attribute values
   and text is replaced by the counter: `$` gives i, `$$$` pads it to three digits, `@M` starts at
   M, `@-` counts down so that the last copy gets the start value; the counter is that of the
   nearest repeated element or group containing the place (itself included), 1 when there is none.
   With a maxRepeat limit M copies are completed in document order until M have been completed in
   total; from then on every repeater still running or met later yields just one copy.

   What is proved, for ALL inputs: the tokens of every numbering form (C02_tokenize_numbering, C02_tokenize_numbering_base), the
   value and padding a `$` run prints under a repeater stack (C02_numbering_value, C02_numbering_in_copy, C02_pad_width, C02_pad_zeros, C02_decimal),
   and the whole converter -- copy loop, repeater stack, budget -- against a pure unrolling spec
   (C02_limit_full = closed form for every budget; C02_convert_count, C02_guard_enough,
   C02_guard_step, C02_guard_exhausted, C02_unrepeated_inherits as its readable consequences).
   That the parser hands the repeater of `X*N` / `( ... )*N` to the converter on the right unit is
   C01 (C01_parse_groups, C01_name_rep_is_gblock).  Not covered by a theorem: snippet resolution and
   the formatter printing every node of the forest exactly once (C01 _partial); both are inside
   the observable of the correspondence (full output string, and the converted tree with its
   repetition tags) and of the oracle.
   Reading of the limit clause for reversed numbering: the counter of copy i of N is start+N-i with N
   as written, also when the limit stops the repeater early (the code, upstream and the oracle agree);
   N = 0 is read as N = 1 (written_count), outside the statement's claim.
   Added (end of file): C02_parser_output_clean -- the parser's output on every token list without `$#`
   tokens and implicit repeaters is [clean_node], so the copy/budget theorems apply to every abbreviation
   text free of `$#` and bare `*` (C02_text_output_clean_partial: stated for the text condition "no `$#`,
   a digit after every `*`"); C02_limit_full_with_wrap -- the closed form of convert for ALL trees the
   parser can return, implicit repeaters and wrap text included (spec [unroll_w], proofs/WrapFull.v). *)
From Emmet Require Import lib.Base model.MarkupTokenizer model.MarkupParser model.MarkupConvert
     proofs.NumberingProofs proofs.ConvertProofs.
From Emmet Require Import proofs.SafeBridge proofs.WrapFull proofs.WrapLines proofs.ParserClean.
Local Open Scope Z_scope.

(* Scope of the copy/budget theorems: token trees that are [clean_node] -- no `$#` placeholder token
   (it reads the wrapped text, C04) and no implicit `*` without a number (repeat over wrapped text
   lines); every abbreviation the statement of C02 speaks about is of this kind.  The spec:
     unroll env reps node      -- the unrolled forest: a unit with `*n` gives copies i = 0..n-1 in
                                  a row, copy i converted under the repeater stack (n, i) :: reps,
                                  a unit without repeater is converted once under reps;
     unroll_b env reps node b  -- the same with a budget b threaded in document order: a completed
                                  copy costs 1; a repeater stops after the copy that brings the
                                  budget to <= 0 (so it always yields at least one copy);
     total node                -- copies completed when nothing stops them: n * (1 + inner). *)

(* ---- C02_limit_full: closed form of the converter for EVERY budget, every nesting. *)
Theorem C02_limit_full :
  forall (env : cenv) (max_repeat : option N) (root : list tnode),
    ce_text env = WNone -> forallb clean_node root = true ->
    convert env max_repeat root = Ok (fst (list_b (unroll_b env []) root (budget_of max_repeat))).
Proof. exact convert_limit_full. Qed.
Print Assumptions C02_limit_full.

(* the same for one statement in any converter state (any repeater stack, any budget, also <= 0):
   output = spec, repeater stack and flags untouched, budget = spec's remaining budget *)
Theorem C02_statement_spec :
  forall (env : cenv) (node : tnode), clean_node node = true ->
  forall st : cst,
    conv_stmt env node st =
    Ok (fst (unroll_b env (cs_repeaters st) node (cs_guard st)),
        set_guard st (snd (unroll_b env (cs_repeaters st) node (cs_guard st)))).
Proof. exact conv_stmt_spec. Qed.
Print Assumptions C02_statement_spec.

(* ---- convert_count: X*N (element or group, any nesting inside X, N >= 1; `*0` is read as N = 1)
   with enough budget yields exactly N consecutive copies; copy i (0-based) is X without its
   repeater converted under the stack (N, i) :: enclosing, tagged with its repetition; the budget
   drops by the number of copies completed (guard_step in closed form). *)
Theorem C02_convert_count :
  forall (env : cenv) (node : tnode) (r0 : rep) (st : cst),
    clean_node node = true -> node_rep node = Some r0 ->
    total node <= cs_guard st ->
    let n := written_count r0 in
    conv_stmt env node st =
    Ok (flat_map (fun i => tag_copy node (mkRep n i false)
                             (unroll env (mkRep n i false :: cs_repeaters st) (strip_rep node)))
                 (nseq (N.to_nat n) 0%N),
        set_guard st (cs_guard st - total node)).
Proof. exact convert_count. Qed.
Print Assumptions C02_convert_count.

(* nseq n 0 = 0, 1, ..., n-1: exactly n copies, in order *)
Theorem C02_copies_indices :
  forall (k : nat), (length (nseq k 0%N) = k)%nat /\
  forall j, (j < k)%nat -> nth_error (nseq k 0%N) j = Some (N.of_nat j).
Proof. intros k. split; [apply nseq_length|]. intros j Hj. rewrite nseq_nth by exact Hj. reflexivity. Qed.
Print Assumptions C02_copies_indices.

(* ---- counter of the nearest enclosing repeated unit: a unit without repeater is converted under
   the stack of its surroundings ... *)
Theorem C02_unrepeated_inherits :
  forall (env : cenv) (node : tnode) (st : cst),
    clean_node node = true -> node_rep node = None -> total node <= cs_guard st ->
    conv_stmt env node st =
    Ok (once_u env node None (cs_repeaters st), set_guard st (cs_guard st - total node)).
Proof. exact convert_unrepeated. Qed.
Print Assumptions C02_unrepeated_inherits.

(* ... and under a stack whose head is (n, i) a `$` run prints start+i / start+n-(i+1), zero-padded;
   with an empty stack it prints 1 *)
Theorem C02_numbering_in_copy :
  forall (env : cenv) (reps : list rep) (t : token) (size : N) (reverse : bool) (base n i : N),
    tk t = TRepeaterNumber size reverse base 0 ->
    tok_str env (mkRep n i false :: reps) t =
    pad (N.to_nat size) (str_of_Z (counter_value reverse base (i + 1) n)).
Proof. exact numbering_in_copy. Qed.
Print Assumptions C02_numbering_in_copy.

Theorem C02_numbering_outside :
  forall (env : cenv) (t : token) (size : N) (reverse : bool) (base : N),
    tk t = TRepeaterNumber size reverse base 0 ->
    tok_str env [] t = pad (N.to_nat size) [49%N].
Proof. exact numbering_outside. Qed.
Print Assumptions C02_numbering_outside.

(* ---- in names, text and attribute values: a name, a text / attribute value without `${n}` tabstops
   is the concatenation of its tokens' texts under the stack in force, so every `$` run in it is
   replaced as C02_numbering_in_copy says (literals stay as written) *)
Theorem C02_names_glued :
  forall (env : cenv) (reps : list rep) (toks : list token),
    clean_toks toks = true -> name_str env reps toks = flat_map (tok_str env reps) toks.
Proof. exact name_str_flat. Qed.
Print Assumptions C02_names_glued.

Theorem C02_values_glued :
  forall (env : cenv) (reps : list rep) (t : token) (r : list token),
    clean_toks (t :: r) = true -> forallb (fun t => negb (is_tabstop t)) (t :: r) = true ->
    value_toks env reps (t :: r) = [VStr (flat_map (tok_str env reps) (t :: r))].
Proof. exact value_toks_flat. Qed.
Print Assumptions C02_values_glued.

Theorem C02_attribute_values_glued :
  forall (env : cenv) (reps : list rep) (nt : token) (nr : list token) (vt : token) (vr : list token)
         (expr mult : bool),
    clean_toks (nt :: nr) = true -> clean_toks (vt :: vr) = true ->
    forallb (fun t => negb (is_tabstop t)) (vt :: vr) = true ->
    is_quote_tok vt None = false -> is_bracket vt (Some BExpr) (Some true) = false ->
    aa_value (attr_of env reps (mkTAttr (Some (nt :: nr)) (Some (vt :: vr)) expr mult)) =
    Some [VStr (flat_map (tok_str env reps) (vt :: vr))].
Proof. exact attr_of_plain. Qed.
Print Assumptions C02_attribute_values_glued.

Theorem C02_literal_text :
  forall (env : cenv) (reps : list rep) (t : token) (v : str), tk t = TLiteral v -> tok_str env reps t = v.
Proof. exact tok_str_literal. Qed.
Print Assumptions C02_literal_text.

(* the pieces put together on a family: `x$..$@..*n` (name = a literal and one numbering token) unrolls
   to n elements named x<counter of copy 1> ... x<counter of copy n>, for every n >= 1, every width,
   direction and start value *)
Theorem C02_numbered_names :
  forall (env : cenv) (lit num : token) (v : str) (size : N) (reverse : bool) (base n : N),
    tk lit = TLiteral v -> tk num = TRepeaterNumber size reverse base 0 -> (1 <= n)%N ->
    map an_name (unroll env [] (TElem (Some [lit; num]) None None (Some (mkRep n 0 false)) false [])) =
    map (fun i => Some (v ++ pad (N.to_nat size) (str_of_Z (counter_value reverse base (i + 1) n))))
        (nseq (N.to_nat n) 0%N).
Proof. exact numbered_element_names. Qed.
Print Assumptions C02_numbered_names.

(* ---- guard_enough: budget >= total copies => same as unlimited *)
Theorem C02_guard_enough :
  forall (env : cenv) (max_repeat : option N) (root : list tnode),
    ce_text env = WNone -> forallb clean_node root = true ->
    total_list root <= budget_of max_repeat ->
    convert env max_repeat root = Ok (flat_map (unroll env []) root).
Proof. exact convert_enough. Qed.
Print Assumptions C02_guard_enough.

(* ---- guard_step: converting a statement never raises the budget, lowers it by at most the
   unlimited number of copies (exactly that many when the budget suffices: C02_convert_count),
   and leaves the repeater stack as it found it *)
Theorem C02_guard_step :
  forall (env : cenv) (node : tnode) (st : cst) (items : list anode) (st' : cst),
    clean_node node = true -> conv_stmt env node st = Ok (items, st') ->
    cs_guard st - total node <= cs_guard st' <= cs_guard st /\ cs_repeaters st' = cs_repeaters st.
Proof. exact guard_bounds. Qed.
Print Assumptions C02_guard_step.

(* each completed copy costs exactly one: the budgeted copy loop, one round *)
Theorem C02_guard_step_round :
  forall (f : N -> Z -> list anode * Z) (k : nat) (i : N) (b : Z),
    copies_b f (S k) i b =
    let '(x, b1) := f i b in
    if b1 - 1 <=? 0 then (x, b1 - 1)
    else let '(y, b3) := copies_b f k (i + 1)%N (b1 - 1) in (x ++ y, b3).
Proof. reflexivity. Qed.
Print Assumptions C02_guard_step_round.

(* ---- the limit sentence on one repeater: X*N with no repeater inside X and a budget M >= 1 left
   yields exactly min(N, M) copies (the first ones, in order) and uses up that many *)
Theorem C02_single_repeater_limit :
  forall (env : cenv) (node : tnode) (r0 : rep) (reps : list rep) (b : Z),
    node_rep node = Some r0 -> inner_total node = 0 -> 1 <= b ->
    let n := written_count r0 in
    let m := Z.min (Z.of_N n) b in
    unroll_b env reps node b =
    (flat_map (fun i => tag_copy node (mkRep n i false) (unroll env (mkRep n i false :: reps) (strip_rep node)))
              (nseq (Z.to_nat m) 0%N),
     b - m).
Proof. exact single_repeater_limit. Qed.
Print Assumptions C02_single_repeater_limit.

(* ---- guard_exhausted: budget <= 0 => every repeater (still running or met later) yields just one
   copy, the one with index 0 of its written count *)
Theorem C02_guard_exhausted :
  forall (env : cenv) (node : tnode) (st : cst),
    clean_node node = true -> cs_guard st <= 0 ->
    conv_stmt env node st =
    Ok (unroll_one env (cs_repeaters st) node, set_guard st (cs_guard st - repeaters node)).
Proof. exact guard_exhausted. Qed.
Print Assumptions C02_guard_exhausted.

(* ---- numbering: value.  A `$` run of width [size] with modifier (reverse, base) prints the
   counter in force -- copy i of n of the innermost active repeater: base+i-1, or base+n-i when
   reversed (so the last copy, i = n, prints base); 1 when no repeater is active -- zero-padded to
   the width of the run.  For every converter state. *)
Theorem C02_numbering_value :
  forall (env : cenv) (t : token) (size : N) (reverse : bool) (base : N) (st : cst),
    tk t = TRepeaterNumber size reverse base 0 ->
    stringify env t st =
      Ok (pad (N.to_nat size) (str_of_Z (counter_in_force reverse base (cs_repeaters st))), st).
Proof. exact numbering_value. Qed.
Print Assumptions C02_numbering_value.

Local Close Scope Z_scope.

(* ---- numbering: padding.  The printed string has length max(width, digits) and is the number
   itself preceded by zeros only. *)
Theorem C02_pad_width :
  forall (w : nat) (s : str), length (pad w s) = Nat.max w (length s).
Proof. exact pad_length. Qed.
Print Assumptions C02_pad_width.

Theorem C02_pad_zeros :
  forall (w : nat) (s : str),
    exists z, pad w s = z ++ s /\ Forall (fun c => c = c_0) z /\ length z = (w - length s)%nat.
Proof. exact pad_suffix. Qed.
Print Assumptions C02_pad_zeros.

(* str_of_N (Python's str() of the counter) is the decimal numeral: int() reads it back *)
Theorem C02_decimal :
  forall n : N, int_of_str (str_of_N n) = Some n.
Proof. exact str_of_N_decimal. Qed.
Print Assumptions C02_decimal.

(* ---- numbering: tokens.  Every form `$`*n, `$`*n@, `$`*n@M, `$`*n@-, `$`*n@-M (any width n >= 1,
   any digit string M) tokenizes to ONE RepeaterNumber token over the whole form with
   size = n, the written direction, base = int(M) (1 when no digits are written). *)
Theorem C02_tokenize_numbering :
  forall (n : nat) (at_sign reverse : bool) (digits : str),
    (0 < n)%nat -> all_digits digits -> (at_sign = false -> reverse = false /\ digits = []) ->
    tokenize (dollars n ++ modifier at_sign reverse digits) =
    TOk [mkTok (TRepeaterNumber (N.of_nat n) reverse (form_base digits) 0)
               0 (n + length (modifier at_sign reverse digits))%nat].
Proof. exact tokenize_numbering_form. Qed.
Print Assumptions C02_tokenize_numbering.

(* ... and inside a longer abbreviation: the consumer reads exactly the form whenever what follows
   cannot continue it; the base written as the decimal numeral of M is M *)
Theorem C02_tokenize_numbering_base :
  forall (n : nat) (reverse : bool) (m : N) (rest : str),
    (0 < n)%nat -> all_digits (str_of_N m) -> peek_p is_number rest = false ->
    repeater_number (dollars n ++ modifier true reverse (str_of_N m) ++ rest) =
    CTok (TRepeaterNumber (N.of_nat n) reverse m 0) (n + length (modifier true reverse (str_of_N m)))%nat.
Proof. exact repeater_number_base. Qed.
Print Assumptions C02_tokenize_numbering_base.

(* non-vacuity: the four documented forms *)
Example C02_nonvacuous :
  tokenize [36;36;36]%N = TOk [mkTok (TRepeaterNumber 3 false 1 0) 0 3] /\
  tokenize [36;36;64;45]%N = TOk [mkTok (TRepeaterNumber 2 true 1 0) 0 4] /\
  tokenize [36;64;45;49;50]%N = TOk [mkTok (TRepeaterNumber 1 true 12 0) 0 5] /\
  tokenize [36;64;51]%N = TOk [mkTok (TRepeaterNumber 1 false 3 0) 0 3].
Proof. exact tokenize_numbering_examples. Qed.

(* non-vacuity of the copy/budget theorems: `(p.c$+q)*2>` ... a real abbreviation goes through the
   tokenizer and the parser to a clean tree; with budget 3 < total = 5 the limit cuts inside *)
From Coq Require Import String.
From Emmet Require Import lib.StrLit.
Definition env0 : cenv := mkCenv WNone [] false.
Definition names_of (l : list anode) : list (option str) := map an_name l.
Example C02_nonvacuous_copies :
  exists toks root,
    tokenize (S "(p$+q)*2+u$@-*3") = TOk toks /\ parse false toks = POk root /\
    forallb clean_node root = true /\ total_list root = 5%Z /\
    option_map names_of (match convert env0 None root with Ok l => Some l | _ => None end)
      = Some [Some (S "p1"); Some (S "q"); Some (S "p2"); Some (S "q"); Some (S "u3"); Some (S "u2"); Some (S "u1")] /\
    option_map names_of (match convert env0 (Some 3%N) root with Ok l => Some l | _ => None end)
      = Some [Some (S "p1"); Some (S "q"); Some (S "p2"); Some (S "q"); Some (S "u3")] /\
    option_map names_of (match convert env0 (Some 1%N) root with Ok l => Some l | _ => None end)
      = Some [Some (S "p1"); Some (S "q"); Some (S "u3")].
Proof.
  eexists. eexists. split; [vm_compute; reflexivity|]. split; [vm_compute; reflexivity|].
  repeat split; vm_compute; reflexivity.
Qed.

(* ================================================================ the domain of the theorems above is what the
   parser returns *)
Local Close Scope Z_scope.

(* ---- parser_output_clean.  [W MPlain toks]: read with the three-state automaton of proofs/SafeBridge.v
   (plain / inside quotes / inside text braces) the list holds, inside quotes and braces, only literal-like
   tokens and the closing quote / brace -- in particular no Repeater token there; every tokenizer output is
   of this kind (C02_tokenizer_output_W).  [plain_tokens toks]: no `$#` token, no Repeater token without a
   number.  Then EVERY tree the parser returns is [clean_node].
   (Without [W] the claim is false for arbitrary token lists: `{` Repeater `}` puts a Repeater token into a
   text value.) *)
Theorem C02_parser_output_clean :
  forall (jsx : bool) (toks : list token) (root : list tnode),
    W MPlain toks = true -> plain_tokens toks = true ->
    parse jsx toks = POk root -> forallb clean_node root = true.
Proof. exact parser_output_clean. Qed.
Print Assumptions C02_parser_output_clean.

Theorem C02_tokenizer_output_W :
  forall (s : str) (toks : list token), tokenize s = TOk toks -> W MPlain toks = true.
Proof. exact SafeBridgeTok.tokenize_W. Qed.
Print Assumptions C02_tokenizer_output_W.

(* the fact behind it, for ALL token lists and any property of tokens [P] / repeater payloads [Q]: the
   parser builds its trees from the tokens it is given (plus the literal `id` / `class` of `#x` / `.x`) *)
Theorem C02_parser_provenance :
  forall (P : token -> bool) (Q : rep -> bool),
    P (literal_tok s_id) = true -> P (literal_tok s_class) = true ->
    forall (jsx : bool) (toks : list token) (root : list tnode),
      Pl P toks = true -> Ql Q toks = true ->
      parse jsx toks = POk root -> forallb (nodePQ P Q) root = true.
Proof. exact parse_PQ. Qed.
Print Assumptions C02_parser_provenance.

(* ---- composed with the tokenizer.
   Full statement (kept visible): the text contains no `$#` and no `*` that is not followed by a digit
   OUTSIDE quotes / text braces / attribute brackets  ==>  every tree parse returns is clean_node.
   _partial: proved for the coarser text condition "no `$#` anywhere, a digit after EVERY `*`"
   ([no_dollar_hash], [stars_counted]); a bare `*` inside quotes, `{..}` or `[..]` is literal text for the
   tokenizer and is covered by the token-level theorem C02_parser_output_clean only (its hypothesis
   [plain_tokens] is exact), not by a condition on the characters. *)
Theorem C02_text_output_clean_partial :
  forall (jsx : bool) (s : str) (toks : list token) (root : list tnode),
    no_dollar_hash s = true -> stars_counted s = true ->
    tokenize s = TOk toks -> parse jsx toks = POk root -> forallb clean_node root = true.
Proof. exact text_output_clean. Qed.
Print Assumptions C02_text_output_clean_partial.

(* ---- limit_full_with_wrap: the closed form of convert for ALL trees whose tokens can be printed
   ([conv_node]; C02_parser_output_printable: every tree the parser returns on tokenizer output) --
   `$#` and implicit repeaters included, every text, every budget.  [convert_w] = the unrolling spec
   [unroll_w] (budget and the two text flags threaded in document order) followed by the final insertion
   of the whole text when nothing took it; see props/C04Wrap.v for the reading of the spec. *)
Theorem C02_limit_full_with_wrap :
  forall (env : cenv) (max_repeat : option N) (root : list tnode),
    forallb conv_node root = true ->
    convert env max_repeat root = Ok (convert_w env max_repeat root).
Proof. exact convert_wrap_full. Qed.
Print Assumptions C02_limit_full_with_wrap.

Theorem C02_parser_output_printable :
  forall (jsx : bool) (s : str) (toks : list token) (root : list tnode),
    tokenize s = TOk toks -> parse jsx toks = POk root -> forallb conv_node root = true.
Proof. exact parser_output_printable. Qed.
Print Assumptions C02_parser_output_printable.

(* from the text: whatever the abbreviation, whatever the wrap text and the limit *)
Theorem C02_limit_full_text :
  forall (jsx : bool) (env : cenv) (max_repeat : option N) (s : str) (toks : list token) (root : list tnode),
    tokenize s = TOk toks -> parse jsx toks = POk root ->
    convert env max_repeat root = Ok (convert_w env max_repeat root).
Proof. exact convert_text_full. Qed.
Print Assumptions C02_limit_full_text.

(* on C02's own domain (no text, clean trees) the extended spec is the budgeted unrolling of C02_limit_full;
   more generally a tree without implicit repeaters unrolls by [unroll_b] whatever the text, the flags only
   recording whether a `$#` was met *)
Theorem C02_wrap_spec_agrees :
  forall (env : cenv) (max_repeat : option N) (root : list tnode),
    ce_text env = WNone -> forallb clean_node root = true ->
    convert_w env max_repeat root = fst (list_b (unroll_b env []) root (budget_of max_repeat)).
Proof. exact convert_w_clean. Qed.
Print Assumptions C02_wrap_spec_agrees.

Theorem C02_explicit_trees_unroll_b :
  forall (env : cenv) (node : tnode), explicit_node node = true ->
  forall (reps : list rep) (w : wst),
    unroll_w env reps node w =
    (fst (unroll_b env reps node (w_budget w)),
     w_mk (ph_node node) w (snd (unroll_b env reps node (w_budget w)))).
Proof. exact unroll_w_explicit. Qed.
Print Assumptions C02_explicit_trees_unroll_b.

(* non-vacuity: a text with numbering, groups, nested counts, `*` inside quotes with a digit after it
   satisfies the text condition, tokenizes, parses, and the tree is clean; a text with `$#` and a bare `*`
   parses to a printable tree on which convert = convert_w computes *)
Example C02_clean_nonvacuous :
  let s := S "(p.c$$@3*2>q[t=""a*3""])*2+u$@-*3" in
  no_dollar_hash s = true /\ stars_counted s = true /\
  exists toks root, tokenize s = TOk toks /\ W MPlain toks = true /\ plain_tokens toks = true /\
                    parse false toks = POk root /\ forallb clean_node root = true /\ total_list root = 9%Z.
Proof.
  cbv zeta. split; [vm_compute; reflexivity|]. split; [vm_compute; reflexivity|].
  eexists. eexists. split; [vm_compute; reflexivity|].
  split; [vm_compute; reflexivity|]. split; [vm_compute; reflexivity|].
  split; [vm_compute; reflexivity|]. split; vm_compute; reflexivity.
Qed.

Example C02_wrap_nonvacuous :
  let env := mkCenv (WList [S " one "; S ""; S "two"]) [] false in
  exists toks root, tokenize (S "ul>li.i$*>b*2>i{$#}") = TOk toks /\ parse false toks = POk root /\
    forallb conv_node root = true /\ forallb clean_node root = false /\
    convert env (Some 5%N) root = Ok (convert_w env (Some 5%N) root) /\
    map (fun n => List.length (an_children n)) (convert_w env (Some 5%N) root) = [2%nat].
Proof.
  cbv zeta. eexists. eexists. split; [vm_compute; reflexivity|]. split; [vm_compute; reflexivity|].
  split; [vm_compute; reflexivity|]. split; [vm_compute; reflexivity|]. split; vm_compute; reflexivity.
Qed.

(* ================================================================ numbering inside the text of an element, at any depth
   of inner braces (proofs/TextNested.v; repair 86fc68a made `p{{$}}*2` parse at all).
   [payload] / [payload_text] / [payload_ok]: see props/C04.v (C04_text_nested): literal runs alternating with
   counters, `$#`, fields, the written text balanced modulo escapes, items at ANY brace depth.
   [payload_out reps P]: the literal runs with escapes resolved and every counter replaced by what it prints under
   the repeater stack [reps]. *)
From Emmet Require Import proofs.TextSpec proofs.TextProofs proofs.TextNested.

(* numbering_nested_text.  `name{P}*N` for every payload without `${n}` fields (those stay tokens: C04_nested_repeated),
   N written as the digit string [ds], limit not reached: exactly N nodes; the text of copy i (0-based) is the
   literal runs, inner braces kept, with every counter -- whatever its brace depth -- replaced by ... *)
Theorem C02_numbering_nested_text :
  forall (jsx : bool) (env : cenv) (max_repeat : option N) (name : str) (P : payload) (ds : str),
    name_ok name -> payload_ok P = true ->
    forallb (fun kt => negb (is_field (fst kt))) (snd P) = true -> payload_text P <> [] ->
    all_digits ds -> ds <> [] -> ce_text env = WNone ->
    let n := count_of ds in
    (Z.of_N n <= budget_of max_repeat)%Z ->
    MarkupResolve.parse_abbr jsx env max_repeat (name ++ c_lbrace :: payload_text P ++ c_rbrace :: c_star :: ds) =
      Ok (map (fun i => ANode (Some name) (Some [VStr (payload_out [mkRep n i false] P)])
                              (Some (mkRep n i false)) None [] false)
              (nseq (N.to_nat n) 0%N)).
Proof. exact numbering_nested_text_full. Qed.
Print Assumptions C02_numbering_nested_text.

(* ... its value in copy i+1 of N: start + i counting up, start + N - (i+1) counting down, zero-padded to the
   width of the `$` run (C02_numbering_in_copy for the token; here for the written item) *)
Theorem C02_counter_in_nested_text :
  forall (w : nat) (at_sign reverse : bool) (digits : str) (n i : N) (reps : list rep),
    item_out (mkRep n i false :: reps) (INum w at_sign reverse digits) =
      pad w (str_of_Z (counter_value reverse (form_base digits) (i + 1) n)).
Proof. exact item_out_in_copy. Qed.
Print Assumptions C02_counter_in_nested_text.

(* non-vacuity: `p{a{$}b{{$$@-3}c}}*3` -- counters one and two braces deep *)
Example C02_nested_text_nonvacuous :
  let P : payload := (S "a{", [(INum 1 false false [], S "}b{{"); (INum 2 true true (S "3"), S "}c}")]) in
  name_ok (S "p") /\ payload_ok P = true /\ payload_text P = S "a{$}b{{$$@-3}c}" /\
  map (fun reps => payload_out reps P) [[mkRep 3 0 false]; [mkRep 3 1 false]; [mkRep 3 2 false]] =
    [S "a{1}b{{05}c}"; S "a{2}b{{04}c}"; S "a{3}b{{03}c}"] /\
  option_map (map an_value) (match MarkupResolve.parse_abbr false env0 None (S "p{a{$}b{{$$@-3}c}}*3") with Ok l => Some l | _ => None end) =
    Some [Some [VStr (S "a{1}b{{05}c}")]; Some [VStr (S "a{2}b{{04}c}")]; Some [VStr (S "a{3}b{{03}c}")]].
Proof.
  cbv zeta. split; [split; [discriminate|repeat constructor]|].
  repeat split; vm_compute; reflexivity.
Qed.
