(* C02 -- Repeaters make exactly N copies and number them as documented.
   Property theorems only; each closed by [exact] of a lemma proved in proofs/.

   Full statement (kept visible): `X*N` produces exactly N consecutive copies of X (element or
   group, with all descendants).  Inside copy i (1-based) every `$` run in names, attribute values
   and text is replaced by the counter: `$` gives i, `$$$` pads it to three digits, `@M` starts at
   M, `@-` counts down so that the last copy gets the start value; the counter is that of the
   nearest repeated element or group containing the place (itself included), 1 when there is none.
   With a maxRepeat limit M copies are completed in document order until M have been completed in
   total; from then on every repeater still running or met later yields just one copy. *)
From Emmet Require Import lib.Base model.MarkupTokenizer model.MarkupParser model.MarkupConvert
     proofs.NumberingProofs.

(* ---- numbering: value.  A `$` run of width [size] with modifier (reverse, base) prints the
   counter in force -- copy i of n of the innermost active repeater: base+i-1, or base+n-i when
   reversed (so the last copy, i = n, prints base); 1 when no repeater is active -- zero-padded to
   the width of the run.  For every converter state. *)
Theorem C02_numbering_value :
  forall (env : cenv) (t : token) (size : N) (reverse : bool) (base : N) (st : cst),
    tk t = TRepeaterNumber size reverse base 0 ->
    stringify env t st =
      Ok (pad (N.to_nat size) (str_of_Z (counter_in_force reverse base (cs_repeaters st))), st).
Proof. exact numbering_value. Qed.
Print Assumptions C02_numbering_value.

(* ---- numbering: padding.  The printed string has length max(width, digits) and is the number
   itself preceded by zeros only. *)
Theorem C02_pad_width :
  forall (w : nat) (s : str), length (pad w s) = Nat.max w (length s).
Proof. exact pad_length. Qed.
Print Assumptions C02_pad_width.

Theorem C02_pad_zeros :
  forall (w : nat) (s : str),
    exists z, pad w s = z ++ s /\ Forall (fun c => c = c_0) z /\ length z = w - length s.
Proof. exact pad_suffix. Qed.
Print Assumptions C02_pad_zeros.

(* str_of_N (Python's str() of the counter) is the decimal numeral: int() reads it back *)
Theorem C02_decimal :
  forall n : N, int_of_str (str_of_N n) = Some n.
Proof. exact str_of_N_decimal. Qed.
Print Assumptions C02_decimal.

(* ---- numbering: tokens.  Every form `$`*n, `$`*n@, `$`*n@M, `$`*n@-, `$`*n@-M (any width n >= 1,
   any digit string M) tokenizes to ONE RepeaterNumber token over the whole form with
   size = n, the written direction, base = int(M) (1 when no digits are written). *)
Theorem C02_tokenize_numbering :
  forall (n : nat) (at_sign reverse : bool) (digits : str),
    0 < n -> all_digits digits -> (at_sign = false -> reverse = false /\ digits = []) ->
    tokenize (dollars n ++ modifier at_sign reverse digits) =
    TOk [mkTok (TRepeaterNumber (N.of_nat n) reverse (form_base digits) 0)
               0 (n + length (modifier at_sign reverse digits))].
Proof. exact tokenize_numbering_form. Qed.
Print Assumptions C02_tokenize_numbering.

(* ... and inside a longer abbreviation: the consumer reads exactly the form whenever what follows
   cannot continue it; the base written as the decimal numeral of M is M *)
Theorem C02_tokenize_numbering_base :
  forall (n : nat) (reverse : bool) (m : N) (rest : str),
    0 < n -> all_digits (str_of_N m) -> peek_p is_number rest = false ->
    repeater_number (dollars n ++ modifier true reverse (str_of_N m) ++ rest) =
    CTok (TRepeaterNumber (N.of_nat n) reverse m 0) (n + length (modifier true reverse (str_of_N m))).
Proof. exact repeater_number_base. Qed.
Print Assumptions C02_tokenize_numbering_base.

(* non-vacuity: the four documented forms *)
Example C02_nonvacuous :
  tokenize [36;36;36]%N = TOk [mkTok (TRepeaterNumber 3 false 1 0) 0 3] /\
  tokenize [36;36;64;45]%N = TOk [mkTok (TRepeaterNumber 2 true 1 0) 0 4] /\
  tokenize [36;64;45;49;50]%N = TOk [mkTok (TRepeaterNumber 1 true 12 0) 0 5] /\
  tokenize [36;64;51]%N = TOk [mkTok (TRepeaterNumber 1 false 3 0) 0 3].
Proof. exact tokenize_numbering_examples. Qed.
