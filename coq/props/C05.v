(* C05 -- Stylesheet abbreviations resolve numbers, units, colors and !important.
   Property theorems only; each closed by [exact] of a lemma proved in proofs/.

   Stated on the models of emmet/stylesheet/color.py (Color), css_abbreviation/tokenizer
   (CssTokenizer), css_abbreviation/parser.py (CssParser), stylesheet/__init__.py
   (CssResolve) and stylesheet/format.py (CssFormat); colour channels are [N], alpha and
   number values exact decimals (lib/StyleLib.v states the domain on which they coincide
   with CPython's floats). *)
From Coq Require Import String.
From Emmet Require Import lib.Base lib.StyleLib model.CssTokenizer model.CssParser model.Score model.Color
     model.CssSnippets model.CssResolve model.CssFormat proofs.CssTokenizerProofs
     proofs.StyleProofs proofs.StyleDashProofs proofs.StyleValueProofs proofs.StyleTokProofs
     proofs.StyleMultiProofs proofs.StyleSweep proofs.StyleKeysResolve gen.GenCssSnippets run.StyleShow.
Local Open Scope N_scope.

(* ---- colours: printing never changes the value *)
(* [css_hex_decode] is the CSS meaning of "#abc" (= #aabbcc) and "#aabbcc". *)
Theorem C05_hex_roundtrip :
  forall (r g b : N) (short : bool),
    r < 256 -> g < 256 -> b < 256 -> css_hex_decode (as_hex r g b short) = Some (r, g, b).
Proof. exact hex_roundtrip. Qed.
Print Assumptions C05_hex_roundtrip.

(* the 3-digit form iff shortHex and every channel allows it; otherwise the 6-digit form *)
Theorem C05_short_hex_iff :
  forall (r g b : N) (short : bool),
    r < 256 -> g < 256 -> b < 256 ->
    (length (as_hex r g b short) = 4%nat <->
     short = true /\ r mod 17 = 0 /\ g mod 17 = 0 /\ b mod 17 = 0) /\
    (length (as_hex r g b short) = 4%nat \/ length (as_hex r g b short) = 7%nat).
Proof. exact short_hex_iff. Qed.
Print Assumptions C05_short_hex_iff.

(* ---- colours: the documented forms (for all hex digits x y z ..., with value vx vy vz ...;
   [alpha_of] = 1 without alpha text, float(alpha text) otherwise) *)
Theorem C05_parse_color_1 :
  forall alpha a, alpha_of alpha = Some a -> forall x vx, hex_digit_value x = Some vx ->
    parse_color [x] alpha = Some (17 * vx, 17 * vx, 17 * vx, a).
Proof. exact parse_color_1. Qed.
Print Assumptions C05_parse_color_1.

Theorem C05_parse_color_2 :
  forall alpha a, alpha_of alpha = Some a -> forall x y vx vy,
    hex_digit_value x = Some vx -> hex_digit_value y = Some vy ->
    parse_color [x; y] alpha = Some (16 * vx + vy, 16 * vx + vy, 16 * vx + vy, a).
Proof. exact parse_color_2. Qed.
Print Assumptions C05_parse_color_2.

Theorem C05_parse_color_3 :
  forall alpha a, alpha_of alpha = Some a -> forall x y z vx vy vz,
    hex_digit_value x = Some vx -> hex_digit_value y = Some vy -> hex_digit_value z = Some vz ->
    parse_color [x; y; z] alpha = Some (17 * vx, 17 * vy, 17 * vz, a).
Proof. exact parse_color_3. Qed.
Print Assumptions C05_parse_color_3.

Theorem C05_parse_color_6 :
  forall alpha a, alpha_of alpha = Some a -> forall r1 r2 g1 g2 b1 b2 v1 v2 v3 v4 v5 v6,
    hex_digit_value r1 = Some v1 -> hex_digit_value r2 = Some v2 ->
    hex_digit_value g1 = Some v3 -> hex_digit_value g2 = Some v4 ->
    hex_digit_value b1 = Some v5 -> hex_digit_value b2 = Some v6 ->
    parse_color [r1; r2; g1; g2; b1; b2] alpha = Some (16 * v1 + v2, 16 * v3 + v4, 16 * v5 + v6, a).
Proof. exact parse_color_6. Qed.
Print Assumptions C05_parse_color_6.

(* ---- colours: which printed form *)
Theorem C05_color_opaque :
  forall r g b a short, dec_is_one a = true -> color r g b a short = as_hex r g b short.
Proof. exact color_opaque. Qed.
Print Assumptions C05_color_opaque.

Theorem C05_alpha_rgba :
  forall r g b a short,
    dec_is_one a = false ->
    (r =? 0) && (g =? 0) && (b =? 0) && dec_is_zero a = false ->
    color r g b a short =
    lit "rgba(" ++ str_of_N r ++ lit ", " ++ str_of_N g ++ lit ", " ++ str_of_N b ++ lit ", " ++ frac a 8 ++ lit ")".
Proof. exact alpha_rgba. Qed.
Print Assumptions C05_alpha_rgba.

(* the alpha is printed as the canonical decimal: complete sweep over every alpha of one or two digits
   ([hundredths_text n] = "0", "0.d" or "0.dd" without trailing zero for n/100) *)
Theorem C05_alpha_hundredths :
  forall n, n < 100 -> frac (mkDec false n 2) 8 = hundredths_text n.
Proof. exact frac_hundredths. Qed.
Print Assumptions C05_alpha_hundredths.

Theorem C05_alpha_tenths :
  forall d, d < 10 -> frac (mkDec false d 1) 8 = hundredths_text (10 * d).
Proof. exact frac_tenths. Qed.
Print Assumptions C05_alpha_tenths.

(* ---- units: the decision rule ([unit_spec], proofs/StyleProofs.v:
     explicit unit -> through the alias table; else bare when the value is 0 or the property is
     unitless; else floatUnit iff the raw text contains '.', else intUnit) *)
Theorem C05_unit_rule :
  forall cfg name value raw u st en,
    resolve_numeric_token cfg name (VTok (CNumber value raw u) st en) =
    VTok (CNumber value raw (unit_spec cfg name value raw u)) st en.
Proof. exact unit_rule. Qed.
Print Assumptions C05_unit_rule.

Theorem C05_unit_rule_other_tokens :
  forall cfg name t, is_number_tok t = false -> resolve_numeric_token cfg name t = t.
Proof. exact unit_rule_other. Qed.
Print Assumptions C05_unit_rule_other_tokens.

(* ---- dash rule, on one round of the tokenizer loop, in every context *)
Theorem C05_dash_after_unitless_or_color :
  forall src v br acc pos c r k n rest,
    cconsume (Nat.eqb br 0 && negb v) (Nat.eqb pos 0) (c :: r) = CTok k n ->
    should_consume_dash_after k = true ->            (* a colour, or a number without unit *)
    skipn n (c :: r) = c_dash :: rest ->
    ctoks src v 0 br acc pos (c :: r) =
    ctoks src v n br
          (mkCTok (COperator c_dash) (pos + n) (pos + n + 1) :: mkCTok k pos (pos + n) :: acc) (S pos) r.
Proof. exact dash_after_unitless_or_color. Qed.
Print Assumptions C05_dash_after_unitless_or_color.

Theorem C05_no_forced_operator :
  forall src v br acc pos c r k n,
    cconsume (Nat.eqb br 0 && negb v) (Nat.eqb pos 0) (c :: r) = CTok k n ->
    should_consume_dash_after k = false ->           (* e.g. a number with a unit *)
    match k with CBracket _ => False | _ => True end ->
    ctoks src v 0 br acc pos (c :: r) = ctoks src v (pred n) br (mkCTok k pos (pos + n) :: acc) (S pos) r.
Proof. exact no_forced_operator. Qed.
Print Assumptions C05_no_forced_operator.

Theorem C05_dash_digit_is_sign :
  forall short at_start d r,
    is_number d = true ->
    exists v raw' u n,
      cconsume short at_start (c_dash :: d :: r) = CTok (CNumber v (c_dash :: raw') u) n /\
      dneg v = true /\ (2 <= n)%nat.
Proof. exact dash_digit_is_sign. Qed.
Print Assumptions C05_dash_digit_is_sign.

(* ---- !important *)
Theorem C05_important_sets :
  forall fuel vm t ts imp vals,
    k_is_important (ck t) = true ->
    p_prop_loop (S fuel) vm (t :: ts) imp vals = p_prop_loop fuel vm ts true vals.
Proof. exact important_sets. Qed.
Print Assumptions C05_important_sets.

Theorem C05_important_sticky :
  forall fuel vm ts vals imp' vals' rest,
    p_prop_loop fuel vm ts true vals = Ok (imp', vals', rest) -> imp' = true.
Proof. exact important_sticky. Qed.
Print Assumptions C05_important_sticky.

(* ---- line shape: name between values [" !important"] after; values joined by ", ",
   the tokens of a value by single spaces; one property per line *)
Theorem C05_line_shape :
  forall cfg node name,
    pname node = Some name -> c_json cfg = false -> pvalue node <> [] ->
    css_property cfg node =
    push_string cfg (name ++ c_between cfg) ++
    join (lit ", ") (map (output_value cfg) (pvalue node)) ++
    (if pimportant node then lit " !important" else []) ++ c_after cfg.
Proof. exact line_shape. Qed.
Print Assumptions C05_line_shape.

Theorem C05_value_tokens_spaced :
  forall cfg vs, Forall no_field vs -> output_value cfg vs = join [c_space] (map (output_token cfg) vs).
Proof. exact output_value_spaces. Qed.
Print Assumptions C05_value_tokens_spaced.

Theorem C05_one_property_per_line :
  forall cfg l, c_format cfg = true ->
    stringify_from cfg l true = join (nl_text cfg) (map (css_property cfg) l).
Proof. exact stringify_lines. Qed.
Print Assumptions C05_one_property_per_line.

(* ---- end to end: value_seq_expand, FULL, from the string.
   For every `+`-joined list of properties  name [:] values [!]  -- names made of letters, values = numbers / colours
   of ANY length rendered with the statement's connectors -- in every snippet table where each name [resolves]
   (selects a property snippet entirely; C05_builtin_property_keys_resolve: every property key of the regenerated
   built-in table does) and every configuration without context / JSON and with output.format on:
       expand (rendered) = the properties' lines joined by newline + base indent,
       line = <property><between><values by the unit / colour rules, joined by " ">[" !important"]<after>.
   It composes the scanner (C05_value_seq_tokenize and its continuation form), the parser over siblings, the
   resolver with the unit rule (C05_unit_rule) and the formatter (C05_line_shape, C05_one_property_per_line).
   Not covered by the theorem (covered by the harness only): `!` elsewhere than at the end of a property, `#t`,
   values that are keywords / functions / strings. *)

(* [propv]: mkPropv name colon? values bang? ; [render_props] joins [prop_text]s with `+`;
   [prop_line cfg sn p]: the line above, with property = matched_property cfg sn (name) *)
Theorem C05_value_seq_expand :
  forall cfg sn (props : list propv),
    Forall propv_ok props -> props <> [] ->
    Forall (fun p => resolves cfg sn (pv_key p)) props ->
    c_context cfg = None -> c_json cfg = false -> c_format cfg = true ->
    expand_with cfg sn (render_props props) = Ok (join (nl_text cfg) (map (prop_line cfg sn) props)).
Proof. exact value_seq_expand_multi. Qed.
Print Assumptions C05_value_seq_expand.

(* every property key of the built-in table (except the gradient shortcut lg) resolves, under any configuration
   that keeps the default minimum score: complete sweep over the regenerated table *)
Theorem C05_builtin_property_keys_resolve :
  forall cfg0 cfg sn,
    cfg_plain = Some cfg0 -> c_min_score cfg = c_min_score cfg0 -> convert_snippets css_snippets = Ok sn ->
    forall k, In k table_keys -> is_prop_key sn k = true -> str_eqb k gradient_name = false ->
      resolves cfg sn k.
Proof. exact builtin_property_keys_resolve. Qed.
Print Assumptions C05_builtin_property_keys_resolve.

(* ---- the single-property form and its stages *)
(* the value grammar: [VNum (mkNum neg ip fp unit)] is  -? ip (. fp)? unit ; [VCol (mkCol hex alpha)] is  # hex (. alpha)? ;
   [render_vals]: after a unit-less number or a colour a `-` precedes the next value, after a unit the next value is
   juxtaposed (its leading `-` is its sign); [render_abbr key vals bang] = key ++ values ++ "!"? *)
Theorem C05_value_seq_tokenize :
  forall key vals bang,
    key_ok key -> Forall val_ok vals -> vals <> [] ->
    exists lit0 ts vs b,
      ctokenize false (render_abbr key vals bang) = CTOk (lit0 :: ts ++ bang_tail bang b) /\
      ck lit0 = CLiteral key /\ body_of ts vs /\ map ck vs = map val_kind vals /\ k_is_important (ck b) = true.
Proof. exact value_seq_tokenize. Qed.
Print Assumptions C05_value_seq_tokenize.

(* [value_text_k cfg prop k]: a number prints frac(value, 4) ++ unit_spec cfg prop value raw unit (C05_unit_rule);
   a colour prints color(r, g, b, a, shortHex) with (r, g, b, a) = parse_color hex alpha (theorems C05_parse_color_1 .. 6) *)
Theorem C05_value_seq_expand_single :
  forall cfg sn key key' prop value kws deps vals bang,
    key_ok key -> Forall val_ok vals -> vals <> [] ->
    c_context cfg = None -> c_json cfg = false ->
    str_eqb key gradient_name = false ->
    find_best_match sn_key key sn (c_min_score cfg) true = Some (SnProp key' prop value kws deps) ->
    get_unmatched_part key key' 0 = [] ->
    expand_with cfg sn (render_abbr key vals bang) =
    Ok (push_string cfg (prop ++ c_between cfg) ++
        join [c_space] (map (fun v => value_text_k cfg prop (val_kind v)) vals) ++
        (if bang then lit " !important" else []) ++ c_after cfg).
Proof. exact value_seq_expand. Qed.
Print Assumptions C05_value_seq_expand_single.

Theorem C05_parser_value_seq :
  forall (lit0 b : ctoken) key ts vs bang,
    ck lit0 = CLiteral key ->                 (* the property name *)
    body_of ts vs ->                          (* numbers / colours [vs] with any `-` / `:` delimiters in between *)
    vs <> [] -> k_is_important (ck b) = true ->
    parser false (lit0 :: ts ++ bang_tail bang b) = Ok [mkProp (Some key) [map tokv vs] bang false].
Proof. exact parser_value_seq. Qed.
Print Assumptions C05_parser_value_seq.

(* [value_text cfg prop t]: a number prints frac(value, 4) ++ unit_spec ...; a colour prints color(r, g, b, a, shortHex) *)
Theorem C05_value_seq_expand_from_tokens :
  forall cfg sn abbr (lit0 b : ctoken) key key' prop value kws deps ts vs bang,
    ctokenize false abbr = CTOk (lit0 :: ts ++ bang_tail bang b) ->
    ck lit0 = CLiteral key -> body_of ts vs -> k_is_important (ck b) = true ->
    c_context cfg = None -> c_json cfg = false ->
    str_eqb key gradient_name = false ->
    find_best_match sn_key key sn (c_min_score cfg) true = Some (SnProp key' prop value kws deps) ->
    get_unmatched_part key key' 0 = [] ->     (* e.g. key' = key: C05_unmatched_part_same; C06_keys_reach_self gives the match *)
    vs <> [] ->
    expand_with cfg sn abbr =
    Ok (push_string cfg (prop ++ c_between cfg) ++
        join [c_space] (map (value_text cfg prop) vs) ++
        (if bang then lit " !important" else []) ++ c_after cfg).
Proof. exact value_seq_expand_from_tokens. Qed.
Print Assumptions C05_value_seq_expand_from_tokens.

Theorem C05_unmatched_part_same : forall k, get_unmatched_part k k 0 = [].
Proof. exact get_unmatched_part_same. Qed.
Print Assumptions C05_unmatched_part_same.

(* non-vacuity: c#e7bc0b (the repaired defect), a short colour, an rgba colour, units *)
Example C05_nonvacuous :
  css_hex_decode (as_hex 231 188 11 true) = Some (231, 188, 11) /\
  as_hex 231 188 11 true = lit "#e7bc0b" /\
  as_hex 255 204 0 true = lit "#fc0" /\ as_hex 255 204 0 false = lit "#ffcc00" /\
  color 255 255 255 (mkDec false 5 1) true = lit "rgba(255, 255, 255, 0.5)" /\
  parse_color (lit "fc0") (lit ".5") = Some (255, 204, 0, mkDec false 5 1).
Proof. vm_compute. repeat split; reflexivity. Qed.

(* the string-level theorem is not vacuous: "m10-#fc0-5e!" is render_abbr of a well-formed value list *)
Example C05_value_seq_render_nonvacuous :
  let vals := [VNum (mkNum false (lit "10") None []); VCol (mkCol (lit "fc0") None);
               VNum (mkNum true (lit "5") None (lit "e"))] in
  render_abbr (lit "m") vals true = lit "m10-#fc0--5e!" /\ key_ok (lit "m") /\ Forall val_ok vals.
Proof.
  cbv zeta. split; [reflexivity|]. split.
  - split; [discriminate|]. repeat constructor.
  - constructor; [|constructor; [|constructor; [|constructor]]].
    + cbn. split; [repeat constructor|]. split; [exact I|]. split; [left; discriminate|left; reflexivity].
    + cbn. split; [discriminate|]. split; [repeat constructor|exact I].
    + cbn. split; [repeat constructor|]. split; [exact I|]. split; [left; discriminate|].
      right; right. split; [discriminate|repeat constructor].
Qed.

(* the hypotheses of the end-to-end theorem are satisfiable: "m10-#fc0-5e!" has the token shape it asks for *)
Example C05_value_seq_nonvacuous :
  exists lit0 b ts vs,
    ctokenize false (lit "m10-#fc0-5e!") = CTOk (lit0 :: ts ++ bang_tail true b) /\
    ck lit0 = CLiteral (lit "m") /\ body_of ts vs /\ k_is_important (ck b) = true /\ length vs = 3%nat.
Proof.
  eexists (mkCTok _ _ _), (mkCTok _ _ _), [_; _; _; _; _], _. split; [vm_compute; reflexivity|].
  split; [reflexivity|]. split.
  - apply body_val; [reflexivity|]. apply body_delim; [reflexivity|]. apply body_val; [reflexivity|].
    apply body_delim; [reflexivity|]. apply body_val; [reflexivity|]. apply body_nil.
  - split; reflexivity.
Qed.

(* the full theorem is not vacuous: "p10+m:5e-#fc0!" is render_props of well-formed properties, and the sweep
   covers >= 200 property keys *)
Example C05_value_seq_multi_nonvacuous :
  let props := [mkPropv (lit "p") false [VNum (mkNum false (lit "10") None [])] false;
                mkPropv (lit "m") true [VNum (mkNum false (lit "5") None (lit "e")); VCol (mkCol (lit "fc0") None)] true] in
  render_props props = lit "p10+m:5e#fc0!" /\ Forall propv_ok props /\ (200 <= property_key_count)%nat.
Proof.
  cbv zeta. split; [reflexivity|]. split; [|exact property_key_count_ge].
  constructor; [|constructor; [|constructor]].
  - split; [split; [discriminate|repeat constructor]|]. split; [|discriminate].
    constructor; [|constructor]. cbn. split; [repeat constructor|]. split; [exact I|]. split; [left; discriminate|left; reflexivity].
  - split; [split; [discriminate|repeat constructor]|]. split; [|discriminate].
    constructor; [|constructor; [|constructor]].
    + cbn. split; [repeat constructor|]. split; [exact I|]. split; [left; discriminate|].
      right; right. split; [discriminate|repeat constructor].
    + cbn. split; [discriminate|]. split; [repeat constructor|exact I].
Qed.
