(* C01 -- end-to-end composition, at STRING level, about the whole `expand` model
   (property theorems only; each closed by [exact] of a lemma proved in proofs/).

   Full statement (kept visible): for every abbreviation of the documented grammar, under every
   self-closing style and with formatting on or off, the element tree of expand's output is the
   tree the operators denote, every element once per repetition, in document order.

   C01_expand_tree_flat: ONE theorem through tokenizer, parser, converter, snippet resolution,
   transform and the HTML formatter: for every text of letter names separated by `>`, `+` and runs
   of `^` and every configuration of the clean domain below, `expand_markup x (render xs)` succeeds
   and the tag chunks pushed into the output stream, read as open/close events ([nestT]), nest to
   exactly [sdenote 0 xs]: every written element exactly once, in document order, with its own
   name (in the configured tag case), at the depth the operators denote.  It holds for formatting
   on AND off, every self-closing style, every inline/skip/force list, any indent / newline string
   not starting with '<' (none of these is constrained by [cfg_ok]).

   Domain [flat_ok x xs] (decidable):
     configuration: formatter syntax is not haml/slim/pug (the HTML formatter runs), no wrapped
       text (`text` is None), comments off, indent and newline+baseIndent strings do not
       start with '<', attribute-name / value-prefix tables free of '<'
       (snippet table, variables, maxRepeat, JSX on or off, context, case, quotes ... arbitrary);
     names: letters only, not the key of a non-empty snippet definition, not matching the `lorem`
       pattern.  No side condition about `label`/`input`/`textarea` is needed: the label addon only
       removes attributes, and these elements have none. *)
From Coq Require Import String.
From Emmet Require Import lib.Base lib.StrLit model.MarkupTokenizer model.MarkupParser model.MarkupConvert
     model.MarkupResolve model.OutStream model.FormatHtml model.FormatIndent model.MarkupExpand
     gen.GenMarkupSnippets
     proofs.ParserSpine proofs.TokenizeRender proofs.ConvertProofs proofs.HtmlEvents
     proofs.ExpandTree proofs.ExpandFlat proofs.ExpandRepeat proofs.ExpandGroupsTok proofs.ExpandGroups.

Theorem C01_expand_tree_flat :
  forall (x : xconfig) (xs : list (str * sop)),
    flat_ok x xs = true ->
    exists st,
      expand_markup x (render xs) = Ok st /\
      nestT 0 (tags st) = map (fun p => (fst p, tag_name (xc_o x) (snd p))) (sdenote 0 xs).
Proof. exact expand_tree_flat. Qed.
Print Assumptions C01_expand_tree_flat.

(* the same with `*N` repeaters on elements.  Syntax: every name may be followed by `*` and a
   non-empty run of digits ([render2]).  Spec [unrollS xs] = [unrollD] of the depth-counter list
   [sdenote2 0 xs] of (depth, name, copies): an element with k copies stands for k consecutive
   copies of itself, each followed by everything written deeper right after it (its descendants,
   unrolled the same way); `*0` is read as one copy.  Domain [rep_ok]: as [flat_ok], every count a
   digit run, and the number of elements of the unrolled tree within the repeat budget (maxRepeat,
   1000000 when not set; beyond it the output is cut: C02). *)
Theorem C01_expand_tree_repeat :
  forall (x : xconfig) (xs : list (ritem * sop)),
    rep_ok x xs = true ->
    exists st,
      expand_markup x (render2 xs) = Ok st /\
      nestT 0 (tags st) = map (fun p => (fst p, tag_name (xc_o x) (snd p))) (unrollS xs).
Proof. exact expand_tree_rep. Qed.
Print Assumptions C01_expand_tree_repeat.

(* the same with parenthesised groups, nested to any depth, and `*N` on elements and groups.
   Syntax [sstmt]: a unit is a name (a letter, then letters, ASCII digits, `-`, `_`, `:`) or
   `( statement )`, each optionally followed by `*` and a digit run; units are separated by `>`, `+` and runs of `^` ([render3]).
   Spec [unrollS3 xs] = [unrollM (smarks 0 0 xs)].  [smarks] is the depth-counter mark list of the
   text: an element with its depth and number of copies; a bracket pair around a group's contents
   (written at the group's own depth, `^` stops at the top of the group), the group's number of
   copies on the closing one; a group is one unit for what follows it.  [unrollM]: an element
   stands for k consecutive copies of itself followed by everything written deeper right after
   it; a bracket pair stands for k consecutive copies of its contents.
   Domain [grp_ok]: as [flat_ok] with the wider names; digit runs; `>` never directly after a group (documented
   grammar); element copies + group copies of the unrolled statement within the repeat budget. *)
Theorem C01_expand_tree_groups :
  forall (x : xconfig) (xs : sstmt),
    grp_ok x xs = true ->
    exists st,
      expand_markup x (render3 xs) = Ok st /\
      nestT 0 (tags st) = map (fun p => (fst p, tag_name (xc_o x) (snd p))) (unrollS3 xs).
Proof. exact expand_tree_groups. Qed.
Print Assumptions C01_expand_tree_groups.

(* the tree level they rest on, independent of how names are tokenized: whenever the text
   tokenizes and parses to a tree whose elements are bare literal names satisfying [name_sem]
   (not empty, no '<', CR, LF, not starting with '/' or '!', not a snippet key, not `lorem...`),
   with written repeaters only, and whose copy count fits the budget, expand succeeds and the tag
   chunks nest to the unrolled preorder list [nshape]: each unit contributes, once per copy and in
   order, its element at its depth followed by its children one level deeper; a group contributes
   its contents at its own depth *)
Theorem C01_expand_tree :
  forall (P : str -> bool) (x : xconfig) (s : str) (toks : list token) (root : list tnode),
    (forall n, P n = true -> name_sem x n = true) ->
    cfg_ok x = true ->
    tokenize s = TOk toks -> parse (mc_jsx (xc_m x)) toks = POk root ->
    forallb (named P) root = true ->
    (total_list root <= budget_of (mc_max_repeat (xc_m x)))%Z ->
    exists st,
      expand_markup x s = Ok st /\
      nestT 0 (tags st) = map (fun p => (fst p, tag_name (xc_o x) (snd p))) (flat_map (nshape 0) root).
Proof. exact expand_tree_P. Qed.
Print Assumptions C01_expand_tree.

(* non-vacuity: the default html configuration (built-in snippet table regenerated from the
   source, tab indent, "\n" newline, formatting on) with the names x, foo, zz is in the domain;
   the text is "x>foo+zz^x"; the model's output is the expected document and its tag chunks nest
   to the denotation.  The same with formatting off and xhtml self-closing style. *)
Definition ex_m : mconfig := mkMConfig (S "html") markup_snippets [] WNone None None false None [] false false false [] [] None.
Definition ex_o (format : bool) (style : string) : oconfig :=
  mkOconfig (mkOfmt [c_tab] [] [c_nl]) [] [] [] format false [] [] 3 false [] (S style) [] false [] [] [] false None None.
Definition ex_xs : list (str * sop) := [(S "x", SChild); (S "foo", SSibling); (S "zz", SClimb 0); (S "x", SSibling)].

Example C01_expand_nonvacuous :
  flat_ok (mkX ex_m (ex_o true "html")) ex_xs = true /\
  flat_ok (mkX ex_m (ex_o false "xhtml")) ex_xs = true /\
  render ex_xs = S "x>foo+zz^x" /\
  sdenote 0 ex_xs = [(0, S "x"); (1, S "foo"); (1, S "zz"); (0, S "x")] /\
  expand_markup_str (mkX ex_m (ex_o true "html")) (render ex_xs)
    = Ok (S "<x>" ++ [c_nl; c_tab] ++ S "<foo></foo>" ++ [c_nl; c_tab] ++ S "<zz></zz>" ++ [c_nl] ++ S "</x>" ++ [c_nl] ++ S "<x></x>") /\
  match expand_markup (mkX ex_m (ex_o true "html")) (render ex_xs) with
  | Ok st => nestT 0 (tags st) = sdenote 0 ex_xs
  | _ => False
  end.
Proof. vm_compute. repeat split; reflexivity. Qed.

(* a name that IS a snippet key (`a` -> a[href]) or matches lorem is outside the domain *)
Example C01_expand_domain_excludes :
  flat_ok (mkX ex_m (ex_o true "html")) [(S "a", SSibling)] = false /\
  flat_ok (mkX ex_m (ex_o true "html")) [(S "lorem", SSibling)] = false /\
  flat_ok (mkX ex_m (ex_o true "html")) [(S "label", SChild); (S "input", SSibling)] = false /\
  flat_ok (mkX ex_m (ex_o true "html")) [(S "labelx", SChild); (S "section", SSibling)] = true.
Proof. vm_compute. repeat split; reflexivity. Qed.

(* non-vacuity of the repeater theorem: "x>foo*3>zz^bar*2" *)
Definition ex_rs : list (ritem * sop) :=
  [((S "x", None), SChild); ((S "foo", Some (S "3")), SChild); ((S "zz", None), SClimb 0); ((S "bar", Some (S "2")), SSibling)].
Example C01_expand_repeat_nonvacuous :
  rep_ok (mkX ex_m (ex_o true "html")) ex_rs = true /\
  rep_ok (mkX ex_m (ex_o false "xml")) ex_rs = true /\
  render2 ex_rs = S "x>foo*3>zz^bar*2" /\
  unrollS ex_rs = [(0, S "x"); (1, S "foo"); (2, S "zz"); (1, S "foo"); (2, S "zz"); (1, S "foo"); (2, S "zz");
                   (1, S "bar"); (1, S "bar")] /\
  match expand_markup (mkX ex_m (ex_o false "xml")) (render2 ex_rs) with
  | Ok st => nestT 0 (tags st) = unrollS ex_rs /\
             os_value (fs_out st) = S "<x><foo><zz></zz></foo><foo><zz></zz></foo><foo><zz></zz></foo><bar></bar><bar></bar></x>"
  | _ => False
  end.
Proof. vm_compute. repeat split; reflexivity. Qed.

(* non-vacuity of the group theorem: "x>(foo>zz*2+bar^^^qux)*2+baz" -- the `^^^` stops at the top of the group *)
Definition ex_gs : sstmt :=
  [(UE (S "x") None, SChild);
   (UG [(UE (S "foo") None, SChild); (UE (S "zz") (Some (S "2")), SSibling); (UE (S "bar") None, SClimb 2);
        (UE (S "qux") None, SSibling)] (Some (S "2")), SSibling);
   (UE (S "baz") None, SSibling)].
Example C01_expand_groups_nonvacuous :
  grp_ok (mkX ex_m (ex_o true "html")) ex_gs = true /\
  grp_ok (mkX ex_m (ex_o false "xhtml")) ex_gs = true /\
  render3 ex_gs = S "x>(foo>zz*2+bar^^^qux)*2+baz" /\
  smarks 0 0 ex_gs = [SE 0 (S "x") 1; SO 1; SE 1 (S "foo") 1; SE 2 (S "zz") 2; SE 2 (S "bar") 1; SE 1 (S "qux") 1; SC 1 2;
                      SE 1 (S "baz") 1] /\
  unrollS3 ex_gs = [(0, S "x");
                    (1, S "foo"); (2, S "zz"); (2, S "zz"); (2, S "bar"); (1, S "qux");
                    (1, S "foo"); (2, S "zz"); (2, S "zz"); (2, S "bar"); (1, S "qux");
                    (1, S "baz")] /\
  match expand_markup (mkX ex_m (ex_o false "xhtml")) (render3 ex_gs) with
  | Ok st => nestT 0 (tags st) = unrollS3 ex_gs /\
             os_value (fs_out st) =
               S "<x><foo><zz></zz><zz></zz><bar></bar></foo><qux></qux><foo><zz></zz><zz></zz><bar></bar></foo><qux></qux><baz></baz></x>"
  | _ => False
  end /\
  (* `>` directly after a group is outside the domain *)
  grp_ok (mkX ex_m (ex_o true "html")) [(UG [(UE (S "x") None, SSibling)] None, SChild); (UE (S "zz") None, SSibling)] = false.
Proof. vm_compute. repeat split; reflexivity. Qed.

(* non-vacuity with the JSX option on and capitalised names: "Foo>Bar+zz" *)
Definition ex_mj : mconfig := mkMConfig (S "jsx") markup_snippets [] WNone None None true None [] false false false [] [] None.
Example C01_expand_jsx_nonvacuous :
  let xs := [(S "Foo", SChild); (S "Bar", SSibling); (S "zz", SSibling)] in
  flat_ok (mkX ex_mj (ex_o true "xhtml")) xs = true /\
  match expand_markup (mkX ex_mj (ex_o true "xhtml")) (render xs) with
  | Ok st => nestT 0 (tags st) = [(0, S "Foo"); (1, S "Bar"); (1, S "zz")]
  | _ => False
  end.
Proof. vm_compute. repeat split; reflexivity. Qed.

(* non-vacuity with names containing digits, `-` and `:`: "ul>(li>h1+x-y)*2+ns:el*2" *)
Example C01_expand_groups_wide_names :
  let xs := [(UE (S "ul") None, SChild);
             (UG [(UE (S "li") None, SChild); (UE (S "h1") None, SSibling); (UE (S "x-y") None, SSibling)] (Some (S "2")), SSibling);
             (UE (S "ns:el") (Some (S "2")), SSibling)] in
  grp_ok (mkX ex_m (ex_o true "html")) xs = true /\
  render3 xs = S "ul>(li>h1+x-y)*2+ns:el*2" /\
  match expand_markup (mkX ex_m (ex_o true "html")) (render3 xs) with
  | Ok st => nestT 0 (tags st) = [(0, S "ul"); (1, S "li"); (2, S "h1"); (2, S "x-y"); (1, S "li"); (2, S "h1"); (2, S "x-y");
                                  (1, S "ns:el"); (1, S "ns:el")]
  | _ => False
  end.
Proof. vm_compute. repeat split; reflexivity. Qed.
