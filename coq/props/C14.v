(* C14 -- A snippet alias expands exactly like its definition, and resolution ends.
   Property theorems only; each closed by [exact] of a lemma proved in proofs/.

   Full statement (kept visible): expanding a markup snippet name gives the same result as expanding
   the snippet's definition in its place; attributes, text, repeaters and the self-closing mark written
   on the alias are applied to the top-level elements of the definition and children go into its deepest
   element.  Resolution terminates for every snippet table, including self-referencing and mutually
   recursive user snippets, with nesting no deeper than the number of snippets.

   State.  Termination / depth: for ALL tables (first block).  alias = definition:
   * for ALL tables and every key whose definition does not reach itself (self_free, exact and decidable):
     C14_alias_eq_definition (markup_parse and expand of the key alone = of the definition text), and the
     decorated alias as theorems about walk_resolve against the definition RESOLVED IN PLACE
     (C14_alias_decorated / _attributes / _repeat / _text / _self_closing / _children), plus the strings `k>c`,
     `k+c`, `k.c`, `k#c` on the alias side;
   * the two-snippet cycle of C14_cyclic_cut_refuted shows why the hypothesis is there;
   * complete sweep of the built-in tables (which contain self-references such as a = a[href]) at string level.
   * the decoration moved onto the parsed definition D (C14_alias_attributes_pre / _repeat_pre / _text_pre /
     _self_closing_pre, and _children_pre under the side condition that no node on D's last-child chain resolves
     to nothing -- C14_dead_chain_differs shows it is needed).
   * `k>c` = `d>c` as strings (C14_alias_child_eq_definition_child) under the reading hypothesis that the text `d>c`
     parses to D with c hung below find_deepest; C14_child_reads_below_flat proves that hypothesis (parser +
     converter) for definitions without groups that end with an element which is not a text node, without
     repeater on the last-child chain, GIVEN that the tokenizer reads `d>c` as the tokens of d, `>`, c.
   NOT proved for all tables: that tokenizer fact (appending `>c` does not change the tokens of d); definitions
   with groups; and the textual forms of the other decorations (d with the attributes / `*N` written on its
   top-level elements parses to D with the decoration).  These textual forms are covered by the sweep
   (built-in tables) and by the random user tables of the harness. *)
From Emmet Require Import lib.Base model.MarkupTokenizer model.MarkupParser model.MarkupConvert
     model.MarkupResolve model.MarkupExpand proofs.ParserSpine proofs.SnippetProofs proofs.SnippetSweep
     proofs.SnippetAcyclic proofs.SnippetAliasParse proofs.SnippetAliasForms proofs.SnippetDecorate proofs.SnippetChildString proofs.SnippetChildParse.

(* termination, for ALL snippet tables and ALL trees: with the fuel markup_parse supplies
   (number of snippets + 1) the resolver never reports OutOfFuel *)
Theorem C14_resolve_terminates :
  forall (cfg : mconfig) (l : list anode),
    walk_resolve (S (length (mc_snippets cfg))) cfg [] l <> OutOfFuel.
Proof. exact resolve_terminates. Qed.
Print Assumptions C14_resolve_terminates.

(* ... at any point of the recursion: a duplicate-free stack of snippet texts and fuel for the
   snippets not yet on it (pigeonhole) *)
Theorem C14_resolve_terminates_stack :
  forall (cfg : mconfig) (fuel : nat) (stack : list str) (l : list anode),
    NoDup stack -> incl stack (snippet_values cfg) ->
    length (snippet_values cfg) < fuel + length stack ->
    walk_resolve fuel cfg stack l <> OutOfFuel.
Proof. exact walk_resolve_no_oof. Qed.
Print Assumptions C14_resolve_terminates_stack.

(* markup_parse runs out of fuel only inside the lorem pass, when the oracle stream of random draws of the
   configuration ran out (model/MarkupLorem.v); snippet resolution never does *)
Theorem C14_markup_parse_terminates :
  forall (cfg : mconfig) (abbr : str),
    markup_parse cfg abbr = OutOfFuel ->
    exists resolved, lorem_fill_list resolved (mc_draws cfg) = MarkupLorem.LExhausted.
Proof. exact markup_parse_terminates. Qed.
Print Assumptions C14_markup_parse_terminates.

(* nesting depth: the fuel is decremented exactly when a definition is entered, so a run that succeeds
   with fuel n+1 nests at most n deep.  For every table the fuel |snippets|+1 succeeds (above) and any
   larger fuel gives the same result: the nesting is never deeper than the number of snippets *)
Theorem C14_resolve_depth :
  forall (cfg : mconfig) (l : list anode) (fuel : nat),
    S (length (mc_snippets cfg)) <= fuel ->
    walk_resolve fuel cfg [] l = walk_resolve (S (length (mc_snippets cfg))) cfg [] l.
Proof. exact resolve_depth. Qed.
Print Assumptions C14_resolve_depth.

(* alias_merge, for ALL tables and ALL decorations of the alias: an alias node is replaced by its
   definition's forest (resolved with the definition on the guard stack); every top-level node of it is
   merged with the alias by [merge_into] (alias attributes appended, prepended under reverseAttributes;
   value, repeater and self-closing mark of the alias override); the alias' resolved children go under
   the deepest last node ([attach_deepest]) *)
Theorem C14_alias_merge :
  forall f cfg stack nm v rp at_ ch sc s,
    snippet_of cfg stack nm = Some s ->
    walk_resolve (S f) cfg stack [ANode nm v rp at_ ch sc] =
    let* parsed := parse_abbr false (snippet_env cfg) (mc_max_repeat_snip cfg) s in
    let* resolved := walk_resolve f cfg (s :: stack) parsed in
    let tops := map (merge_into (mc_reverse_attrs cfg) (ANode nm v rp at_ ch sc)) resolved in
    match tops with
    | [] => Ok []
    | _ :: _ => let* kids := walk_resolve (S f) cfg stack ch in Ok (attach_deepest tops kids)
    end.
Proof. exact alias_merge. Qed.
Print Assumptions C14_alias_merge.

(* a bare alias resolves to exactly what its definition resolves to in its place *)
Theorem C14_alias_bare_eq_definition :
  forall f cfg stack nm s,
    snippet_of cfg stack nm = Some s ->
    walk_resolve (S f) cfg stack [ANode nm None None None [] false] =
    let* parsed := parse_abbr false (snippet_env cfg) (mc_max_repeat_snip cfg) s in
    walk_resolve f cfg (s :: stack) parsed.
Proof. exact alias_bare_eq_definition. Qed.
Print Assumptions C14_alias_bare_eq_definition.

(* a name without definition, or whose definition is being resolved (cycle), is kept as an element *)
Theorem C14_non_alias_kept :
  forall f cfg stack nm v rp at_ ch sc,
    snippet_of cfg stack nm = None ->
    walk_resolve (S f) cfg stack [ANode nm v rp at_ ch sc] =
    let* kids := walk_resolve (S f) cfg stack ch in Ok [ANode nm v rp at_ kids sc].
Proof. exact non_alias_kept. Qed.
Print Assumptions C14_non_alias_kept.

(* alias = definition, COMPLETE sweep over the tables regenerated from the source: every key of the
   html, xsl and pug tables, alone, repeated inside a parent, with attributes added
   and with a child added (definition side written by harness/snippet_util.py), under the resolved
   default configuration of each syntax, and for html the attribute case also under reverseAttributes *)
Theorem C14_alias_eq_definition_builtin :
  forall (name : str) (a d : str),
    In (name, (a, d)) all_alias_pairs ->
    exists x, config_named name = Some x /\ expand_markup_str x a = expand_markup_str x d.
Proof. exact alias_eq_definition_builtin. Qed.
Print Assumptions C14_alias_eq_definition_builtin.

(* the sweep covers every key of every table *)
Theorem C14_sweep_complete :
  forall (name : str) (k d : str),
    In (name, (k, d)) all_table_entries -> In (name, (k, d)) all_alias_pairs.
Proof. exact sweep_complete. Qed.
Print Assumptions C14_sweep_complete.

(* ================================================================ alias = definition, for ALL tables
   that are acyclic in the sense that matters.

   [mentions cfg s]: the definitions the snippet text [s] refers to = every node, at any depth, of [s] as
   resolve() parses it whose name is a key of the table with a non-empty value; [reaches] = its transitive
   closure.  Decidable predicates (bool), each computed by the depth-first walk the resolver itself does,
   with its guard stack as the path and its bound |snippets| as fuel:
     self_free cfg d      the walk from the definition d, resolved in place, never asks the guard about d
                          = d does not reach itself                          (the hypothesis of the theorems)
     acyclic_from cfg d   the walk from d never meets a definition on its own path
                          = nothing reachable from d lies on a cycle         (stronger)
     acyclic_table cfg    acyclic_from for every value = no value reaches itself   (strongest)
   A cycle that does not pass through d (`a` = `a[href]` below a definition that mentions `a`) is cut at
   the same point on both sides and does no harm (C14_self_free_weaker). *)

(* the hypothesis of the theorems below, exactly: the definition does not reach itself through the names
   it mentions *)
Theorem C14_self_free_means :
  forall (cfg : mconfig) (d : str), self_free cfg d = true <-> ~ reaches cfg d d.
Proof. exact self_free_spec. Qed.
Print Assumptions C14_self_free_means.

Theorem C14_acyclic_from_self_free :
  forall (cfg : mconfig) (d : str), acyclic_from cfg d = true -> self_free cfg d = true.
Proof. exact self_free_of_acyclic_from. Qed.
Print Assumptions C14_acyclic_from_self_free.

(* a guard-stack entry the walk never asks about can be dropped, at any fuel: the lemma behind
   "the definition below its alias (stack [d]) resolves as the definition in place (stack [])" *)
Theorem C14_guard_entry_dropped :
  forall (cfg : mconfig) (d : str) (fuel f : nat) (st : list str) (l : list anode),
    forallb (nohit f cfg d st) (forest_defs cfg l) = true ->
    walk_resolve fuel cfg (st ++ [d]) l = walk_resolve fuel cfg st l.
Proof. exact walk_stack_drop. Qed.
Print Assumptions C14_guard_entry_dropped.

(* the decidable predicates say: no snippet value reaches itself through the names it mentions *)
Theorem C14_acyclic_table_means :
  forall cfg : mconfig,
    acyclic_table cfg = true <-> (forall s, In s (snippet_values cfg) -> ~ reaches cfg s s).
Proof. exact acyclic_table_spec. Qed.
Print Assumptions C14_acyclic_table_means.

Theorem C14_acyclic_from_means :
  forall (cfg : mconfig) (d : str), In d (snippet_values cfg) ->
    (acyclic_from cfg d = true <-> (forall t, t = d \/ reaches cfg d t -> ~ reaches cfg t t)).
Proof. exact acyclic_from_spec. Qed.
Print Assumptions C14_acyclic_from_means.

(* where the guard cannot fire (every definition the forest refers to is safe w.r.t. [path]) the result
   of the resolver does not depend on the guard stack, for any fuel *)
Theorem C14_guard_stack_irrelevant :
  forall (cfg : mconfig) (fuel f : nat) (path st1 st2 : list str) (l : list anode),
    incl st1 path -> incl st2 path ->
    forallb (safe f cfg path) (forest_defs cfg l) = true ->
    walk_resolve fuel cfg st1 l = walk_resolve fuel cfg st2 l.
Proof. exact walk_stack_indep. Qed.
Print Assumptions C14_guard_stack_irrelevant.

(* a key written over letters, ASCII digits, `-` `_` `:` `!` (all built-in keys are) is one bare node *)
Theorem C14_key_is_one_node :
  forall (jsx : bool) (env : cenv) (mr : option N) (k : str),
    key_text k = true -> ce_text env = WNone ->
    parse_abbr jsx env mr k = Ok [ANode (Some k) None None None [] false].
Proof. exact parse_abbr_key. Qed.
Print Assumptions C14_key_is_one_node.

(* THE statement: for EVERY snippet table, every key k whose definition d does not reach itself
   (self_free), every configuration without wrap text in which the definition text reads the same in the
   abbreviation as in the table (same_reading: resolve() parses definitions with jsx off and
   user_config['max_repeat']): the resolved and transformed tree of `k` is that of `d`.
   (resolve_def = parse the definition + resolve it at top level with the empty guard stack and the
   full fuel, i.e. the definition in the alias' place.) *)
Theorem C14_alias_eq_definition :
  forall (cfg : mconfig) (k d : str),
    key_text k = true ->
    def_of cfg (Some k) = Some d -> self_free cfg d = true ->
    mc_text cfg = WNone -> same_reading cfg d ->
    markup_parse cfg k = markup_parse cfg d.
Proof. exact alias_eq_definition. Qed.
Print Assumptions C14_alias_eq_definition.

(* ... hence the same output string, in every syntax / output profile *)
Theorem C14_alias_eq_definition_expand :
  forall (x : xconfig) (k d : str),
    key_text k = true ->
    def_of (xc_m x) (Some k) = Some d -> self_free (xc_m x) d = true ->
    mc_text (xc_m x) = WNone -> same_reading (xc_m x) d ->
    expand_markup_str x k = expand_markup_str x d.
Proof. exact alias_eq_definition_expand. Qed.
Print Assumptions C14_alias_eq_definition_expand.

(* the same with the semantic hypothesis *)
Theorem C14_alias_eq_definition_not_reaching :
  forall (cfg : mconfig) (k d : str),
    key_text k = true -> def_of cfg (Some k) = Some d -> ~ reaches cfg d d ->
    mc_text cfg = WNone -> same_reading cfg d ->
    markup_parse cfg k = markup_parse cfg d.
Proof. exact alias_eq_definition_not_reaching. Qed.
Print Assumptions C14_alias_eq_definition_not_reaching.

(* configuration-level form: every key of an acyclic table, jsx off, no wrap text, one max_repeat *)
Theorem C14_alias_eq_definition_table :
  forall (cfg : mconfig) (k d : str),
    acyclic_table cfg = true ->
    key_text k = true -> def_of cfg (Some k) = Some d ->
    mc_jsx cfg = false -> mc_text cfg = WNone -> mc_max_repeat cfg = mc_max_repeat_snip cfg ->
    markup_parse cfg k = markup_parse cfg d.
Proof. exact alias_eq_definition_table. Qed.
Print Assumptions C14_alias_eq_definition_table.

(* the decorated alias, as a theorem about walk_resolve at the top level of an abbreviation (guard stack
   empty, full fuel), for all tables in which d does not reach itself: the definition RESOLVED IN PLACE, each top-level
   node merged with the alias, the alias' resolved children under find_deepest; a definition that
   resolves to the empty forest drops the alias and its children (deepest is the Abbreviation itself) *)
Theorem C14_alias_decorated :
  forall (cfg : mconfig) (k d : str) v rp at_ ch sc,
    def_of cfg (Some k) = Some d -> self_free cfg d = true ->
    walk_resolve (full_fuel cfg) cfg [] [ANode (Some k) v rp at_ ch sc] =
    let* resolved := resolve_def cfg d in
    let tops := map (merge_into (mc_reverse_attrs cfg) (ANode (Some k) v rp at_ ch sc)) resolved in
    match tops with
    | [] => Ok []
    | _ :: _ => let* kids := walk_resolve (full_fuel cfg) cfg [] ch in Ok (attach_deepest tops kids)
    end.
Proof. exact alias_eq_definition_decorated. Qed.
Print Assumptions C14_alias_decorated.

(* `k[attrs]` / `k.c` / `k#i` = the definition with those attributes appended to the attribute list of each
   top-level node; under reverseAttributes they are put in FRONT of the definition's own *)
Theorem C14_alias_attributes :
  forall (cfg : mconfig) (k d : str) a at_,
    def_of cfg (Some k) = Some d -> self_free cfg d = true ->
    walk_resolve (full_fuel cfg) cfg [] [ANode (Some k) None None (Some (a :: at_)) [] false] =
    let* resolved := resolve_def cfg d in Ok (map (add_attrs (mc_reverse_attrs cfg) (a :: at_)) resolved).
Proof. exact alias_attributes. Qed.
Print Assumptions C14_alias_attributes.

(* `k*N`: each copy of the alias is replaced by the definition's top-level nodes carrying its repeater *)
Theorem C14_alias_repeat :
  forall (cfg : mconfig) (k d : str) r,
    def_of cfg (Some k) = Some d -> self_free cfg d = true ->
    walk_resolve (full_fuel cfg) cfg [] [ANode (Some k) None (Some r) None [] false] =
    let* resolved := resolve_def cfg d in Ok (map (set_repeat r) resolved).
Proof. exact alias_repeat. Qed.
Print Assumptions C14_alias_repeat.

(* `k{text}`: the text replaces the value of each top-level node; `k/`: each is self-closing *)
Theorem C14_alias_text :
  forall (cfg : mconfig) (k d : str) x,
    def_of cfg (Some k) = Some d -> self_free cfg d = true ->
    walk_resolve (full_fuel cfg) cfg [] [ANode (Some k) (Some x) None None [] false] =
    let* resolved := resolve_def cfg d in Ok (map (set_value x) resolved).
Proof. exact alias_text. Qed.
Print Assumptions C14_alias_text.

Theorem C14_alias_self_closing :
  forall (cfg : mconfig) (k d : str),
    def_of cfg (Some k) = Some d -> self_free cfg d = true ->
    walk_resolve (full_fuel cfg) cfg [] [ANode (Some k) None None None [] true] =
    let* resolved := resolve_def cfg d in Ok (map set_self resolved).
Proof. exact alias_self_closing. Qed.
Print Assumptions C14_alias_self_closing.

(* `k>children`: the definition's forest with the resolved children appended below the end of the
   last-child chain of its last top-level node (whatever that node is: element or text node) *)
Theorem C14_alias_children :
  forall (cfg : mconfig) (k d : str) ch,
    def_of cfg (Some k) = Some d -> self_free cfg d = true ->
    walk_resolve (full_fuel cfg) cfg [] [ANode (Some k) None None None ch false] =
    let* resolved := resolve_def cfg d in
    match resolved with
    | [] => Ok []
    | _ :: _ => let* kids := walk_resolve (full_fuel cfg) cfg [] ch in Ok (attach_deepest resolved kids)
    end.
Proof. exact alias_children. Qed.
Print Assumptions C14_alias_children.

(* ---------------------------------------------------------------- the decoration moved onto the definition:
   the decorated alias resolves like the PARSED DEFINITION (D = the forest resolve() reads the definition as)
   with the decoration put on it, resolved in the alias' place -- "the definition written in place, with the
   attributes on each of its top-level elements / the child under its deepest element", as trees *)
Theorem C14_alias_attributes_pre :
  forall (cfg : mconfig) (k d : str) (D : list anode) a X,
    def_of cfg (Some k) = Some d -> self_free cfg d = true -> parse_def cfg d = Ok D ->
    walk_resolve (full_fuel cfg) cfg [] [ANode (Some k) None None (Some (a :: X)) [] false] =
    walk_resolve (full_fuel cfg) cfg [] (map (add_attrs (mc_reverse_attrs cfg) (a :: X)) D).
Proof. exact alias_attributes_pre. Qed.
Print Assumptions C14_alias_attributes_pre.

Theorem C14_alias_repeat_pre :
  forall (cfg : mconfig) (k d : str) (D : list anode) r,
    def_of cfg (Some k) = Some d -> self_free cfg d = true -> parse_def cfg d = Ok D ->
    walk_resolve (full_fuel cfg) cfg [] [ANode (Some k) None (Some r) None [] false] =
    walk_resolve (full_fuel cfg) cfg [] (map (set_repeat r) D).
Proof. exact alias_repeat_pre. Qed.
Print Assumptions C14_alias_repeat_pre.

Theorem C14_alias_text_pre :
  forall (cfg : mconfig) (k d : str) (D : list anode) x,
    def_of cfg (Some k) = Some d -> self_free cfg d = true -> parse_def cfg d = Ok D ->
    walk_resolve (full_fuel cfg) cfg [] [ANode (Some k) (Some x) None None [] false] =
    walk_resolve (full_fuel cfg) cfg [] (map (set_value x) D).
Proof. exact alias_text_pre. Qed.
Print Assumptions C14_alias_text_pre.

Theorem C14_alias_self_closing_pre :
  forall (cfg : mconfig) (k d : str) (D : list anode),
    def_of cfg (Some k) = Some d -> self_free cfg d = true -> parse_def cfg d = Ok D ->
    walk_resolve (full_fuel cfg) cfg [] [ANode (Some k) None None None [] true] =
    walk_resolve (full_fuel cfg) cfg [] (map set_self D).
Proof. exact alias_self_closing_pre. Qed.
Print Assumptions C14_alias_self_closing_pre.

(* children: with the side condition of the code -- every node on the last-child chain of the definition
   resolves to a non-empty forest ([live]; in particular when no node of the chain is an alias,
   [plain_chain]) -- and when the definition and the children resolve *)
Theorem C14_alias_children_pre :
  forall (cfg : mconfig) (k d : str) (D ch R K : list anode),
    def_of cfg (Some k) = Some d -> self_free cfg d = true -> parse_def cfg d = Ok D ->
    live cfg (length (mc_snippets cfg)) [] D ->
    walk_resolve (full_fuel cfg) cfg [] D = Ok R -> walk_resolve (full_fuel cfg) cfg [] ch = Ok K ->
    walk_resolve (full_fuel cfg) cfg [] [ANode (Some k) None None None ch false] =
    walk_resolve (full_fuel cfg) cfg [] (attach_deepest D ch).
Proof. exact alias_children_pre. Qed.
Print Assumptions C14_alias_children_pre.

Theorem C14_alias_children_pre_plain :
  forall (cfg : mconfig) (k d : str) (D ch R K : list anode),
    def_of cfg (Some k) = Some d -> self_free cfg d = true -> parse_def cfg d = Ok D ->
    plain_chain cfg [] D ->
    walk_resolve (full_fuel cfg) cfg [] D = Ok R -> walk_resolve (full_fuel cfg) cfg [] ch = Ok K ->
    walk_resolve (full_fuel cfg) cfg [] [ANode (Some k) None None None ch false] =
    walk_resolve (full_fuel cfg) cfg [] (attach_deepest D ch).
Proof. exact alias_children_pre_plain. Qed.
Print Assumptions C14_alias_children_pre_plain.

(* resolution commutes with hanging a forest below find_deepest, for ANY forest with a live chain, any
   stack and fuel (the lemma behind it) *)
Theorem C14_attach_resolve :
  forall (cfg : mconfig) (f : nat) (st : list str) (D : list anode), live cfg f st D ->
  forall R X K, walk_resolve (S f) cfg st D = Ok R -> walk_resolve (S f) cfg st X = Ok K ->
    walk_resolve (S f) cfg st (attach_deepest D X) = Ok (attach_deepest R K).
Proof. exact attach_resolve. Qed.
Print Assumptions C14_attach_resolve.

(* why the side condition: k = `p>e`, e = `()` (a definition that resolves to nothing): `k>b` puts b into p,
   the definition in place `p>e>b` loses it; the same on the implementation (corpus/C14/dead-chain-*.json) *)
Theorem C14_dead_chain_differs :
  self_free void_cfg [112;62;101]%N = true /\
  exists D t1 t2, parse_def void_cfg [112;62;101]%N = Ok D /\
    walk_resolve (full_fuel void_cfg) void_cfg [] [ANode (Some [107]%N) None None None [ANode (Some [98]%N) None None None [] false] false] = Ok t1 /\
    walk_resolve (full_fuel void_cfg) void_cfg [] (attach_deepest D [ANode (Some [98]%N) None None None [] false]) = Ok t2 /\
    t1 <> t2.
Proof. exact dead_chain_differs. Qed.
Print Assumptions C14_dead_chain_differs.

(* the decorated alias as a STRING, alias side (k, c key texts; the child / sibling c may itself be an
   alias): what markup_parse makes of `k>c`, `k+c`, `k.c`, `k#c` in terms of the definition resolved in
   place.  (With jsx on, `K.C` is a member name, hence jsx off for the class form.) *)
Theorem C14_alias_child_string :
  forall (cfg : mconfig) (k c d : str),
    key_text k = true -> key_text c = true ->
    def_of cfg (Some k) = Some d -> self_free cfg d = true -> mc_text cfg = WNone ->
    markup_parse cfg (k ++ c_gt :: c) =
    let* resolved := resolve_def cfg d in
    match resolved with
    | [] => Ok []
    | _ :: _ => let* kids := walk_resolve (full_fuel cfg) cfg [] [bare c] in
                transform_list cfg (attach_deepest resolved kids)
    end.
Proof. exact alias_child_string. Qed.
Print Assumptions C14_alias_child_string.

Theorem C14_alias_sibling_string :
  forall (cfg : mconfig) (k c d : str),
    key_text k = true -> key_text c = true ->
    def_of cfg (Some k) = Some d -> self_free cfg d = true -> mc_text cfg = WNone ->
    markup_parse cfg (k ++ c_plus :: c) =
    let* a := resolve_def cfg d in
    let* b := walk_resolve (full_fuel cfg) cfg [] [bare c] in
    transform_list cfg (a ++ b).
Proof. exact alias_sibling_string. Qed.
Print Assumptions C14_alias_sibling_string.

Theorem C14_alias_class_string :
  forall (cfg : mconfig) (k c d : str),
    key_text k = true -> key_text c = true -> mc_jsx cfg = false ->
    def_of cfg (Some k) = Some d -> self_free cfg d = true -> mc_text cfg = WNone ->
    markup_parse cfg (k ++ c_dot :: c) =
    let* resolved := resolve_def cfg d in
    transform_list cfg (map (add_attrs (mc_reverse_attrs cfg) [short_attr s_class c]) resolved).
Proof. exact alias_class_string. Qed.
Print Assumptions C14_alias_class_string.

Theorem C14_alias_id_string :
  forall (cfg : mconfig) (k c d : str),
    key_text k = true -> key_text c = true -> mc_jsx cfg = false ->
    def_of cfg (Some k) = Some d -> self_free cfg d = true -> mc_text cfg = WNone ->
    markup_parse cfg (k ++ c_hash :: c) =
    let* resolved := resolve_def cfg d in
    transform_list cfg (map (add_attrs (mc_reverse_attrs cfg) [short_attr s_id c]) resolved).
Proof. exact alias_id_string. Qed.
Print Assumptions C14_alias_id_string.

(* `k>c` = `d>c` as STRINGS, end to end (resolved and transformed trees, hence outputs), for all tables.
   [child_reads_below cfg d c D]: the definition reads as the forest D and the text `d>c` as D with c hung below
   find_deepest -- a statement about tokenizer + parser + converter alone, true when d ends with an element that is
   not a text node, with no repeater on its last-child chain and no group at the end; decidable by evaluation
   for a concrete d (C14_child_string_nonvacuous); C14_child_reads_below_flat derives it from the token structure
   of d, the tokenizer part excepted. *)
Theorem C14_alias_child_eq_definition_child :
  forall (cfg : mconfig) (k c d : str) (D R K : list anode),
    key_text k = true -> key_text c = true ->
    def_of cfg (Some k) = Some d -> self_free cfg d = true ->
    mc_jsx cfg = false -> mc_text cfg = WNone -> mc_max_repeat cfg = mc_max_repeat_snip cfg ->
    child_reads_below cfg d c D ->
    live cfg (length (mc_snippets cfg)) [] D ->
    walk_resolve (full_fuel cfg) cfg [] D = Ok R -> walk_resolve (full_fuel cfg) cfg [] [bare c] = Ok K ->
    markup_parse cfg (k ++ c_gt :: c) = markup_parse cfg (d ++ c_gt :: c).
Proof. exact alias_child_eq_definition_child. Qed.
Print Assumptions C14_alias_child_eq_definition_child.

Example C14_child_string_nonvacuous :
  exists D R K,
    child_reads_below chs_cfg [100;105;118;46;97;62;119;43;101;109;91;116;61;49;93]%N [98]%N D /\
    live chs_cfg (length (mc_snippets chs_cfg)) [] D /\
    walk_resolve (full_fuel chs_cfg) chs_cfg [] D = Ok R /\
    walk_resolve (full_fuel chs_cfg) chs_cfg [] [bare [98]%N] = Ok K /\
    self_free chs_cfg [100;105;118;46;97;62;119;43;101;109;91;116;61;49;93]%N = true.
Proof. exact alias_child_eq_definition_child_nonvacuous. Qed.

(* ... and it fails for a text-only ending: in `p>{hi}>b` the converter makes b a sibling of the text *)
Example C14_child_reads_below_fails_text :
  exists D X, parse_def chs_cfg [112;62;123;104;105;125]%N = Ok D /\
              parse_def chs_cfg [112;62;123;104;105;125;62;98]%N = Ok X /\ X <> attach_deepest D [bare [98]%N].
Proof. exact child_reads_below_fails_text. Qed.

(* the reading hypothesis [child_reads_below], parser + converter part: for every definition whose tokens are a
   statement without groups (element blocks separated by `>` `+` `^`, [flat1]) ending with an element block l:
   if appending `>c` leaves the tokens of d unchanged ([tok_ext], the tokenizer part, NOT proved here), no element
   of the open spine at the end of d (the ancestors of l) and not l itself carries a repeater, and l is not a text
   node ([elementish]: no text, or attributes, or a literal name), then `d>c` reads as D with c below find_deepest *)
Theorem C14_child_reads_below_flat :
  forall (cfg : mconfig) (d : str) (x : char) (xs : str) ys l toks gt ct (D : list anode),
    tok_ext d (x :: xs) toks gt ct ->
    flat1 false ys l toks ->
    (let '(cur, st) := fold_left ParserSpine.step ys (TGroup [] None, []) in spine_norep cur st) ->
    lf_repeat l = None -> elementish l ->
    mc_text cfg = WNone ->
    parse_def cfg d = Ok D ->
    child_reads_below cfg d (x :: xs) D.
Proof. exact child_reads_below_flat. Qed.
Print Assumptions C14_child_reads_below_flat.

(* an alias inside a larger abbreviation: siblings resolve independently (with C14_non_alias_kept for
   the ancestors this places the theorems above at any position below non-alias elements) *)
Theorem C14_resolve_siblings :
  forall f cfg st l1 l2,
    walk_resolve (S f) cfg st (l1 ++ l2) =
    let* a := walk_resolve (S f) cfg st l1 in
    let* b := walk_resolve (S f) cfg st l2 in Ok (a ++ b).
Proof. exact walk_resolve_app. Qed.
Print Assumptions C14_resolve_siblings.

(* the reason for the acyclicity hypothesis: a = `b.x`, b = `a.y`; `a` gives <a class="y x">, its
   definition `b.x` written in place gives <b class="x y x"> (the guard cuts one level later);
   the same on the implementation (corpus/C14/cyclic-cut.json).  Not a violation of the statement:
   resolution terminates on both sides. *)
Theorem C14_cyclic_cut_refuted :
  key_text [97]%N = true /\ def_of cyc_cfg (Some [97]%N) = Some [98;46;120]%N /\
  same_reading cyc_cfg [98;46;120]%N /\ mc_text cyc_cfg = WNone /\
  self_free cyc_cfg [98;46;120]%N = false /\
  (exists t1 t2, markup_parse cyc_cfg [97]%N = Ok t1 /\ markup_parse cyc_cfg [98;46;120]%N = Ok t2 /\ t1 <> t2).
Proof. exact cyclic_cut_refuted. Qed.
Print Assumptions C14_cyclic_cut_refuted.

(* the reason for `mc_text cfg = WNone`: with text = '' (or []) the converter writes the empty text on the
   alias node, and that value replaces the definition's text: x = `p{hi}` gives <p></p>, `p{hi}` gives <p>hi</p> *)
Theorem C14_empty_text_differs :
  self_free txt_cfg [112;123;104;105;125]%N = true /\
  (exists t1 t2, markup_parse txt_cfg [120]%N = Ok t1 /\ markup_parse txt_cfg [112;123;104;105;125]%N = Ok t2 /\ t1 <> t2).
Proof. exact empty_text_differs. Qed.
Print Assumptions C14_empty_text_differs.

(* a cycle elsewhere is harmless: f = `a.x>b`, a = `a[href]` (the shape of the built-in a, img, link ...):
   not acyclic from f's definition, but that definition does not reach itself, and alias = definition *)
Theorem C14_self_free_weaker :
  acyclic_from loop_cfg [97;46;120;62;98]%N = false /\ self_free loop_cfg [97;46;120;62;98]%N = true /\
  exists t, markup_parse loop_cfg [102]%N = Ok t /\ markup_parse loop_cfg [97;46;120;62;98]%N = Ok t /\ length t = 1.
Proof. exact self_free_weaker. Qed.
Print Assumptions C14_self_free_weaker.

(* non-vacuity of the acyclic theorem: nested aliases, a two-node definition, a key with `:` *)
Example C14_acyclic_nonvacuous :
  acyclic_table acy_cfg = true /\ key_text [117;58;120]%N = true /\
  def_of acy_cfg (Some [117;58;120]%N) = Some [118;46;99;43;112]%N /\
  exists t, markup_parse acy_cfg [117;58;120]%N = Ok t /\ length t = 2.
Proof. exact alias_eq_definition_nonvacuous. Qed.

(* non-vacuity: a mutually recursive table resolves (a -> b.x -> a.y stops at the guard) *)
Example C14_nonvacuous :
  let cfg := mkMConfig [104;116;109;108]%N [([97]%N, [98;46;120]%N); ([98]%N, [97;46;121]%N)] [] WNone None None false None [] false false
                       false [] [] None in
  exists t, markup_parse cfg [97]%N = Ok t /\ length t = 1.
Proof. eexists. split; [vm_compute; reflexivity|reflexivity]. Qed.
