(* C14 -- A snippet alias expands exactly like its definition, and resolution ends.
   Property theorems only; each closed by [exact] of a lemma proved in proofs/.

   Full statement (kept visible): expanding a markup snippet name gives the same result as expanding
   the snippet's definition in its place; attributes, text, repeaters and the self-closing mark written
   on the alias are applied to the top-level elements of the definition and children go into its deepest
   element.  Resolution terminates for every snippet table, including self-referencing and mutually
   recursive user snippets, with nesting no deeper than the number of snippets. *)
From Emmet Require Import lib.Base model.MarkupTokenizer model.MarkupParser model.MarkupConvert
     model.MarkupResolve model.MarkupExpand proofs.SnippetProofs proofs.SnippetSweep.

(* termination, for ALL snippet tables and ALL trees: with the fuel markup_parse supplies
   (number of snippets + 1) the resolver never reports OutOfFuel *)
Theorem C14_resolve_terminates :
  forall (cfg : mconfig) (l : list anode),
    walk_resolve (S (length (mc_snippets cfg))) cfg [] l <> OutOfFuel.
Proof. exact resolve_terminates. Qed.
Print Assumptions C14_resolve_terminates.

(* ... at any point of the recursion: a duplicate-free stack of snippet texts and fuel for the
   snippets not yet on it (pigeonhole) *)
Theorem C14_resolve_terminates_stack :
  forall (cfg : mconfig) (fuel : nat) (stack : list str) (l : list anode),
    NoDup stack -> incl stack (snippet_values cfg) ->
    length (snippet_values cfg) < fuel + length stack ->
    walk_resolve fuel cfg stack l <> OutOfFuel.
Proof. exact walk_resolve_no_oof. Qed.
Print Assumptions C14_resolve_terminates_stack.

Theorem C14_markup_parse_terminates :
  forall (cfg : mconfig) (abbr : str), markup_parse cfg abbr <> OutOfFuel.
Proof. exact markup_parse_terminates. Qed.
Print Assumptions C14_markup_parse_terminates.

(* nesting depth: the fuel is decremented exactly when a definition is entered, so a run that succeeds
   with fuel n+1 nests at most n deep.  For every table the fuel |snippets|+1 succeeds (above) and any
   larger fuel gives the same result: the nesting is never deeper than the number of snippets *)
Theorem C14_resolve_depth :
  forall (cfg : mconfig) (l : list anode) (fuel : nat),
    S (length (mc_snippets cfg)) <= fuel ->
    walk_resolve fuel cfg [] l = walk_resolve (S (length (mc_snippets cfg))) cfg [] l.
Proof. exact resolve_depth. Qed.
Print Assumptions C14_resolve_depth.

(* alias_merge, for ALL tables and ALL decorations of the alias: an alias node is replaced by its
   definition's forest (resolved with the definition on the guard stack); every top-level node of it is
   merged with the alias by [merge_into] (alias attributes appended, prepended under reverseAttributes;
   value, repeater and self-closing mark of the alias override); the alias' resolved children go under
   the deepest last node ([attach_deepest]) *)
Theorem C14_alias_merge :
  forall f cfg stack nm v rp at_ ch sc s,
    snippet_of cfg stack nm = Some s ->
    walk_resolve (S f) cfg stack [ANode nm v rp at_ ch sc] =
    let* parsed := parse_abbr false (snippet_env cfg) (mc_max_repeat_snip cfg) s in
    let* resolved := walk_resolve f cfg (s :: stack) parsed in
    let tops := map (merge_into (mc_reverse_attrs cfg) (ANode nm v rp at_ ch sc)) resolved in
    match tops with
    | [] => Ok []
    | _ :: _ => let* kids := walk_resolve (S f) cfg stack ch in Ok (attach_deepest tops kids)
    end.
Proof. exact alias_merge. Qed.
Print Assumptions C14_alias_merge.

(* a bare alias resolves to exactly what its definition resolves to in its place *)
Theorem C14_alias_bare_eq_definition :
  forall f cfg stack nm s,
    snippet_of cfg stack nm = Some s ->
    walk_resolve (S f) cfg stack [ANode nm None None None [] false] =
    let* parsed := parse_abbr false (snippet_env cfg) (mc_max_repeat_snip cfg) s in
    walk_resolve f cfg (s :: stack) parsed.
Proof. exact alias_bare_eq_definition. Qed.
Print Assumptions C14_alias_bare_eq_definition.

(* a name without definition, or whose definition is being resolved (cycle), is kept as an element *)
Theorem C14_non_alias_kept :
  forall f cfg stack nm v rp at_ ch sc,
    snippet_of cfg stack nm = None ->
    walk_resolve (S f) cfg stack [ANode nm v rp at_ ch sc] =
    let* kids := walk_resolve (S f) cfg stack ch in Ok [ANode nm v rp at_ kids sc].
Proof. exact non_alias_kept. Qed.
Print Assumptions C14_non_alias_kept.

(* alias = definition, COMPLETE sweep over the tables regenerated from the source: every key of the
   html, xsl and pug tables, alone, repeated inside a parent, with attributes added
   and with a child added (definition side written by harness/snippet_util.py), under the resolved
   default configuration of each syntax, and for html the attribute case also under reverseAttributes *)
Theorem C14_alias_eq_definition_builtin :
  forall (name : str) (a d : str),
    In (name, (a, d)) all_alias_pairs ->
    exists x, config_named name = Some x /\ expand_markup_str x a = expand_markup_str x d.
Proof. exact alias_eq_definition_builtin. Qed.
Print Assumptions C14_alias_eq_definition_builtin.

(* the sweep covers every key of every table *)
Theorem C14_sweep_complete :
  forall (name : str) (k d : str),
    In (name, (k, d)) all_table_entries -> In (name, (k, d)) all_alias_pairs.
Proof. exact sweep_complete. Qed.
Print Assumptions C14_sweep_complete.

(* non-vacuity: a mutually recursive table resolves (a -> b.x -> a.y stops at the guard) *)
Example C14_nonvacuous :
  let cfg := mkMConfig [104;116;109;108]%N [([97]%N, [98;46;120]%N); ([98]%N, [97;46;121]%N)] [] WNone None None false None [] false false
                       false [] [] None in
  exists t, markup_parse cfg [97]%N = Ok t /\ length t = 1.
Proof. eexists. split; [vm_compute; reflexivity|reflexivity]. Qed.
