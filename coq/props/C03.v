(* C03 -- Attributes are carried over, merged and quoted as written.
   Property theorems only; each closed by [exact] of a lemma proved in proofs/.

   Full statement (kept visible): for every element, `#id`, `.class` and `[name=value ...]` become
   attributes of exactly that element, in order of first mention; repeated class mentions are joined by
   single spaces in the order written, for any other repeated attribute the last value wins (the first
   under output.reverseAttributes) while keeping the first position; values appear verbatim between the
   configured quotes (braces for expressions), a name without value gets an empty value, boolean
   attributes expand to name="name" or the compact form, implied attributes without value are dropped,
   names are mapped through markup.attributes. *)
From Coq Require Import String.
From Emmet Require Import lib.Base lib.StrLit model.MarkupTokenizer model.MarkupParser model.MarkupConvert
     model.MarkupResolve model.OutStream model.FormatHtml proofs.AttrProofs proofs.AttrParseProofs.

(* merging: for ALL attribute lists the code's loop (dictionary lookup + in-place update) computes
   [merge_spec]: every name once at its first position; class values joined by one space in written
   order; otherwise value of the last (first under reverse) mention, expression if any mention is one
   else the type of the last, boolean/implied if any mention is.  See AttrProofs.merge_group. *)
Theorem C03_merge_refines_spec :
  forall (rev_attrs : bool) (attrs : list aattr),
    merge_attrs_loop rev_attrs attrs [] [] = merge_spec rev_attrs [] attrs.
Proof. exact merge_refines_spec. Qed.
Print Assumptions C03_merge_refines_spec.

Theorem C03_merge_attributes :
  forall (rev_attrs : bool) (attrs : option (list aattr)),
    merge_attributes rev_attrs attrs =
    match attrs with
    | Some ((_ :: _) as l) => Some (merge_spec rev_attrs [] l)
    | other => other
    end.
Proof. exact merge_attributes_spec. Qed.
Print Assumptions C03_merge_attributes.

(* readable consequences of the specification: every name occurs once, at the position of its first
   mention ... *)
Theorem C03_merge_first_position :
  forall (rev_attrs : bool) (attrs : list aattr),
    anames (merge_spec rev_attrs [] attrs) = first_names [] attrs /\ NoDup (anames (merge_spec rev_attrs [] attrs)).
Proof. exact merge_first_position. Qed.
Print Assumptions C03_merge_first_position.

(* ... and class mentions made of plain words are joined by single spaces in the order written *)
Theorem C03_class_joined_by_spaces :
  forall (ws : list str) (w0 : str),
    w0 <> [] ->
    join_class (Some [VStr w0]) (map word_attr ws) = Some [VStr (join [c_space] (w0 :: ws))].
Proof. exact join_class_words. Qed.
Print Assumptions C03_class_joined_by_spaces.

(* output: the decision table of push_attribute, for ALL names, values, flags and options:
   no name -> nothing; a value -> ` name=` + quote + value + quote with the configured quote, braces for
   expressions (and for a markup.valuePrefix value under jsx); empty value and boolean (flag `name.` or
   listed in output.booleanAttributes) -> name="name", or the compact form (bare name in HTML,
   name="" otherwise); empty value otherwise -> a tabstop between the quotes; the name goes through
   markup.attributes (`name*` first for a doubled shorthand) and output.attributeCase.
   See AttrProofs.attr_out_spec. *)
Theorem C03_attr_out_table :
  forall (c : oconfig) (a : aattr) (st : fstate),
    push_attribute c a st = write_form c (attr_out_spec c a) st.
Proof. exact attr_out_table. Qed.
Print Assumptions C03_attr_out_table.

(* implied attributes (`!name`) are dropped exactly when they are raw and have no value *)
Theorem C03_implied_dropped :
  forall a : aattr,
    should_output_attribute a = false <->
    aa_implied a = true /\ aa_vtype a = VRaw /\ (aa_value a = None \/ aa_value a = Some []).
Proof. exact implied_dropped. Qed.
Print Assumptions C03_implied_dropped.

(* values appear verbatim: the output string grows by exactly the text of the form (line-break free
   parts; a line break inside a value is re-indented by the output stream, C12) *)
Theorem C03_attr_out_text :
  forall (c : oconfig) (a : aattr) (st : fstate),
    form_nl_free (attr_out_spec c a) ->
    os_value (fs_out (push_attribute c a st)) = os_value (fs_out st) ++ form_text (attr_out_spec c a).
Proof. exact attr_out_text. Qed.
Print Assumptions C03_attr_out_text.

(* attr_parse_roundtrip -- full statement: for attribute lists over the grammar (id, class, [n=v] with
   quoted / unquoted / empty / valueless / boolean `n.` / implied `!n` values) rendered to TEXT,
   Parser.element (tokenize text) yields exactly those attributes in order.
   Proved (_partial) at the TOKEN level for the bracketed set: for every list of written attributes
   (name, name=, name=value, name="..."/'...', name={...}, bare "..."; names and unquoted values any
   non-empty run of literal/number/field tokens; quoted bodies any tokens but the closing quote;
   expression bodies any tokens but expression brackets), separated by white space, between `[` and `]`,
   attribute_set returns exactly the written attributes in order and consumes through the `]`.
   Missing: the character level (that the tokenizer produces such token runs, with `.`/`!` inside names
   kept literal), the `#id` / `.class` shorthands of element(), and the stringification of the value
   tokens by convert_attribute; these are covered by the correspondence and the verbatim oracle. *)
Theorem C03_attr_parse_roundtrip_partial :
  forall (open : token) (lead : list token) (l : list (wattr * list token)) (close : token) (after : list token),
    is_bracket open (Some BAttr) (Some true) = true ->
    forallb is_white_space_tok lead = true ->
    list_ok l -> is_close_attr close = true ->
    attribute_set (open :: lead ++ render l ++ close :: after) =
    ASOk (map (fun p => wparsed (fst p)) l) (length (open :: lead ++ render l) + 1).
Proof. exact attribute_set_reads. Qed.
Print Assumptions C03_attr_parse_roundtrip_partial.

(* non-vacuity: .x [b=1] .y [b=2] merges to class="x y" b=2 (b=1 under reverse), class first *)
Example C03_nonvacuous :
  let at_ (n v : str) := mkAAttr (Some n) (Some [VStr v]) VRaw false false false in
  merge_spec false [] [at_ (S "class") (S "x"); at_ (S "b") (S "1"); at_ (S "class") (S "y"); at_ (S "b") (S "2")]
    = [at_ (S "class") (S "x y"); at_ (S "b") (S "2")]
  /\ merge_spec true [] [at_ (S "class") (S "x"); at_ (S "b") (S "1"); at_ (S "class") (S "y"); at_ (S "b") (S "2")]
    = [at_ (S "class") (S "x y"); at_ (S "b") (S "1")].
Proof. split; vm_compute; reflexivity. Qed.

(* non-vacuity of the output theorems: t="x y" under single quotes is written as  t='x y'  *)
Example C03_out_nonvacuous :
  let c := mkOconfig (mkOfmt [] [] []) [] [] (S "single") true false [] [] 0 false [] (S "html") [] false [] [] []
                     false None None in
  let a := mkAAttr (Some (S "t")) (Some [VStr (S "x y")]) VDouble false false false in
  form_nl_free (attr_out_spec c a) /\ form_text (attr_out_spec c a) = S " t='x y'".
Proof. split; vm_compute; repeat split; repeat constructor. Qed.

(* non-vacuity of the parser theorem: [a=b "x" c] as tokens is a well-formed written list *)
Example C03_parse_nonvacuous :
  let lit c p := mkTok (TLiteral [c]) p (p + 1) in
  let ws p := mkTok (TWhiteSpace [32%N]) p (p + 1) in
  let q p := mkTok (TQuote false) p (p + 1) in
  let l := [(WUnq [lit 97%N 1] (mkTok (TOperator OpEqual) 2 3) [lit 98%N 3], [ws 4]);
            (WBare (q 5) [lit 120%N 6] (q 7), [ws 8]);
            (WName [lit 99%N 9], [])] in
  list_ok l /\ length (render l) = 9.
Proof.
  cbv zeta. split; [|reflexivity]. simpl.
  repeat split; try discriminate; try reflexivity; try (intros _; discriminate).
  - exists false. repeat split.
  - intro H. exfalso. apply H. reflexivity.
Qed.
