(* C03 -- Attributes are carried over, merged and quoted as written.
   Property theorems only; each closed by [exact] of a lemma proved in proofs/.

   Full statement (kept visible): for every element, `#id`, `.class` and `[name=value ...]` become
   attributes of exactly that element, in order of first mention; repeated class mentions are joined by
   single spaces in the order written, for any other repeated attribute the last value wins (the first
   under output.reverseAttributes) while keeping the first position; values appear verbatim between the
   configured quotes (braces for expressions), a name without value gets an empty value, boolean
   attributes expand to name="name" or the compact form, implied attributes without value are dropped,
   names are mapped through markup.attributes.

   What is proved for ALL inputs: the merge rules (C03_merge_...), the output decision table (C03_attr_out_...,
   C03_implied_dropped), and -- character level, over the written grammar stated further down -- the parse of
   every element's text into exactly its written mentions (C03_element_attributes_text), the whole pipeline
   for one element (C03_element_markup_parse, C03_expand_element_text: expand = `<name` + merged mentions
   through the output table + `>` ...), and for whole flat statements e1 op e2 ... (C03_statement_markup_parse:
   every place of the resolved tree carries its own element's merged mentions; C03_statement_expand: the
   output with formatting off).  Elements are parser blocks of C01 (C03_element_is_block / _gblock /
   _group_unit).
   Not covered by a theorem (correspondence + oracles of harness/props/c03.py only): `$` numbering and
   `${..}` fields inside names and values, a backslash outside quotes / braces, bare quoted attributes
   `["x"]`, value-less shorthands (`a.`), the jsx shorthand `.{e}`, names that are snippets / lorem / label
   (snippet resolution: C14), statements with groups or repeaters at text level (token level: C01/C02),
   the haml / pug / slim formatters (C15) and the line layout with formatting on (C12). *)
From Coq Require Import String.
From Emmet Require Import lib.Base lib.StrLit model.MarkupTokenizer model.MarkupParser model.MarkupConvert
     model.MarkupResolve model.OutStream model.FormatHtml proofs.AttrProofs proofs.AttrParseProofs
     proofs.ParserSpine proofs.ParserGroups proofs.TextSpec proofs.AttrText proofs.AttrTextParse
     proofs.AttrTextConvert proofs.AttrTextFlat proofs.TextProofs model.MarkupExpand proofs.AttrTextExpand proofs.AttrTextStmt proofs.AttrTextRender.

(* merging: for ALL attribute lists the code's loop (dictionary lookup + in-place update) computes
   [merge_spec]: every name once at its first position; class values joined by one space in written
   order; otherwise value of the last (first under reverse) mention, expression if any mention is one
   else the type of the last, boolean/implied if any mention is.  See AttrProofs.merge_group. *)
Theorem C03_merge_refines_spec :
  forall (rev_attrs : bool) (attrs : list aattr),
    merge_attrs_loop rev_attrs attrs [] [] = merge_spec rev_attrs [] attrs.
Proof. exact merge_refines_spec. Qed.
Print Assumptions C03_merge_refines_spec.

Theorem C03_merge_attributes :
  forall (rev_attrs : bool) (attrs : option (list aattr)),
    merge_attributes rev_attrs attrs =
    match attrs with
    | Some ((_ :: _) as l) => Some (merge_spec rev_attrs [] l)
    | other => other
    end.
Proof. exact merge_attributes_spec. Qed.
Print Assumptions C03_merge_attributes.

(* readable consequences of the specification: every name occurs once, at the position of its first
   mention ... *)
Theorem C03_merge_first_position :
  forall (rev_attrs : bool) (attrs : list aattr),
    anames (merge_spec rev_attrs [] attrs) = first_names [] attrs /\ NoDup (anames (merge_spec rev_attrs [] attrs)).
Proof. exact merge_first_position. Qed.
Print Assumptions C03_merge_first_position.

(* ... and class mentions made of plain words are joined by single spaces in the order written *)
Theorem C03_class_joined_by_spaces :
  forall (ws : list str) (w0 : str),
    w0 <> [] ->
    join_class (Some [VStr w0]) (map word_attr ws) = Some [VStr (join [c_space] (w0 :: ws))].
Proof. exact join_class_words. Qed.
Print Assumptions C03_class_joined_by_spaces.

(* output: the decision table of push_attribute, for ALL names, values, flags and options:
   no name -> nothing; a value -> ` name=` + quote + value + quote with the configured quote, braces for
   expressions (and for a markup.valuePrefix value under jsx); empty value and boolean (flag `name.` or
   listed in output.booleanAttributes) -> name="name", or the compact form (bare name in HTML,
   name="" otherwise); empty value otherwise -> a tabstop between the quotes; the name goes through
   markup.attributes (`name*` first for a doubled shorthand) and output.attributeCase.
   See AttrProofs.attr_out_spec. *)
Theorem C03_attr_out_table :
  forall (c : oconfig) (a : aattr) (st : fstate),
    push_attribute c a st = write_form c (attr_out_spec c a) st.
Proof. exact attr_out_table. Qed.
Print Assumptions C03_attr_out_table.

(* implied attributes (`!name`) are dropped exactly when they are raw and have no value *)
Theorem C03_implied_dropped :
  forall a : aattr,
    should_output_attribute a = false <->
    aa_implied a = true /\ aa_vtype a = VRaw /\ (aa_value a = None \/ aa_value a = Some []).
Proof. exact implied_dropped. Qed.
Print Assumptions C03_implied_dropped.

(* values appear verbatim: the output string grows by exactly the text of the form (line-break free
   parts; a line break inside a value is re-indented by the output stream, C12) *)
Theorem C03_attr_out_text :
  forall (c : oconfig) (a : aattr) (st : fstate),
    form_nl_free (attr_out_spec c a) ->
    os_value (fs_out (push_attribute c a st)) = os_value (fs_out st) ++ form_text (attr_out_spec c a).
Proof. exact attr_out_text. Qed.
Print Assumptions C03_attr_out_text.

(* attr_parse_roundtrip -- full statement: for attribute lists over the grammar (id, class, [n=v] with
   quoted / unquoted / empty / valueless / boolean `n.` / implied `!n` values) rendered to TEXT,
   Parser.element (tokenize text) yields exactly those attributes in order.
   Proved (_partial) at the TOKEN level for the bracketed set: for every list of written attributes
   (name, name=, name=value, name="..."/'...', name={...}, bare "..."; names and unquoted values any
   non-empty run of literal/number/field tokens; quoted bodies any tokens but the closing quote;
   expression bodies any tokens but expression brackets), separated by white space, between `[` and `]`,
   attribute_set returns exactly the written attributes in order and consumes through the `]`.
   This token-level theorem stays as the building block (it also covers token runs the character-level
   grammar below excludes: numbering / field tokens in names and values, arbitrary white space, bare
   quoted attributes).  The character level, the `#id` / `.class` shorthands of element() and the
   stringification by convert_attribute are proved in C03_element_attributes_text below; what is still
   open for a full attr_parse_roundtrip is named there. *)
Theorem C03_attr_parse_roundtrip_partial :
  forall (open : token) (lead : list token) (l : list (wattr * list token)) (close : token) (after : list token),
    is_bracket open (Some BAttr) (Some true) = true ->
    forallb is_white_space_tok lead = true ->
    list_ok l -> is_close_attr close = true ->
    attribute_set (open :: lead ++ render l ++ close :: after) =
    ASOk (map (fun p => wparsed (fst p)) l) (length (open :: lead ++ render l) + 1).
Proof. exact attribute_set_reads. Qed.
Print Assumptions C03_attr_parse_roundtrip_partial.

(* ---------------------------------------------------------------------------------------------------
   CHARACTER LEVEL (proofs/AttrText*.v).  The written grammar, as data:
     selem  = name + list of parts + optionally a text `{T}` + optionally the self-closing mark `/`;
     part   = `#v` | `.v` (the operator may be repeated: `..v` is a "multiple" mention, looked up as `class*`
              in markup.attributes) | `[ lead a1 w1 a2 w2 ... an wn ]` with any white space lead / wi (blanks,
              tabs, nbsp, line breaks), at least one character between two attributes; [spaced l] = the
              usual single spaces;
     sattr  = optional `!` (implied) + name + optional `.` (boolean) + value;
     value  = nothing | `=` | `=v` | `='q'` / `="q"` | `={e}`.
   Alphabets ([selem_ok]): element name and shorthand values are non-empty runs of name characters
   (letters, digits, `_ - : !`); an attribute name is any non-empty run over the unquoted-safe alphabet
   [asafe] = every character except  \ $ = white space quotes brackets  (so `. # > + ^ * / @ :` and
   unicode are in; it neither ends in `.` nor starts with `!` unless the flag is written); an unquoted
   value is a non-empty run over [asafe] plus parentheses that balance ([uq_ok]); a quoted value is ANY
   text in which the quote itself, `$` and `\` occur only escaped by `\` ([qpayload]: brackets, braces,
   operators, the other quote, white space, line breaks free); an expression value is any text whose
   braces balance modulo escapes and whose `$` are escaped ([bal 0]); the text `{T}` likewise (C04).
   [elem_text e] is the text, [written_mentions e] the list of mentions it denotes (SPEC, AttrTextConvert):
   `#v` -> id=v raw, `.v` -> class=v raw (multiple when the operator is repeated), n -> no value, n= -> no value, n=v -> [v] raw,
   n='q' -> [unescape q] single (n="q" double; nothing for an empty q), n={e} -> [unescape e] expression,
   flags boolean / implied as written. *)

(* (0) the tokenizer on the text of such an element yields exactly the layout [elem_toks] *)
Theorem C03_element_tokens_text :
  forall e : selem, selem_ok e -> tokenize (elem_text e) = TOk (elem_toks 0 e).
Proof. exact tokenize_elem. Qed.
Print Assumptions C03_element_tokens_text.

(* (1) element_attributes_text.  For EVERY element of the grammar -- any number and order of `#id`,
   `.class` and `[ ... ]` parts, any mix of value forms -- tokenize + parse + convert of its text gives
   ONE node, named as written, without children, whose value is the text `{T}` with escapes resolved
   ([elem_text_value]: nothing when no text is written) and whose attribute list (before merging) is
   exactly the written mentions in order: name, value, value type (raw / single / double / expression)
   and boolean / implied flags.  ([jsx_ok]: under jsx a Capitalized name followed by `.Capitalized` is a
   component path, so the name must not start with a capital there.)
   Outside the stated grammar, hence not covered by this theorem (covered by the correspondence and the
   oracle of harness/props/c03.py): `$` numbering / `${..}` fields in names and values, a backslash
   outside quotes and braces, bare quoted attributes `["x"]`, empty
   shorthands (`a.`), the jsx shorthand `.{e}`. *)
Theorem C03_element_attributes_text :
  forall (jsx : bool) (env : cenv) (max_repeat : option N) (e : selem),
    selem_ok e -> jsx_ok jsx e -> ce_text env = WNone ->
    parse_abbr jsx env max_repeat (elem_text e) =
      Ok [ANode (Some (se_name e)) (elem_text_value e) None (attrs_opt (written_mentions e)) [] (se_close e)].
Proof. exact element_attributes_text. Qed.
Print Assumptions C03_element_attributes_text.

(* ... composed with C03_merge_attributes: after merging, the node carries [merge_spec] of the mentions *)
Theorem C03_element_merged_text :
  forall (rev_attrs : bool) (e : selem),
    merge_attributes rev_attrs (an_attrs (elem_node e)) =
      match written_mentions e with [] => None | m => Some (merge_spec rev_attrs [] m) end.
Proof. exact element_merged_text. Qed.
Print Assumptions C03_element_merged_text.

(* (3) the tokens of such an element form a parser block in the sense of C01: element() consumes exactly
   them before `>`, `+`, `^`, `)` or the end, and returns the written attributes -- so these elements
   may stand wherever C01_parse_denote_partial (flat statements) and C01_parse_groups (groups, any
   nesting) ask for [block_ok] / [gblock_ok] *)
Theorem C03_element_is_gblock :
  forall (jsx : bool) (pos : nat) (e : selem),
    selem_ok e -> jsx_ok jsx e -> gblock_ok jsx (elem_toks pos e) (elem_leaf pos e).
Proof. exact elem_gblock. Qed.
Print Assumptions C03_element_is_gblock.

Theorem C03_element_is_block :
  forall (jsx : bool) (pos : nat) (e : selem),
    selem_ok e -> jsx_ok jsx e -> block_ok jsx (elem_toks pos e) (elem_leaf pos e).
Proof. exact elem_block. Qed.
Print Assumptions C03_element_is_block.

(* ... hence a unit of the group grammar of C01_parse_groups: such elements may stand inside parenthesised,
   repeated, nested groups (token level; example below) *)
Theorem C03_element_is_group_unit :
  forall (jsx : bool) (pos : nat) (e : selem),
    selem_ok e -> jsx_ok jsx e -> unit_toks jsx (GE (elem_leaf pos e)) (elem_toks pos e).
Proof. exact elem_group_unit. Qed.
Print Assumptions C03_element_is_group_unit.

(* ... and the corollary at text level: a flat statement e1 op1 e2 ... en (op = `>`, `+`, `^`...) of such
   elements tokenizes and parses; the parsed tree has the depth list the operators denote ([edenote]:
   `>` one deeper, `+` same level, each `^` one up), and the element at every place converts to ONE
   node carrying exactly the mentions written on it *)
Theorem C03_statement_attributes_text :
  forall (jsx : bool) (env : cenv) (xs : list (selem * sop)),
    Forall (fun x => selem_ok (fst x) /\ jsx_ok jsx (fst x)) xs ->
    exists toks els,
      tokenize (stmt_text xs) = TOk toks /\ parse jsx toks = POk els /\
      Forall2 (fun dl de => fst dl = fst de /\
                            forall st, conv_stmt env (leaf_node (snd dl)) st = Ok ([elem_node (snd de)], st))
              (preL 0 els) (edenote 0 xs).
Proof. exact statement_attributes_text. Qed.
Print Assumptions C03_statement_attributes_text.

(* (4) the WHOLE pipeline on one element.  markup.parse -- tokenize, parse, convert, snippet resolution,
   transform -- of the text of an element whose name is neither a snippet nor `lorem...` yields the one
   node carrying [merge_spec] of the written mentions ...  ([mc_bem cfg = false]: BEM off -- with
   bem.enabled the BEM addon rewrites class values (`-` / `_` prefixes, block names taken from the
   ancestors), which is not the subject of C03; the same hypothesis stands in (4)-(6).  [xsl_rule_applies]: under the xsl syntax an
   xsl:variable / xsl:with-param WITH content loses its `select` attribute -- the xsl addon, excluded.) *)
Theorem C03_element_markup_parse :
  forall (cfg : mconfig) (e : selem),
    selem_ok e -> jsx_ok (mc_jsx cfg) e -> mc_text cfg = WNone ->
    assoc_str (se_name e) (mc_snippets cfg) = None -> match_lorem (se_name e) = LNo ->
    xsl_rule_applies cfg e = false -> mc_bem cfg = false ->
    markup_parse cfg (elem_text e) =
      Ok [ANode (Some (se_name e)) (elem_text_value e) None
                (match written_mentions e with [] => None | m => Some (merge_spec (mc_reverse_attrs cfg) [] m) end)
                [] (se_close e)].
Proof. exact markup_parse_elem. Qed.
Print Assumptions C03_element_markup_parse.

(* ... and expand() writes it as  <name attr...>text</name>  -- or, for an element marked `/` without text,
   <name attr... />  with ` /`, `/` or nothing before `>` by output.selfClosingStyle ([leaf_tail]) : the attributes are those of [merge_spec] on the
   written mentions (first mention fixes the position, class values joined, last/first value wins), each
   written by the decision table [attr_out_spec] of C03_attr_out_table (quotes / braces, boolean
   expansion or compact form, implied dropped, tabstop for an empty value, names through
   markup.attributes and attributeCase).  For ALL elements of the grammar, all configurations with:
   an HTML-family syntax (html, xml, xsl, jsx, vue ...: the haml / slim / pug formatters are C15), no
   comment filter, no leaf formatting for this element, and values free of line breaks (a line break
   inside a value is re-indented by the output stream: C04_text_not_reparsed / C12); the text, if any,
   is free of line breaks and does not start with a block-level tag ([value_inline]: such text is
   put on lines of its own). *)
Theorem C03_expand_element_text :
  forall (x : xconfig) (e : selem),
    let m := xc_m x in
    let c := xc_o x in
    selem_ok e -> jsx_ok (mc_jsx m) e -> mc_text m = WNone ->
    assoc_str (se_name e) (mc_snippets m) = None -> match_lorem (se_name e) = LNo ->
    xsl_rule_applies m e = false -> mc_bem m = false ->
    html_family (mc_syntax m) -> oc_comment_enabled c = false ->
    oc_format_leaf c = false -> mem_str (se_name e) (oc_format_force c) = false ->
    let attrs := merge_spec (mc_reverse_attrs m) [] (written_mentions e) in
    Forall (fun a => form_nl_free (attr_out_spec c a)) attrs ->
    value_inline c (elem_text_value e) ->
    expand_markup_str x (elem_text e) =
      Ok (c_lt :: tag_name c (se_name e) ++ attrs_text_out c attrs
          ++ leaf_tail c (tag_name c (se_name e)) (se_close e) (elem_text_value e)).
Proof. exact expand_element_text. Qed.
Print Assumptions C03_expand_element_text.

(* (5) "for EVERY element ... of exactly that element": a whole flat statement through markup.parse.
   For the text  e1 op1 e2 ... en  of elements of the grammar whose names are neither snippets nor
   lorem / label / (under xsl) xsl:variable, xsl:with-param ([plain_name]: these trigger the snippet,
   lorem, label and xsl addons), the resolved tree has -- in preorder, as (depth, node without its
   children) -- exactly the places the operators denote ([edenote]), and the node at the place of
   element e carries e's own name, text and the [merge_spec] of the mentions written on e: no attribute
   is lost, duplicated or moved to another element.  ([apreNL] determines the tree.) *)
Theorem C03_statement_markup_parse :
  forall (cfg : mconfig) (xs : list (selem * sop)),
    Forall (fun x => selem_ok (fst x) /\ jsx_ok (mc_jsx cfg) (fst x) /\ plain_name cfg (fst x)) xs ->
    mc_text cfg = WNone -> mc_bem cfg = false ->
    exists forest,
      markup_parse cfg (stmt_text xs) = Ok forest /\
      apreNL 0 forest =
        map (fun x => (fst x, ANode (Some (se_name (snd x))) (elem_text_value (snd x)) None
                                    (match written_mentions (snd x) with
                                     | [] => None
                                     | m => Some (merge_spec (mc_reverse_attrs cfg) [] m)
                                     end) [] (se_close (snd x))))
            (edenote 0 xs).
Proof. exact statement_markup_parse. Qed.
Print Assumptions C03_statement_markup_parse.

(* ... the preorder list pins the forest down: two forests with the same list are equal *)
Theorem C03_preorder_determines_forest :
  forall (l1 l2 : list anode) (d : nat), apreNL d l1 = apreNL d l2 -> l1 = l2.
Proof. exact apreNL_inj. Qed.
Print Assumptions C03_preorder_determines_forest.

(* (6) ... and expand() of the whole statement with formatting off (output.format = false; with it on, the
   same tags are laid out on indented lines: C12): the output is the forest of (5) written as nested
   tags ([render_node]: `<name` + the attributes through [attr_out_spec] + `>` + the element's text +
   its children in order + `</name>`), every element once, in document order.  [elem_out_ok]: no leaf
   formatting forced for the name, attribute values and text free of line breaks, text not starting
   with a block-level tag. *)
Theorem C03_statement_expand :
  forall (x : xconfig) (xs : list (selem * sop)),
    let m := xc_m x in
    let c := xc_o x in
    Forall (fun p => selem_ok (fst p) /\ jsx_ok (mc_jsx m) (fst p) /\ plain_name m (fst p)) xs ->
    mc_text m = WNone -> mc_bem m = false -> html_family (mc_syntax m) ->
    oc_format c = false -> oc_comment_enabled c = false -> oc_format_leaf c = false ->
    Forall (fun p => elem_out_ok m c (fst p)) xs ->
    exists forest,
      expand_markup_str x (stmt_text xs) = Ok (render_forest c forest) /\
      apreNL 0 forest = map (fun p => (fst p, resolved_node (mc_reverse_attrs m) (snd p))) (edenote 0 xs).
Proof. exact statement_expand. Qed.
Print Assumptions C03_statement_expand.

(* non-vacuity of (4): a.x[b=f(1) c. !d class='y z']#i{5 > 3 \{ok\}}  expands to
   <a class="x y z" b="f(1)" c="c" id="i">5 > 3 {ok}</a> *)
Example C03_expand_nonvacuous :
  let x := mkX (mkMConfig (S "html") [] [] WNone None None false None [] false false false [] [] None)
               (mkOconfig (mkOfmt [] [] []) [] [] (S "double") true false [] [] 0 false [] (S "html") [] false [] [] []
                          false None None) in
  let e := mkSElem (S "a")
             [PClass 0 (S "x");
              PSet [] (spaced [mkSAttr false (S "b") false (SUnq (S "f(1)")); mkSAttr false (S "c") true SNone;
                    mkSAttr true (S "d") false SNone; mkSAttr false (S "class") false (SQuo true (S "y z"))]);
              PId 0 (S "i")] (Some (S "5 > 3 \{ok\}")) false in
  selem_ok e /\ html_family (mc_syntax (xc_m x)) /\
  Forall (fun a => form_nl_free (attr_out_spec (xc_o x) a)) (merge_spec false [] (written_mentions e)) /\
  value_inline (xc_o x) (elem_text_value e) /\
  elem_text e = S "a.x[b=f(1) c. !d class='y z']#i{5 > 3 \{ok\}}" /\
  expand_markup_str x (elem_text e) = Ok (S "<a class=""x y z"" b=""f(1)"" c=""c"" id=""i"">5 > 3 {ok}</a>").
Proof.
  cbv zeta. split; [cbn; grammar_ok|].
  split; [repeat split|]. split; [vm_compute; repeat constructor|]. split; [vm_compute; repeat constructor|].
  split; vm_compute; reflexivity.
Qed.

(* non-vacuity of the character-level theorems: a#x.y[!p. q= r=a*3/4>.# f=g(1) s.='a \' ] (c)' t={ x{y} }]..z *)
Example C03_text_nonvacuous :
  let e := mkSElem (S "a")
             [PId 0 (S "x"); PClass 0 (S "y");
              PSet [] (spaced [mkSAttr true (S "p") true SNone; mkSAttr false (S "q") false SEmpty;
                    mkSAttr false (S "r") false (SUnq (S "a*3/4>.#")); mkSAttr false (S "f") false (SUnq (S "g(1)"));
                    mkSAttr false (S "s") true (SQuo true (S "a \' ] (c)")); mkSAttr false (S "t") false (SBrace (S " x{y} "))]);
              PClass 1 (S "z")] None false in
  selem_ok e /\ jsx_ok false e /\
  elem_text e = S "a#x.y[!p. q= r=a*3/4>.# f=g(1) s.='a \' ] (c)' t={ x{y} }]..z" /\
  written_mentions e =
    [mkAAttr (Some (S "id")) (Some [VStr (S "x")]) VRaw false false false;
     mkAAttr (Some (S "class")) (Some [VStr (S "y")]) VRaw false false false;
     mkAAttr (Some (S "p")) None VRaw true true false;
     mkAAttr (Some (S "q")) None VRaw false false false;
     mkAAttr (Some (S "r")) (Some [VStr (S "a*3/4>.#")]) VRaw false false false;
     mkAAttr (Some (S "f")) (Some [VStr (S "g(1)")]) VRaw false false false;
     mkAAttr (Some (S "s")) (Some [VStr (S "a ' ] (c)")]) VSingle true false false;
     mkAAttr (Some (S "t")) (Some [VStr (S " x{y} ")]) VExpr false false false;
     mkAAttr (Some (S "class")) (Some [VStr (S "z")]) VRaw false false true].
Proof.
  cbv zeta. split; [|split; [left; reflexivity|split; vm_compute; reflexivity]].
  cbn; grammar_ok.
Qed.

(* ... and of the statement theorem: a.x>b[c=1]{t>u}+d#e/ satisfies its hypothesis *)
Example C03_statement_nonvacuous :
  let xs := [(mkSElem (S "a") [PClass 0 (S "x")] None false, SChild);
             (mkSElem (S "b") [PSet [] (spaced [mkSAttr false (S "c") false (SUnq (S "1"))])] (Some (S "t>u")) false, SSibling);
             (mkSElem (S "d") [PId 0 (S "e")] None true, SSibling)] in
  let cfg := mkMConfig (S "html") [(S "a", S "a[href]")] [] WNone None None false None [] false false false [] [] None in
  Forall (fun x => selem_ok (fst x) /\ jsx_ok false (fst x)) xs /\ stmt_text xs = S "a.x>b[c=1]{t>u}+d#e/" /\
  Forall (fun x => plain_name cfg (fst x)) (tl xs).
Proof.
  cbv zeta. split; [|split; [vm_compute; reflexivity|]].
  - cbn. grammar_ok. all: left; reflexivity.
  - repeat constructor.
Qed.

(* non-vacuity: .x [b=1] .y [b=2] merges to class="x y" b=2 (b=1 under reverse), class first *)
Example C03_nonvacuous :
  let at_ (n v : str) := mkAAttr (Some n) (Some [VStr v]) VRaw false false false in
  merge_spec false [] [at_ (S "class") (S "x"); at_ (S "b") (S "1"); at_ (S "class") (S "y"); at_ (S "b") (S "2")]
    = [at_ (S "class") (S "x y"); at_ (S "b") (S "2")]
  /\ merge_spec true [] [at_ (S "class") (S "x"); at_ (S "b") (S "1"); at_ (S "class") (S "y"); at_ (S "b") (S "2")]
    = [at_ (S "class") (S "x y"); at_ (S "b") (S "1")].
Proof. split; vm_compute; reflexivity. Qed.

(* non-vacuity of the output theorems: t="x y" under single quotes is written as  t='x y'  *)
Example C03_out_nonvacuous :
  let c := mkOconfig (mkOfmt [] [] []) [] [] (S "single") true false [] [] 0 false [] (S "html") [] false [] [] []
                     false None None in
  let a := mkAAttr (Some (S "t")) (Some [VStr (S "x y")]) VDouble false false false in
  form_nl_free (attr_out_spec c a) /\ form_text (attr_out_spec c a) = S " t='x y'".
Proof. split; vm_compute; repeat split; repeat constructor. Qed.

(* non-vacuity of the parser theorem: [a=b "x" c] as tokens is a well-formed written list *)
Example C03_parse_nonvacuous :
  let lit c p := mkTok (TLiteral [c]) p (p + 1) in
  let ws p := mkTok (TWhiteSpace [32%N]) p (p + 1) in
  let q p := mkTok (TQuote false) p (p + 1) in
  let l := [(WUnq [lit 97%N 1] (mkTok (TOperator OpEqual) 2 3) [lit 98%N 3], [ws 4]);
            (WBare (q 5) [lit 120%N 6] (q 7), [ws 8]);
            (WName [lit 99%N 9], [])] in
  list_ok l /\ length (render l) = 9.
Proof.
  cbv zeta. split; [|reflexivity]. simpl.
  repeat split; try discriminate; try reflexivity; try (intros _; discriminate).
  - exists false. repeat split.
  - intro H. exfalso. apply H. reflexivity.
Qed.

(* non-vacuity of (5), (6): a.x>b[c=1]{t>u}+d#e/ with formatting off (here `a` is not a snippet;
   selfClosingStyle html writes the marked element as <d id="e">) *)
Example C03_statement_expand_nonvacuous :
  let x := mkX (mkMConfig (S "html") [] [] WNone None None false None [] false false false [] [] None)
               (mkOconfig (mkOfmt [] [] []) [] [] (S "double") false false [] [] 0 false [] (S "html") [] false [] [] []
                          false None None) in
  let xs := [(mkSElem (S "a") [PClass 0 (S "x")] None false, SChild);
             (mkSElem (S "b") [PSet [] (spaced [mkSAttr false (S "c") false (SUnq (S "1"))])] (Some (S "t>u")) false, SSibling);
             (mkSElem (S "d") [PId 0 (S "e")] None true, SSibling)] in
  Forall (fun p => selem_ok (fst p) /\ jsx_ok false (fst p) /\ plain_name (xc_m x) (fst p)) xs /\
  Forall (fun p => elem_out_ok (xc_m x) (xc_o x) (fst p)) xs /\
  expand_markup_str x (stmt_text xs) = Ok (S "<a class=""x""><b c=""1"">t>u</b><d id=""e""></a>").
Proof.
  cbv zeta. split; [|split; [|vm_compute; reflexivity]].
  - cbn. grammar_ok. all: try (left; reflexivity).
  - repeat constructor.
Qed.

(* non-vacuity of the group corollary: `(a.x>b[c=1])*2+d##e` as tokens satisfies [gflat], so C01_parse_groups applies *)
Example C03_group_nonvacuous :
  let a := mkSElem (S "a") [PClass 0 (S "x")] None false in
  let b := mkSElem (S "b") [PSet [] (spaced [mkSAttr false (S "c") false (SUnq (S "1"))])] None false in
  let d := mkSElem (S "d") [PId 1 (S "e")] None false in
  let br o p := mkTok (TBracket o BGroup) p (p + 1) in
  let op o p := mkTok (TOperator o) p (p + 1) in
  let rp := mkTok (TRepeater 2 0 false) 13 15 in
  gflat false
    [(GG [(GE (elem_leaf 1 a), SChild); (GE (elem_leaf 5 b), SSibling)] (Some (mkRep 2 0 false)), SSibling);
     (GE (elem_leaf 16 d), SSibling)]
    ((br true 0 :: (elem_toks 1 a ++ [op OpChild 4] ++ elem_toks 5 b) ++ br false 12 :: [rp]) ++ [op OpSibling 15] ++ elem_toks 16 d).
Proof. exact group_of_attribute_elements. Qed.
