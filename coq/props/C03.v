(* C03 -- Attributes are carried over, merged and quoted as written.
   Property theorems only; each closed by [exact] of a lemma proved in proofs/.

   Full statement (kept visible): for every element, `#id`, `.class` and `[name=value ...]` become
   attributes of exactly that element, in order of first mention; repeated class mentions are joined by
   single spaces in the order written, for any other repeated attribute the last value wins (the first
   under output.reverseAttributes) while keeping the first position; values appear verbatim between the
   configured quotes (braces for expressions), a name without value gets an empty value, boolean
   attributes expand to name="name" or the compact form, implied attributes without value are dropped,
   names are mapped through markup.attributes. *)
From Coq Require Import String.
From Emmet Require Import lib.Base lib.StrLit model.MarkupTokenizer model.MarkupParser model.MarkupConvert
     model.MarkupResolve model.OutStream model.FormatHtml proofs.AttrProofs.
Local Open Scope string_scope.

(* merging: for ALL attribute lists the code's loop (dictionary lookup + in-place update) computes
   [merge_spec]: every name once at its first position; class values joined by one space in written
   order; otherwise value of the last (first under reverse) mention, expression if any mention is one
   else the type of the last, boolean/implied if any mention is.  See AttrProofs.merge_group. *)
Theorem C03_merge_refines_spec :
  forall (rev_attrs : bool) (attrs : list aattr),
    merge_attrs_loop rev_attrs attrs [] [] = merge_spec rev_attrs [] attrs.
Proof. exact merge_refines_spec. Qed.
Print Assumptions C03_merge_refines_spec.

Theorem C03_merge_attributes :
  forall (rev_attrs : bool) (attrs : option (list aattr)),
    merge_attributes rev_attrs attrs =
    match attrs with
    | Some ((_ :: _) as l) => Some (merge_spec rev_attrs [] l)
    | other => other
    end.
Proof. exact merge_attributes_spec. Qed.
Print Assumptions C03_merge_attributes.

(* non-vacuity: .x [b=1] .y [b=2] merges to class="x y" b=2 (b=1 under reverse), class first *)
Example C03_nonvacuous :
  let at_ (n v : string) := mkAAttr (Some (S n)) (Some [VStr (S v)]) VRaw false false false in
  merge_spec false [] [at_ "class" "x"; at_ "b" "1"; at_ "class" "y"; at_ "b" "2"]
    = [at_ "class" "x y"; at_ "b" "2"]
  /\ merge_spec true [] [at_ "class" "x"; at_ "b" "1"; at_ "class" "y"; at_ "b" "2"]
    = [at_ "class" "x y"; at_ "b" "1"].
Proof. split; vm_compute; reflexivity. Qed.
