(* C15 -- HAML, Pug and Slim output has one line per element at its depth.
   Property theorems only; each closed by [exact] of a lemma proved in proofs/.

   Statement: in the indentation-based syntaxes each element is written on its own line whose
   indentation equals its depth in the tree, in document order, as `name#id.class.class` followed by the
   syntax's attribute list, with `div` omitted when an id or class is present; multi-line text becomes one
   line per text line one level deeper.  The element tree recovered from the indentation is the same tree
   the HTML output has for the same abbreviation.

   SPEC (proofs/IndentProofs.v, section Spec; short, no stream, no level counter):
     head c o n        = [before-name name after-name unless name = div and an id/class is present]
                         ++ `#id` / `.c1.c2` of the id/class attributes ++ attr_list (other attributes)
                         (a class value lists the class names separated by whitespace; each run of whitespace
                          is written as one dot: C15_class_names)
     attr_list         = before ++ join glue (map attr_text attrs) ++ after        (nothing for no attributes)
     inline_value o n  = the self-close mark | nothing (no value, children) | [space] ++ the line of a one-line value
     text_line d w l   = indent^d ++ before-text ++ l ++ [padding to w ++ after-text]
     node_lines d n    = (indent^d ++ head n ++ inline_value n)
                         :: text lines of a multi-line value at depth d+1
                         ++ lines of the children at depth d+1
   Domain ([node_wf]): every node is an element (has a name or attributes); names, attribute names, attribute
   values and ids contain no line break (class names are whitespace-separated by construction).  Node values
   are arbitrary (one line, several lines, trailing line breaks, fields).
   "Line break" means CR, LF or CRLF ([nocrlf] = neither CR nor LF occurs): the formatter splits text only
   there (output_stream.re_line_break, fixes 8453eaf / eb70875); \f, \v, U+001C-1E, U+0085, U+2028/9 are
   ordinary characters of a line. *)
From Coq Require Import String.
From Emmet Require Import lib.Base lib.StrLit model.MarkupTokenizer model.MarkupParser model.MarkupConvert
     model.OutStream model.FormatHtml model.FormatIndent proofs.IndentStream proofs.IndentProofs
     proofs.HtmlEvents proofs.IndentHtml proofs.IndentLines model.MarkupResolve model.MarkupExpand.

(* indent_lines: for ALL trees in the domain, ALL option records (indent, newline, baseIndent strings, case,
   quotes, ...) and ALL punctuation records without line breaks, the output is exactly the lines of the
   preorder walk, each at its depth, joined by the newline string. *)
Theorem C15_indent_lines :
  forall (c : oconfig) (o : iopts),
    iopts_wf o = true ->
    forall forest : list anode,
    forallb node_wf forest = true ->
    os_value (fs_out (indent_format c o forest))
    = join (of_newline (oc_fmt c) ++ of_base_indent (oc_fmt c)) (flat_map (node_lines c o 0) forest).
Proof. exact indent_lines_all. Qed.
Print Assumptions C15_indent_lines.

(* ... in particular for what markup.stringify does under the syntax names haml, slim, pug *)
Theorem C15_indent_lines_syntax :
  forall (syntax : str) (c : oconfig) (o : iopts) (forest : list anode),
    syntax_opts syntax c = Some o ->
    forallb node_wf forest = true ->
    os_value (fs_out (stringify_markup syntax c forest))
    = join (of_newline (oc_fmt c) ++ of_base_indent (oc_fmt c)) (flat_map (node_lines c o 0) forest).
Proof. exact indent_lines_syntax. Qed.
Print Assumptions C15_indent_lines_syntax.

(* the same at the level of lines: with newline "\n" and no base indent, str.split("\n") of the output is the
   list of lines of the walk (field placeholders, text marks and the indent string free of "\n") *)
Theorem C15_indent_lines_split :
  forall (c : oconfig) (o : iopts),
    iopts_wf o = true ->
    nonl (io_before_text o) = true /\ nonl (io_after_text o) = true ->
    nonl (of_indent (oc_fmt c)) = true ->
    forall forest : list anode,
    of_newline (oc_fmt c) = [c_nl] -> of_base_indent (oc_fmt c) = [] -> forest <> [] ->
    forallb node_wf forest = true -> forallb fields_nonl forest = true ->
    lines (os_value (fs_out (indent_format c o forest))) = flat_map (node_lines c o 0) forest.
Proof. exact indent_lines_split. Qed.
Print Assumptions C15_indent_lines_split.

(* end to end: expand(abbr, config) under haml / pug / slim, whenever the parsed and resolved tree is in the domain *)
Theorem C15_expand_indent_lines :
  forall (x : xconfig) (abbr : str) (tree : list anode) (o : iopts),
    markup_parse (xc_m x) abbr = Ok tree ->
    syntax_opts (mc_syntax (xc_m x)) (xc_o x) = Some o ->
    forallb node_wf tree = true ->
    expand_markup_str x abbr
    = Ok (join (of_newline (oc_fmt (xc_o x)) ++ of_base_indent (oc_fmt (xc_o x))) (flat_map (node_lines (xc_o x) o 0) tree)).
Proof. exact expand_indent_lines. Qed.
Print Assumptions C15_expand_indent_lines.

(* multiline_text: a value with k > 1 lines yields k lines one level deeper, with the syntax's marks, and
   nothing on the element's own line. *)
Theorem C15_multiline_text :
  forall (c : oconfig) (o : iopts) (d : nat) (n : anode) (lines : list (list vtok)),
    truthy_l (an_value n) = true ->
    split_by_lines (value_or_caret (an_value n)) = lines ->
    1 < length lines ->
    node_lines c o d n =
      (ind (oc_fmt c) d ++ head c o n)
      :: map (text_line c o (Datatypes.S d) (fold_left Nat.max (map value_length lines) O)) lines
      ++ flat_map (node_lines c o (Datatypes.S d)) (an_children n).
Proof. exact multiline_text_lines. Qed.
Print Assumptions C15_multiline_text.

(* every line split_by_lines produces is free of CR and LF (so the k lines are k lines); nothing else is split *)
Theorem C15_split_lines_single :
  forall v : list vtok, Forall (fun l => toks_nocrlf l = true) (split_by_lines v).
Proof. exact split_by_lines_pieces. Qed.
Print Assumptions C15_split_lines_single.

(* the class names c1 ... ck, stored in the class attribute separated by spaces, are written c1.c2. ... .ck *)
Theorem C15_class_names :
  forall names : list str,
    Forall (fun x => nows x = true /\ x <> []) names ->
    ws_to_dot false (join [c_space] names) = join [c_dot] names.
Proof. exact class_dots_join. Qed.
Print Assumptions C15_class_names.

(* format_events (HTML side; also C01's "every element exactly once, in document order, with its own name"):
   the chunks pushed by the HTML formatter (one chunk = one output.text callback invocation), filtered to tag
   chunks (`<name` -> TOpen name, `</name>` -> TClose name), are the open/close event sequence of the forest, for
   ALL trees and ALL option records in the domain [cfg_clean] / [node_clean]: no '<' inside names, attributes,
   text, the newline/indent strings and the attribute tables; element names without line break and not starting
   with '/' or '!'; comments off (they add comment chunks only: C12).  A self-closed element has no close event
   ([erase] forgets the void flag: with selfClosingStyle html its open tag is written like any other). *)
Theorem C15_format_events :
  forall (c : oconfig),
    cfg_clean c = true ->
    forall forest : list anode,
    forallb node_clean forest = true ->
    tags (html_format c forest) = map erase (flat_map (tree_events c) forest).
Proof. exact format_events_all. Qed.
Print Assumptions C15_format_events.

(* the nesting of the event sequence (opens so far minus closes so far; void elements do not nest) is the
   preorder (depth, name) list of the forest *)
Theorem C15_events_nesting :
  forall (c : oconfig) (forest : list anode),
    forallb named_tree forest = true ->
    nest 0 (flat_map (tree_events c) forest) = map (dn c) (flat_map (preorder_nodes 0) forest).
Proof. exact nest_forest. Qed.
Print Assumptions C15_events_nesting.

(* same_tree_as_html: one preorder walk of (depth, element) pairs such that the haml/pug/slim output is the
   walk's blocks of lines, each element at its depth, and the open/close nesting of the HTML output's tag chunks
   is the walk's (depth, name) list (names up to output.tagCase, which the indent formats do not apply) *)
Theorem C15_same_tree_as_html :
  forall (c : oconfig) (o : iopts) (forest : list anode),
    cfg_clean c = true -> iopts_wf o = true ->
    forallb node_wf forest = true -> forallb node_clean forest = true -> forallb named_tree forest = true ->
    let walk := flat_map (preorder_nodes 0) forest in
    os_value (fs_out (indent_format c o forest))
      = join (of_newline (oc_fmt c) ++ of_base_indent (oc_fmt c)) (flat_map (element_block c o) walk)
    /\ exists evs, tags (html_format c forest) = map erase evs /\ nest 0 evs = map (dn c) walk.
Proof. exact same_tree. Qed.
Print Assumptions C15_same_tree_as_html.

(* non-vacuity: `ul#nav.a.b>li[title=x]{tw\fo\nli\u2028nes}+.c` (form feed and U+2028 are ordinary characters
   of their lines) is in the domain; under haml with a tab indent the
   theorem's right-hand side is the expected text *)
Definition ex_attr (n : string) (v : string) : aattr := mkAAttr (Some (S n)) (Some [VStr (S v)]) VRaw false false false.
Definition ex_tree : list anode :=
  [ANode (Some (S "ul")) None None (Some [ex_attr "id" "nav"; ex_attr "class" "a b"])
     [ANode (Some (S "li")) (Some [VStr (S "tw" ++ [12%N] ++ S "o" ++ [c_nl] ++ S "li" ++ [8232%N] ++ S "nes")]) None (Some [ex_attr "title" "x"]) [] false;
      ANode (Some (S "div")) None None (Some [ex_attr "class" "c"]) [] false] false].
Definition ex_cfg : oconfig :=
  mkOconfig (mkOfmt [c_tab] [] [c_nl]) [] [] [] true false [] [] 3 false [] (S "html") [] false [] [] [] false None None.

Example C15_nonvacuous :
  forallb node_wf ex_tree = true /\ forallb node_clean ex_tree = true /\ forallb named_tree ex_tree = true
  /\ cfg_clean ex_cfg = true
  /\ iopts_wf haml_opts = true
  /\ forallb fields_nonl ex_tree = true
  /\ nest 0 (flat_map (tree_events ex_cfg) ex_tree) = [(0, S "ul"); (1, S "li"); (1, S "div")]
  /\ join [c_nl] (flat_map (node_lines ex_cfg haml_opts 0) ex_tree)
     = S "%ul#nav.a.b" ++ [c_nl; c_tab] ++ S "%li(title=""x"")" ++ [c_nl; c_tab; c_tab] ++ S "tw" ++ [12%N] ++ S "o   |"
       ++ [c_nl; c_tab; c_tab] ++ S "li" ++ [8232%N] ++ S "nes |" ++ [c_nl; c_tab] ++ S ".c ".
Proof. vm_compute. repeat split; reflexivity. Qed.
