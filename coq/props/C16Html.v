(* C16, HTML half -- Scanners and matchers are total and report only well-formed ranges.
   Property theorems only; each closed by [exact] of a lemma proved in proofs/.
   All statements are for ALL strings, ALL positions in Z (also out of range) and
   ALL option sets (xml flag, special table, void list).

   Reading guide (definitions in proofs/HtmlScanProofs.v, HtmlFoldProofs.v, HtmlC16Proofs.v):
     event_wf s e        0 <= start < end <= |s|, s[start] = '<', s[end-1] = '>', the name is not
                         empty and stands right after '<' (open / self-closing) or '</' (closing)
     events_ordered lo l increasing, non-overlapping: lo <= start_1 < end_1 <= start_2 < ...
     tag_range_wf        event_wf for a reported (name, range)
     balanced_wf s b     open range (and close range, if any) are well-formed tag ranges of s
     contains_pos pos b  start(b) < pos < end(b)
     strictly_nested l   each entry strictly contains its predecessor
     inward_nested l     each entry is well formed and lies between the open and the close tag of
                         its predecessor;  lie_inside l: the plain containment that follows
     attrs_sorted s lo hi l   every token has lo <= name_start < name_end (<= value_start = name_end+1
                         < value_end) <= hi, tokens in order without overlap, and the name / value
                         strings are exactly the slices of s *)
From Coq Require Import List NArith ZArith.
From Emmet Require Import lib.Base gen.GenHtml model.HtmlScan model.HtmlMatch
  proofs.HtmlScanProofs proofs.HtmlFoldProofs proofs.HtmlC16Proofs.
Import ListNotations.

(* html_scan_events_wf: every event of scan is a well-formed tag range of the source and
   events are reported in increasing, non-overlapping order *)
Theorem C16_html_scan_events_wf :
  forall (special : list (str * option (list str))) (s : str),
    Forall (event_wf s) (fst (scan special s)) /\ events_ordered 0 (fst (scan special s)).
Proof. exact scan_events_wf. Qed.
Print Assumptions C16_html_scan_events_wf.

(* the scan never raises (the IndexError of get_unquoted_value is unreachable) *)
Theorem C16_html_scan_no_internal_error :
  forall (special : list (str * option (list str))) (s : str), snd (scan special s) = None.
Proof. exact scan_no_internal_error. Qed.
Print Assumptions C16_html_scan_no_internal_error.

(* html_fold_wf: for ALL ordered event lists (not only scanner outputs) *)
Theorem C16_html_fold_wf :
  forall (o : opts) (pos : Z) (evs : list event),
    events_ordered 0 evs ->
    match_go o pos [] evs = hd_error (outward_go o pos [] evs) /\
    Forall (contains_pos pos) (outward_go o pos [] evs) /\
    strictly_nested (outward_go o pos [] evs) /\
    (forall l, inward_go o pos [] evs = Some l -> inward_nested l).
Proof. exact html_fold_wf. Qed.
Print Assumptions C16_html_fold_wf.

Theorem C16_html_inward_lie_inside : forall l, inward_nested l -> lie_inside l.
Proof. exact inward_nested_lie_inside. Qed.
Print Assumptions C16_html_inward_lie_inside.

(* attributes_wf: for every string and every tag-name argument *)
Theorem C16_html_attributes_wf :
  forall (src : str) (name : option str),
    attrs_sorted src 0 (N.of_nat (length src)) (attributes src name).
Proof. exact attributes_sorted. Qed.
Print Assumptions C16_html_attributes_wf.

(* the public functions: never an internal error; every reported range well formed *)
Theorem C16_html_balanced_outward_total_wf :
  forall (o : opts) (s : str) (pos : Z),
    exists l, balanced_outward o s pos = Ok l /\
      Forall (balanced_wf s) l /\ Forall (contains_pos pos) l /\ strictly_nested l.
Proof. exact balanced_outward_wf. Qed.
Print Assumptions C16_html_balanced_outward_total_wf.

Theorem C16_html_match_total_wf :
  forall (o : opts) (s : str) (pos : Z),
    exists r l, html_match o s pos = Ok r /\ balanced_outward o s pos = Ok l /\
      match r with
      | None => l = []
      | Some m =>
          hd_error l = Some (mkBal (m_name m) (m_open m) (m_close m)) /\
          attrs_sorted s (fst (m_open m)) (snd (m_open m)) (m_attrs m)
      end.
Proof. exact html_match_wf. Qed.
Print Assumptions C16_html_match_total_wf.

Theorem C16_html_balanced_inward_total_wf :
  forall (o : opts) (s : str) (pos : Z),
    exists l, balanced_inward o s pos = Ok l /\ Forall (balanced_wf s) l /\ inward_nested l.
Proof. exact balanced_inward_wf. Qed.
Print Assumptions C16_html_balanced_inward_total_wf.

(* non-vacuity: `<a b=">"><br></a>` scans into three events; at position 11 (inside `<br>`)
   balanced_outward lists br then a *)
Example C16_html_nonvacuous :
  let s := [60;97;32;98;61;34;62;34;62;60;98;114;62;60;47;97;62]%N in
  length (fst (scan default_special s)) = 3 /\
  exists x y, balanced_outward default_opts s 11 = Ok [x; y] /\ b_close x = None /\ b_close y = Some (13, 17)%N.
Proof. split; [vm_compute; reflexivity|]. eexists _, _. vm_compute. repeat split. Qed.
