(* C13 -- Tabstops are numbered in document order and reported positions are exact.
   Model: model/OutStream.v (events = callback invocations with the offset/line/column they are
   given), model/FormatHtml.v, model/FormatIndent.v.  Proofs: proofs/OutStreamProofs.v,
   proofs/FormatReach.v, proofs/FormatProofs.v. *)
From Emmet Require Import lib.Base model.MarkupConvert model.OutStream model.FormatHtml model.FormatIndent
     model.FormatIndent proofs.OutStreamProofs proofs.FormatSteps proofs.FormatReach proofs.FormatProofs proofs.FormatChunks
     proofs.FormatTabstops.

(* SPEC.  [chron o] = the callback invocations of a run in order; [text_of a] = what the
   invocations [a] returned, concatenated; [os_value o] = the final result.
   line_of s   = number of line feeds in s
   column_of s = number of characters after the last line feed of s (all of s if none)
   fmt_lf f    = output.newline is an LF-free prefix followed by LF ("\n", "\r\n", ...);
                 output.indent and output.baseIndent contain no LF. *)

(* callback_positions_exact: for ALL syntaxes (html/xml/xsl/jsx/vue/svelte and haml/pug/slim),
   ALL abbreviation trees and ALL option records with such newline/indent strings, every
   invocation [e] of output.text / output.field is given exactly the offset, line and column
   at which the string it returns sits in the final result. *)
Theorem callback_positions_exact syntax c children a e b :
  fmt_lf (oc_fmt c) ->
  chron (fs_out (stringify_markup syntax c children)) = a ++ e :: b ->
  os_value (fs_out (stringify_markup syntax c children)) = text_of a ++ ev_text e ++ text_of b /\
  ev_off e = length (text_of a) /\
  ev_line e = line_of (text_of a) /\
  ev_col e = column_of (text_of a).
Proof. exact (callback_positions_exact_lemma syntax c children a e b). Qed.
Print Assumptions callback_positions_exact.

(* Any newline / indent / baseIndent strings whatsoever (e.g. "\r", "", "~~"): the offset is
   exact; line = number of line ends the stream itself wrote before (its newline pushes and
   the line feeds of field texts), column = distance from the end of the last of them. *)
Theorem callback_positions_any_newline syntax c children a e b :
  chron (fs_out (stringify_markup syntax c children)) = a ++ e :: b ->
  os_value (fs_out (stringify_markup syntax c children)) = text_of a ++ ev_text e ++ text_of b /\
  ev_off e = length (text_of a) /\
  ev_line e = count_nl (rev a) /\
  ev_col e = length (text_of a) - line_start (oc_fmt c) (rev a).
Proof. exact (callback_positions_any_newline_lemma syntax c children a e b). Qed.
Print Assumptions callback_positions_any_newline.

(* stream_positions: the same two statements for EVERY stream built from the OutputStream
   operations (set level, push of an LF-free fragment, push_string, push_newline, push_indent,
   push_field) in any order -- this is what covers the stylesheet formatter and any other client
   of the stream: emmet/stylesheet/format.py calls only these operations (its raw pushes are fixed
   fragments, numbers, colors and the stylesheet.between/after options; LF-free for the documented
   defaults).  Its call sequence itself is not modelled; the check runs the position oracle on it.
   It also covers callbacks that return something else than what they are given (an editor tabstop
   `${1:x}` for a field, escaped text): the stream only uses the RETURNED string, so such a run is
   again a sequence of these operations with the returned strings as arguments (returned text LF-free;
   a returned field string may contain line feeds).  The formatter theorems above fix the documented
   default callbacks (identity); the check runs the position oracle with rewriting callbacks too. *)
Theorem stream_positions f o a e b :
  fmt_lf f -> reach f o -> chron o = a ++ e :: b ->
  os_value o = text_of a ++ ev_text e ++ text_of b /\
  ev_off e = length (text_of a) /\
  ev_line e = line_of (text_of a) /\
  ev_col e = column_of (text_of a).
Proof. exact (positions_exact_lf f o a e b). Qed.
Print Assumptions stream_positions.

Theorem stream_positions_any_newline f o a e b :
  reach f o -> chron o = a ++ e :: b ->
  ev_off e = length (text_of a) /\
  ev_line e = count_nl (rev a) /\
  ev_col e = length (text_of a) - line_start f (rev a) /\
  os_value o = text_of a ++ ev_text e ++ text_of b.
Proof. exact (positions_exact f o a e b). Qed.
Print Assumptions stream_positions_any_newline.

(* Non-vacuity: the default option strings satisfy fmt_lf, and a run on <a title="${1:x\ny}"><b/></a>
   has callbacks after a field whose placeholder contains a line feed. *)
Definition ex_cfg : oconfig :=
  mkOconfig (mkOfmt [9] [] [10])%N [] [] [] true false [] [] 3 false [] s_html [] false [] [] [] false None None.
Definition ex_tree : list anode :=
  [ANode (Some [97]%N) None None
         (Some [mkAAttr (Some [116]%N) (Some [VField 1 [120; 10; 121]%N]) VRaw false false false])
         [ANode (Some [98]%N) None None None [] false] false].
Example positions_nonvacuous :
  fmt_lf (oc_fmt ex_cfg) /\
  exists a e b, chron (fs_out (stringify_markup s_html ex_cfg ex_tree)) = a ++ e :: b /\
                ev_line e = 1 /\ ev_col e = 2 /\ ev_text e = [62]%N.
Proof.
  split.
  - split; [exists []; split; reflexivity|split; reflexivity].
  - eexists (firstn 5 (chron (fs_out (stringify_markup s_html ex_cfg ex_tree)))), _, _.
    vm_compute. repeat split.
Qed.

(* ------------------------------------------------------------------ tabstop numbering
   fchunks st      = the callback invocations so far with positions erased (CT text | CF index placeholder)
   fields_of X     = the (index, placeholder) pairs of the output.field invocations in X, in order
   no_fields n     = no value of the tree (text or attribute value) contains a ${..} field
   attr_site c a   = 1 iff attribute a is written, has a name, an empty value and is not boolean
   leaf_site n     = 1 iff n has no text, no children and is not self-closed
   sites c n       = sites of n (a named element: its attributes, its leaf site) + sites of its children
   carets F k      = [(F, ""); (F+1, ""); ...; (F+k-1, "")] *)

(* tabstops_in_order: for ALL trees without explicit fields and ALL option records, the HTML
   formatter invokes output.field with exactly 1, 2, ..., k in document order, where k = number
   of empty attribute values + empty leaf elements that are not self-closed. *)
Theorem tabstops_in_order c children :
  forallb no_fields children = true ->
  fields_of (fchunks (html_format c children)) = carets 1 (sites_list c children).
Proof. exact (tabstops_in_order_lemma c children). Qed.
Print Assumptions tabstops_in_order.

(* the same for the indent formatter (haml / pug / slim), ALL trees without explicit fields, ALL
   option records and ALL indent-syntax profiles [o]:
   iattr_site c a  = 1 iff the (secondary: not class / id, written) attribute a has an empty value and is
                     not boolean;  isites c n = those of n + leaf_site n + isites of the children *)
Theorem tabstops_in_order_indent c o children :
  forallb no_fields children = true ->
  fields_of (fchunks (indent_format c o children)) = carets 1 (isites_list c children).
Proof. exact (indent_tabstops_in_order_lemma c o children). Qed.
Print Assumptions tabstops_in_order_indent.

(* explicit_fields_disjoint, three parts.  [push_tokens c v st] writes one value (text or
   attribute value) [v]; [tok_fields v] are its explicit fields (index, placeholder) in order;
   [fs_field st] is the next free tabstop number when the value is written. *)

(* (1) relative numbering inside a value is preserved: each field index is shifted by the same
   amount, order and placeholders unchanged *)
Theorem explicit_fields_relative c v st :
  fields_of (fchunks (push_tokens c v st)) = fields_of (fchunks st) ++ map (shift (fs_field st)) (tok_fields v).
Proof. exact (value_fields_relative c v st). Qed.
Print Assumptions explicit_fields_relative.

(* (2) index ranges of successive values are disjoint and increasing: whenever a second value
   is written at a point where the counter is at least what the first value left, every index
   of the first is smaller than every index of the second *)
Theorem explicit_fields_disjoint c v1 v2 st1 st2 i1 n1 i2 n2 :
  (fs_field (push_tokens c v1 st1) <= fs_field st2)%N ->
  In (i1, n1) (tok_fields v1) -> In (i2, n2) (tok_fields v2) ->
  (fs_field st1 + i1 < fs_field st2 + i2)%N.
Proof. exact (successive_values_disjoint c v1 v2 st1 st2 i1 n1 i2 n2). Qed.
Print Assumptions explicit_fields_disjoint.

(* (3) ... and that premise holds for every later point of a run: the counter never decreases
   across an element (any tree, any options), nor across a value *)
Theorem field_counter_never_decreases c node parent index items st :
  (fs_field st <= fs_field (html_element c parent node index items st))%N.
Proof. exact (field_counter_monotone c node parent index items st). Qed.
Print Assumptions field_counter_never_decreases.

(* Non-vacuity: <a title=""><b></b><c/></a> has two sites; a value with fields ${3} ${1:q}. *)
Definition ex_tree2 : list anode :=
  [ANode (Some [97]%N) None None
         (Some [mkAAttr (Some [116]%N) None VRaw false false false])
         [ANode (Some [98]%N) None None None [] false; ANode (Some [99]%N) None None None [] true] false].
Example tabstops_nonvacuous :
  forallb no_fields ex_tree2 = true /\ sites_list ex_cfg ex_tree2 = 2 /\ 
  fields_of (fchunks (html_format ex_cfg ex_tree2)) = [(1%N, []); (2%N, [])].
Proof. vm_compute. repeat split. Qed.
Example explicit_nonvacuous :
  let v := [VField 3 []; VStr [32]%N; VField 1 [113]%N] in
  let st := mkFs os_empty 5 in
  fields_of (fchunks (push_tokens ex_cfg v st)) = [(8%N, []); (6%N, [113%N])] /\ fs_field (push_tokens ex_cfg v st) = 9%N.
Proof. vm_compute. split; reflexivity. Qed.
