(* C13 -- Tabstops are numbered in document order and reported positions are exact.
   Model: model/OutStream.v (events = callback invocations with the offset/line/column they are
   given), model/FormatHtml.v, model/FormatIndent.v.  Proofs: proofs/OutStreamProofs.v,
   proofs/FormatReach.v, proofs/FormatProofs.v. *)
From Emmet Require Import lib.Base model.MarkupConvert model.OutStream model.FormatHtml model.FormatIndent
     proofs.OutStreamProofs proofs.FormatReach proofs.FormatProofs.

(* SPEC.  [chron o] = the callback invocations of a run in order; [text_of a] = what the
   invocations [a] returned, concatenated; [os_value o] = the final result.
   line_of s   = number of line feeds in s
   column_of s = number of characters after the last line feed of s (all of s if none)
   fmt_lf f    = output.newline is an LF-free prefix followed by LF ("\n", "\r\n", ...);
                 output.indent and output.baseIndent contain no LF. *)

(* callback_positions_exact: for ALL syntaxes (html/xml/xsl/jsx/vue/svelte and haml/pug/slim),
   ALL abbreviation trees and ALL option records with such newline/indent strings, every
   invocation [e] of output.text / output.field is given exactly the offset, line and column
   at which the string it returns sits in the final result. *)
Theorem callback_positions_exact syntax c children a e b :
  fmt_lf (oc_fmt c) ->
  chron (fs_out (stringify_markup syntax c children)) = a ++ e :: b ->
  os_value (fs_out (stringify_markup syntax c children)) = text_of a ++ ev_text e ++ text_of b /\
  ev_off e = length (text_of a) /\
  ev_line e = line_of (text_of a) /\
  ev_col e = column_of (text_of a).
Proof. exact (callback_positions_exact_lemma syntax c children a e b). Qed.
Print Assumptions callback_positions_exact.

(* Any newline / indent / baseIndent strings whatsoever (e.g. "\r", "", "~~"): the offset is
   exact; line = number of line ends the stream itself wrote before (its newline pushes and
   the line feeds of field texts), column = distance from the end of the last of them. *)
Theorem callback_positions_any_newline syntax c children a e b :
  chron (fs_out (stringify_markup syntax c children)) = a ++ e :: b ->
  os_value (fs_out (stringify_markup syntax c children)) = text_of a ++ ev_text e ++ text_of b /\
  ev_off e = length (text_of a) /\
  ev_line e = count_nl (rev a) /\
  ev_col e = length (text_of a) - line_start (oc_fmt c) (rev a).
Proof. exact (callback_positions_any_newline_lemma syntax c children a e b). Qed.
Print Assumptions callback_positions_any_newline.

(* Non-vacuity: the default option strings satisfy fmt_lf, and a run on <a title="${1:x\ny}"><b/></a>
   has callbacks after a field whose placeholder contains a line feed. *)
Definition ex_cfg : oconfig :=
  mkOconfig (mkOfmt [9] [] [10])%N [] [] [] true false [] [] 3 false [] s_html [] false [] [] [] false None None.
Definition ex_tree : list anode :=
  [ANode (Some [97]%N) None None
         (Some [mkAAttr (Some [116]%N) (Some [VField 1 [120; 10; 121]%N]) VRaw false false false])
         [ANode (Some [98]%N) None None None [] false] false].
Example positions_nonvacuous :
  fmt_lf (oc_fmt ex_cfg) /\
  exists a e b, chron (fs_out (stringify_markup s_html ex_cfg ex_tree)) = a ++ e :: b /\
                ev_line e = 1 /\ ev_col e = 2 /\ ev_text e = [62]%N.
Proof.
  split.
  - split; [exists []; split; reflexivity|split; reflexivity].
  - eexists (firstn 5 (chron (fs_out (stringify_markup s_html ex_cfg ex_tree)))), _, _.
    vm_compute. repeat split.
Qed.
