(* C04 -- Text content is placed verbatim: inline text and wrapped lines.
   Property theorems only; each closed by [exact] of a lemma proved in proofs/.  (work in progress) *)
From Coq Require Import String.
From Emmet Require Import lib.Base lib.StrLit model.MarkupTokenizer model.MarkupParser model.MarkupConvert
     proofs.TextSpec proofs.TextProofs proofs.TextConvert.

(* the literal scanner inside `{...}`: whatever the payload contains -- operators, brackets, quotes, `*`,
   white space, unicode -- as long as its braces balance modulo escapes and `$` is escaped, the scanner
   takes all of it up to the closing brace and yields the payload with escapes resolved *)
Theorem C04_literal_scanner_partial :
  forall (T : str) (d : nat) (es : Z) (prev : option char) (attr : Z) (rest : str),
    (0 < es)%Z -> bal d T = true ->
    lit None attr es (es + Z.of_nat d) prev false (T ++ c_rbrace :: rest) = (unescape T, length T, es).
Proof. exact lit_text. Qed.
Print Assumptions C04_literal_scanner_partial.

Theorem C04_group_bracket_text :
  forall (env : cenv) (t : token) (st : cst) (op : bool),
    tk t = TBracket op BGroup -> stringify env t st = Ok ([if op then c_lparen else c_rparen], st).
Proof. exact group_bracket_text. Qed.
Print Assumptions C04_group_bracket_text.

Theorem C04_placeholder_total :
  forall (env : cenv) (t : token) (st : cst),
    tk t = TRepeaterPlaceholder -> reps_in_range env st ->
    stringify env t st = Ok (placeholder_text env st, set_text_inserted (set_inserted st)).
Proof. exact placeholder_total. Qed.
Print Assumptions C04_placeholder_total.

Example C04_nonvacuous : bal 0 (S "a>b*3 \{x\} {(y)} [""]") = true.
Proof. reflexivity. Qed.
