(* C04 -- Text content is placed verbatim: inline text and wrapped lines.
   Property theorems only; each closed by [exact] of a lemma proved in proofs/.

   Vocabulary (proofs/TextSpec.v): [unescape T] -- a backslash makes the next character literal;
   [bal 0 T] -- the braces of T balance modulo escapes, `$` occurs only escaped, no dangling backslash;
   [wrap_lines ls] -- the non-blank lines, trimmed, in order.

   Full statement (kept visible): text written in `{...}` becomes the content of its element character
   for character (balanced inner braces kept, a backslash makes the next character literal, operator
   characters have no effect) and precedes the element's children; with wrap lines, an implicit repeater
   X* yields one copy of X per non-blank line, in order, each with that trimmed line at every `$#` or
   appended once to the deepest last element; without an implicit repeater the whole text is inserted
   once into the deepest last element; supplied text is never interpreted as syntax or numbering.

   What is proved for ALL inputs: C04_text_literal (front end on name{T}, every balanced payload),
   C04_wrap_plain (every tree without `$#`/implicit repeater, every text), C04_deepest_last_element (every
   forest), C04_wrap_text_leaf (X = name{text with or without `$#`}, every line list),
   C04_placeholder_total, C04_group_bracket_text, C04_text_not_reparsed + C04_lines_keep_characters +
   C04_push_string_verbatim (stream), C04_children_after_text (formatter).
   Attribute positions (proofs/AttrText*.v): C04_attr_value_literal (front end on name[n...] for every
   value form), C04_quoted_value_verbatim, C04_group_bracket_attr (`(` `)` in attribute values end to end).
   The wrap clause with an implicit repeater is proved in full in props/C04Wrap.v (C04_wrap_implicit: every
   token tree -- nested explicit and implicit repeaters, `$#` at any depth --, every line list, every budget,
   against the pure spec [unroll_w]); C04_wrap_implicit_parametric below (formerly C04_wrap_implicit_partial)
   is the earlier form of it, parametric in how X converts, kept as a theorem.
   C04_quoted_scanner_partial is the scanner lemma that C04_attr_value_literal builds on (kept).
   C04_text_with_attributes / C04_expand_text_element: text on an element that also carries `#id`, `.class`,
   `[...]` (`a.c[b=1]{t}`), front end and whole pipeline.
   Text WITH numbering (end of file, proofs/TextNested.v): C04_text_nested -- `name{P}` for every payload P in
   which literal runs alternate with `$` counters, `$#` and `${n}` / `${n:placeholder}` fields at ANY depth of
   inner braces (the fact behind repair 86fc68a, `p{{$}}`), with C04_tokenize_nested, C04_nested_closing_brace,
   C04_parse_nested, C04_nested_value_text, C04_nested_value_flat, C04_nested_scanner, C04_nested_repeated (copy i
   of `name{P}*N`); C04_nested_extends_text_literal shows C04_text_literal is its one-run case; C04_attr_expr_nested /
   C04_tokenize_attr_nested / C04_attr_expr_nested_repeated: the same payloads as an `{expression}` attribute value
   `name[n={P}]`, alone and `*N` (proofs/AttrNested.v); C04_expand_nested: `name{P}` through markup.parse and the HTML
   formatter (proofs/ExpandNested.v).
   Not covered by a theorem: `$` numbering / fields inside quoted / unquoted attribute values, text written
   between the attribute parts (`a{t}.c`), text under the haml / pug / slim formatters -- these are
   covered by the model/implementation correspondence and the oracle. *)
From Coq Require Import String.
From Emmet Require Import proofs.HrefProofs.
From Emmet Require Import lib.Base lib.StrLit model.MarkupTokenizer model.MarkupParser model.MarkupConvert
     model.MarkupResolve proofs.ParserSpine proofs.TextSpec proofs.TextProofs proofs.TextParse proofs.TextLiteral
     proofs.TextConvert proofs.TextForest proofs.TextWrap proofs.TextWrapLeaf model.OutStream model.FormatHtml
     proofs.TextStream proofs.TextHtml proofs.TextPlain proofs.AttrText proofs.AttrTextParse proofs.AttrTextConvert proofs.AttrProofs model.MarkupExpand proofs.AttrTextExpand.

(* text_literal.  For EVERY payload T whose braces balance modulo escapes and whose `$` are escaped --
   operators, brackets, quotes, `*`, white space, line breaks, unicode included -- the front end
   (tokenize, parse, convert) turns `name{T}` into the single node `name` whose value is the payload
   with escapes resolved, character for character. *)
Theorem C04_text_literal :
  forall (jsx : bool) (env : cenv) (max_repeat : option N) (name T : str),
    name_ok name -> bal 0 T = true -> ce_text env = WNone ->
    parse_abbr jsx env max_repeat (name ++ c_lbrace :: T ++ [c_rbrace]) =
      Ok [ANode (Some name) (text_value T) None None [] false].
Proof. exact text_literal. Qed.
Print Assumptions C04_text_literal.

(* its three stages, each for all inputs.  (1) the literal scanner inside `{...}` at any nesting depth *)
Theorem C04_literal_scanner :
  forall (T : str) (d : nat) (es : Z) (prev : option char) (attr : Z) (rest : str),
    (0 < es)%Z -> bal d T = true ->
    lit None attr es (es + Z.of_nat d) prev false (T ++ c_rbrace :: rest) = (unescape T, length T, es).
Proof. exact lit_text. Qed.
Print Assumptions C04_literal_scanner.

(* the same scanner between quotes (attribute values): everything up to the closing quote of the same
   kind is literal -- braces, brackets, operators, `*`, white space, the other quote.
   _partial: scanner level; the composition tokenize+parse+convert is proved for element text
   (C04_text_literal), for attribute values it is covered by the correspondence and the oracle. *)
Theorem C04_quoted_scanner_partial :
  forall (T : str) (q : char) (prev : option char) (attr e : Z) (rest : str),
    is_quote q = true -> qpayload q T = true ->
    lit (Some q) attr 0 e prev false (T ++ q :: rest) = (unescape T, length T, e).
Proof. exact lit_quoted. Qed.
Print Assumptions C04_quoted_scanner_partial.

(* (2) the tokens of `name{T}`: name, `{`, leading white space, ONE literal holding the rest, `}` *)
Theorem C04_tokenize_text :
  forall (name T : str), name_ok name -> bal 0 T = true ->
    tokenize (name ++ c_lbrace :: T ++ [c_rbrace]) = TOk (text_abbr_tokens name T).
Proof. exact tokenize_text. Qed.
Print Assumptions C04_tokenize_text.

(* (3) the parser: `name{ inner }` is one element block with value [inner], so by the C01 spine theorem
   text may sit on any element of a flat statement (`a{..}>b{..}+c`) *)
Theorem C04_text_block :
  forall (jsx : bool) (nt open close : token) (v : str) (inner : list token),
    tk nt = TLiteral v -> tk open = TBracket true BExpr -> tk close = TBracket false BExpr ->
    Forall not_expr_bracket inner ->
    block_ok jsx (nt :: open :: inner ++ [close]) (mkLeaf (Some [nt]) None (Some inner) None false).
Proof. exact block_text. Qed.
Print Assumptions C04_text_block.

(* group_bracket_text: `(` and `)` inside a value are written back as themselves *)
Theorem C04_group_bracket_text :
  forall (env : cenv) (t : token) (st : cst) (op : bool),
    tk t = TBracket op BGroup -> stringify env t st = Ok ([if op then c_lparen else c_rparen], st).
Proof. exact group_bracket_text. Qed.
Print Assumptions C04_group_bracket_text.

(* attr_value_literal.  Text in ATTRIBUTE position, end to end (tokenize, parse, convert) on
   `name[n...]`, for every way a value is written ([sval], proofs/AttrText.v):
     n        n=       -> no value                                  (raw)
     n=v      v a non-empty run over every character except  \ $ = white space quotes [ ] { }  with
              parentheses allowed where they balance                 -> the text v as written (raw)
     n='q'    n="q"    q ANY text in which that quote, `$` and `\` occur only escaped by `\`
                                                                    -> q with escapes resolved (single / double)
     n={e}    e any text whose braces balance modulo escapes, `$` escaped
                                                                    -> e with escapes resolved (expression)
   An empty quoted / braced payload gives the empty value list. *)
Theorem C04_attr_value_literal :
  forall (jsx : bool) (env : cenv) (max_repeat : option N) (name n : str) (v : sval),
    word_ok name -> (jsx = false \/ head_upper name = false) -> plain_attr_name n -> sval_ok v ->
    ce_text env = WNone ->
    parse_abbr jsx env max_repeat (name ++ c_lbrack :: n ++ val_text v ++ [c_rbrack]) =
      Ok [ANode (Some name) None None
                (Some [mkAAttr (Some n) (written_value v) (written_type v) false false false]) [] false].
Proof. exact attr_value_literal. Qed.
Print Assumptions C04_attr_value_literal.

(* ... in particular a quoted value without `\`, `$` and that quote -- brackets, braces, operators, `*`,
   `(`, `)`, the other quote, white space, line breaks, unicode all free -- is the text between the
   quotes character for character *)
Theorem C04_quoted_value_verbatim :
  forall (jsx : bool) (env : cenv) (max_repeat : option N) (name n : str) (single : bool) (q : str),
    word_ok name -> (jsx = false \/ head_upper name = false) -> plain_attr_name n ->
    qverbatim (qchar single) q = true -> ce_text env = WNone ->
    parse_abbr jsx env max_repeat (name ++ c_lbrack :: n ++ c_eq :: qchar single :: q ++ [qchar single; c_rbrack]) =
      Ok [ANode (Some name) None None
                (Some [mkAAttr (Some n) (Some (match q with [] => [] | _ => [VStr q] end))
                               (if single then VSingle else VDouble) false false false]) [] false].
Proof. exact quoted_value_verbatim. Qed.
Print Assumptions C04_quoted_value_verbatim.

(* group_bracket_text END TO END: `(` / `)` inside an unquoted attribute value (`a[b=(c)]`, `a[on=f(1)(2)]`,
   any nesting that balances) come back as themselves: the value is the text as written *)
Theorem C04_group_bracket_attr :
  forall (jsx : bool) (env : cenv) (max_repeat : option N) (name n v : str),
    word_ok name -> (jsx = false \/ head_upper name = false) -> plain_attr_name n -> uq_ok v ->
    ce_text env = WNone ->
    parse_abbr jsx env max_repeat (name ++ c_lbrack :: n ++ c_eq :: v ++ [c_rbrack]) =
      Ok [ANode (Some name) None None (Some [mkAAttr (Some n) (Some [VStr v]) VRaw false false false]) [] false].
Proof. exact group_bracket_attr. Qed.
Print Assumptions C04_group_bracket_attr.

(* text_with_attributes.  C04_text_literal for elements that also carry attributes: for EVERY element of
   the written grammar of proofs/AttrText.v -- name, any `#id` / `.class` / `[ ... ]` parts, then `{T}`
   with T any balanced payload -- the front end gives the ONE node whose value is the payload with
   escapes resolved, character for character ([elem_text_value]), beside the written attributes. *)
Theorem C04_text_with_attributes :
  forall (jsx : bool) (env : cenv) (max_repeat : option N) (e : selem),
    selem_ok e -> jsx_ok jsx e -> ce_text env = WNone ->
    parse_abbr jsx env max_repeat (elem_text e) =
      Ok [ANode (Some (se_name e)) (elem_text_value e) None (attrs_opt (written_mentions e)) [] (se_close e)].
Proof. exact element_attributes_text. Qed.
Print Assumptions C04_text_with_attributes.

(* ... and through the whole pipeline (markup.parse + HTML formatter): expand writes
   <name attr...>TEXT</name>  with TEXT = the payload, escapes resolved, nothing else between the tags
   ([leaf_tail c tag sc v] = `>` ++ text of v ++ `</tag>` whenever the element has a non-empty text, also
   when it carries the self-closing mark `/`: C04_leaf_tail_text).
   Hypotheses as in C03_expand_element_text (BEM off: [mc_bem m = false]); [value_inline]: the text has no line break and does not
   start with a block-level tag (such text is laid out on its own lines: C12). *)
Theorem C04_expand_text_element :
  forall (x : xconfig) (e : selem),
    let m := xc_m x in
    let c := xc_o x in
    selem_ok e -> jsx_ok (mc_jsx m) e -> mc_text m = WNone ->
    assoc_str (se_name e) (mc_snippets m) = None -> match_lorem (se_name e) = LNo ->
    xsl_rule_applies m e = false -> mc_bem m = false ->
    html_family (mc_syntax m) -> oc_comment_enabled c = false ->
    oc_format_leaf c = false -> mem_str (se_name e) (oc_format_force c) = false ->
    let attrs := merge_spec (mc_reverse_attrs m) [] (written_mentions e) in
    Forall (fun a => form_nl_free (attr_out_spec c a)) attrs ->
    value_inline c (elem_text_value e) ->
    expand_markup_str x (elem_text e) =
      Ok (c_lt :: tag_name c (se_name e) ++ attrs_text_out c attrs
          ++ leaf_tail c (tag_name c (se_name e)) (se_close e) (elem_text_value e)).
Proof. exact expand_element_text. Qed.
Print Assumptions C04_expand_text_element.

Theorem C04_leaf_tail_text :
  forall (c : oconfig) (tag : str) (sc : bool) (v0 : vtok) (v : list vtok),
    leaf_tail c tag sc (Some (v0 :: v)) =
      [c_gt] ++ concat (map tok_text (v0 :: v)) ++ [c_lt; c_slash] ++ tag ++ [c_gt].
Proof. exact leaf_tail_text. Qed.
Print Assumptions C04_leaf_tail_text.

(* placeholder_total: `$#` always yields a string -- the line of the closest implicit repeater, the
   whole text when there is none -- never None / an internal error *)
Theorem C04_placeholder_total :
  forall (env : cenv) (t : token) (st : cst),
    tk t = TRepeaterPlaceholder -> reps_in_range env st ->
    stringify env t st = Ok (placeholder_text env st, set_text_inserted (set_inserted st)).
Proof. exact placeholder_total. Qed.
Print Assumptions C04_placeholder_total.

(* wrap_implicit.  X* over ALL line lists: one copy of X per non-blank line, in order; copy j holds the
   j-th trimmed line at its `$#` placeholders ([ph = true]: see C04_placeholder_total for what `$#`
   yields), otherwise ([ph = false]) the line is appended once to the deepest last element of the copy.
   How X itself converts under counter j is a parameter ([copy j] may be ANY forest, [copy_spec] ties it
   to the converter); the guard hypothesis says maxRepeat does not cut the copies short (that is C02).
   [copy_spec] asks that converting X leaves the converter state alone apart from recording a `$#`; this
   holds for X without nested repeaters (which consume the repeat budget).  The general case -- X any
   token tree -- is C04_wrap_implicit in props/C04Wrap.v (this one used to carry the suffix _partial). *)
Theorem C04_wrap_implicit_parametric :
  forall (env : cenv) (mr : option N) (node : tnode) (r0 : rep) (lines : list str) (ph : bool)
         (copy : nat -> list anode),
    ce_text env = WList lines ->
    node_rep node = Some r0 -> rimplicit r0 = true ->
    let L := wrap_lines lines in
    copy_spec (once_of env node) (N.of_nat (length L)) ph copy ->
    (ph = true \/ forall j, copy j <> []) ->
    (Z.of_nat (length L) <= match mr with Some m => Z.of_N m | None => 1000000 end)%Z ->
    convert env mr [node] = Ok (concat (map (piece ph L copy) (seq 0 (length L)))).
Proof. exact wrap_implicit_convert. Qed.
Print Assumptions C04_wrap_implicit_parametric.

(* wrap_plain.  For EVERY abbreviation tree without `$#` and without an implicit repeater ([quiet_all]:
   any nesting, groups, explicit repeaters, numbering, attributes) and EVERY text (one string or a list
   of lines): the result is the tree the abbreviation yields without text, with the whole text -- joined
   and stripped as the code does it -- inserted once into its deepest last element. *)
Theorem C04_wrap_plain :
  forall (env : cenv) (mr : option N) (root : list tnode),
    ce_text env <> WNone -> quiet_all root ->
    convert env mr root =
      (let* children := convert (no_text env) mr root in
       Ok (on_last_deepest (fun n => insert_wrap env n (whole_text (ce_text env))) children)).
Proof. exact wrap_plain_full. Qed.
Print Assumptions C04_wrap_plain.

(* ... in fact whenever converting the abbreviation did not consume the text *)
Theorem C04_wrap_plain_unconsumed :
  forall (env : cenv) (mr : option N) (root : list tnode) (children : list anode) (st : cst),
    ce_text env <> WNone ->
    conv_list env root
      (mkCst false (match mr with Some m => Z.of_N m | None => 1000000%Z end) [] false) = Ok (children, st) ->
    cs_text_inserted st = false ->
    convert env mr root = Ok (on_last_deepest (fun n => insert_wrap env n (whole_text (ce_text env))) children).
Proof. exact wrap_plain. Qed.
Print Assumptions C04_wrap_plain_unconsumed.

(* "the deepest last element", for ALL forests: in document order every node keeps its depth and
   payload, except the node visited last, whose value receives the text at its end *)
Theorem C04_deepest_last_element :
  forall (text : str) (items : list anode) (d : nat),
    flatL d (on_last_deepest (fun n => insert_text n text) items) = map_last (pl_insert text) (flatL d items).
Proof. exact insert_into_deepest_last. Qed.
Print Assumptions C04_deepest_last_element.

(* [insert_wrap] in C04_wrap_plain is insert_text followed, when the receiving element is an `a` and markup.href is
   on (the default), by insert_href, which may fill an empty href attribute from a URL / e-mail address
   (props/Href.v).  For the statement of C04 this changes nothing: the text goes into the element exactly as by
   insert_text, name / repeater / children / `/` mark are kept, only the attribute list may differ ... *)
Theorem C04_wrap_text_placed_as_by_insert_text :
  forall (env : cenv) (n : anode) (t : str),
    an_value (insert_wrap env n t) = an_value (insert_text n t) /\
    an_name (insert_wrap env n t) = an_name n /\ an_repeat (insert_wrap env n t) = an_repeat n /\
    an_children (insert_wrap env n t) = an_children n /\ an_self (insert_wrap env n t) = an_self n /\
    an_attrs (insert_wrap env n t) =
      if name_is (an_name n) s_a && ce_href env then href_attrs t (an_attrs n) else an_attrs n.
Proof. exact insert_wrap_fields. Qed.
Print Assumptions C04_wrap_text_placed_as_by_insert_text.

(* ... and it IS insert_text when markup.href is off, or on any element not named `a` *)
Theorem C04_wrap_href_off :
  forall (env : cenv) (n : anode) (t : str), ce_href env = false -> insert_wrap env n t = insert_text n t.
Proof. exact insert_wrap_off. Qed.
Print Assumptions C04_wrap_href_off.
Theorem C04_wrap_not_a :
  forall (env : cenv) (n : anode) (t : str), name_is (an_name n) s_a = false -> insert_wrap env n t = insert_text n t.
Proof. exact insert_wrap_not_a. Qed.
Print Assumptions C04_wrap_not_a.

(* "the deepest last element" for the step C04_wrap_plain takes, for ALL forests *)
Theorem C04_deepest_last_element_wrap :
  forall (env : cenv) (text : str) (items : list anode) (d : nat),
    flatL d (on_last_deepest (fun n => insert_wrap env n text) items) = map_last (pl_wrap env text) (flatL d items).
Proof. exact insert_wrap_into_deepest_last. Qed.
Print Assumptions C04_deepest_last_element_wrap.

(* wrap_implicit made concrete for X = `name{text}`: with `$#` anywhere in the text every copy carries
   its trimmed line at EACH `$#`; without, the line follows the text.  All line lists, all texts made of
   literal tokens and placeholders. *)
Theorem C04_wrap_text_leaf :
  forall (env : cenv) (mr : option N) (lines : list str) (name : str) (nt t : token) (vs : list token) (r0 : rep),
    ce_text env = WList lines ->
    name <> [] -> tk nt = TLiteral name -> Forall simple_tok (t :: vs) -> rimplicit r0 = true ->
    let L := wrap_lines lines in
    (Z.of_nat (length L) <= match mr with Some m => Z.of_N m | None => 1000000 end)%Z ->
    convert env mr [TElem (Some [nt]) None (Some (t :: vs)) (Some r0) false []] =
      Ok (map (fun j =>
                 ANode (Some name)
                       (Some [VStr (if existsb is_ph (t :: vs)
                                    then render_all (nth j L []) (t :: vs)
                                    else render_all [] (t :: vs) ++ nth j L [])])
                       (Some (mkRep (N.of_nat (length L)) (N.of_nat j) true)) None [] false)
              (seq 0 (length L))).
Proof. exact wrap_text_leaf. Qed.
Print Assumptions C04_wrap_text_leaf.

(* text_not_reparsed.  A text value is handed to the stream as the same string: push_tokens passes it to
   push_string, which writes its lines -- each verbatim -- separated by the configured newline and the
   indentation in force, and nothing else.  No tokenizer is involved anywhere on this path (the model's
   push_tokens / os_push_string do not mention one). *)
Theorem C04_text_not_reparsed :
  forall (c : oconfig) (s : str) (st : fstate),
    os_value (fs_out (push_tokens c [VStr s] st)) =
      os_value (fs_out st) ++ join (line_sep (oc_fmt c) (os_level (fs_out st))) (split_crlf s).
Proof. exact text_not_reparsed. Qed.
Print Assumptions C04_text_not_reparsed.

(* ... the lines are the text cut at CR / LF / CRLF only: every other character survives, in order *)
Theorem C04_lines_keep_characters :
  forall s : str, concat (split_crlf s) = filter (fun c => negb (is_crlf c)) s.
Proof. exact split_crlf_chars. Qed.
Print Assumptions C04_lines_keep_characters.

(* ... and text without CR / LF is appended to the stream as it is, whatever else it contains *)
Theorem C04_push_string_verbatim :
  forall (f : ofmt) (o : ostream) (s : str),
    forallb (fun c => negb (is_crlf c)) s = true ->
    os_value (os_push_string f o s) = os_value o ++ s.
Proof. exact push_string_verbatim. Qed.
Print Assumptions C04_push_string_verbatim.

(* children_after_text.  For every named element with a (field-free) value, whatever its attributes,
   children, position and the options: element() = opening part; then the element's own text; then
   the walk over its children; then the closing part. *)
Theorem C04_children_after_text :
  forall (c : oconfig) (parent : option anode) (nm0 : char) (nm : str) (v0 : vtok) (value : list vtok)
         (rp : option rep) (at_ : option (list aattr)) (ch : list anode) (sc : bool)
         (index : nat) (items : list anode) (st : fstate),
    no_field (v0 :: value) ->
    let node := ANode (Some (nm0 :: nm)) (Some (v0 :: value)) rp at_ ch sc in
    html_element c parent node index items st =
      close_part c parent node index items
        (html_children c node (text_part c (v0 :: value) ch (open_part c parent node index items st))).
Proof. exact children_after_text. Qed.
Print Assumptions C04_children_after_text.

(* non-vacuity: a payload full of syntax satisfies the hypotheses, and the theorem's conclusion computes *)
Example C04_nonvacuous :
  name_ok (S "p") /\ bal 0 (S "a>b*3 \{x\} {(y)} [""] \$") = true /\
  parse_abbr false (mkCenv WNone [] false) None (S "p{ *>\}{+}}") =
    Ok [ANode (Some (S "p")) (Some [VStr (S " *>}{+}")]) None None [] false].
Proof. split; [split; [discriminate|repeat constructor]|split; vm_compute; reflexivity]. Qed.

(* non-vacuity of the attribute-position theorems: a[b=(c)] and a quoted value full of syntax *)
Example C04_attr_nonvacuous :
  word_ok (S "a") /\ plain_attr_name (S "b") /\ uq_ok (S "(c)") /\
  qverbatim c_dquote (S "x>y*3 [(z)] {' +") = true /\
  parse_abbr false (mkCenv WNone [] false) None (S "a[b=(c)]") =
    Ok [ANode (Some (S "a")) None None
              (Some [mkAAttr (Some (S "b")) (Some [VStr (S "(c)")]) VRaw false false false]) [] false].
Proof.
  split; [split; [discriminate|repeat constructor]|].
  split; [split; [discriminate|repeat split]|].
  split; [split; [discriminate|split; reflexivity]|].
  split; vm_compute; reflexivity.
Qed.

(* non-vacuity of text_with_attributes / expand: p.c[t=1]{a>b*3 \{x\} (y)}/  (the `/` mark does not drop the text) *)
Example C04_text_attr_nonvacuous :
  let x := mkX (mkMConfig (S "html") [] [] WNone None None false None [] false false false [] [] None)
               (mkOconfig (mkOfmt [] [] []) [] [] (S "double") true false [] [] 0 false [] (S "html") [] false [] [] []
                          false None None) in
  let e := mkSElem (S "p") [PClass 0 (S "c"); PSet [] (spaced [mkSAttr false (S "t") false (SUnq (S "1"))])]
                   (Some (S "a>b*3 \{x\} (y)")) true in
  selem_ok e /\ value_inline (xc_o x) (elem_text_value e) /\
  elem_text e = S "p.c[t=1]{a>b*3 \{x\} (y)}/" /\
  expand_markup_str x (elem_text e) = Ok (S "<p class=""c"" t=""1"">a>b*3 {x} (y)</p>").
Proof.
  cbv zeta. split; [cbn; grammar_ok|].
  split; [vm_compute; repeat constructor|]. split; vm_compute; reflexivity.
Qed.

(* non-vacuity of the wrap theorems: `li{[$#]}*` over lines that look like syntax, with a blank line *)
Example C04_wrap_nonvacuous :
  parse_abbr false (mkCenv (WList [S " ul>li*3 "; S "  "; S "$$"]) [] false) None (S "li{[$#]}*") =
    Ok [ANode (Some (S "li")) (Some [VStr (S "[ul>li*3]")]) (Some (mkRep 2 0 true)) None [] false;
        ANode (Some (S "li")) (Some [VStr (S "[$$]")]) (Some (mkRep 2 1 true)) None [] false].
Proof. vm_compute. reflexivity. Qed.

(* non-vacuity of wrap_plain: `ul>li.c$*2` is quiet, and its conversion with text computes *)
Example C04_plain_nonvacuous :
  exists root, (let* toks := match tokenize (S "ul>li.c$*2") with TOk l => Ok l | TErr _ => Internal 0%N end in
                match parse false toks with POk r => Ok r | PErr _ => Internal 0%N end) = Ok root
               /\ quiet_all root.
Proof. eexists. split; [vm_compute; reflexivity|]. cbn. repeat split; repeat constructor; try discriminate. Qed.

(* ================================================================ text WITH numbering inside nested braces
   (repair 86fc68a: `p{{$}}`, `p{a{$}b}`, `p{{$#}}`, `p{{${1}}}` used to be "Unexpected character").

   Vocabulary (proofs/TextNested.v).  A [payload] is a literal run followed by (item, literal run) any number
   of times, runs may be empty; an [item] is a counter [INum n at_sign reverse digits] written `$`*n, `$`*n@,
   `$`*n@M, `$`*n@-, `$`*n@-M, the placeholder [IPh] `$#`, or a field [IField index ph] `${index}` /
   `${index:ph}`.  [payload_text P] is the payload as written.  [payload_ok P]: read from the opening brace of the
   text, every run keeps the brace depth >= 0 ([walk]: no unescaped `$`, no dangling backslash; a run need NOT be
   balanced by itself), the depth is back to 0 at the end (the written text is balanced modulo escapes), every item
   is written in a documented form, and the character after it cannot be read as its continuation ([item_ok]: no
   `$`/`@` after a bare `$` run, no digit after `@3`, no `{`/`#` after a single `$`, ...; a field placeholder
   balances its braces as the tokenizer counts them, [rawbal]).  Items may stand at ANY brace depth.
   [payload_tokens pos P]: the value tokens in order -- per run its leading white space and ONE literal holding the
   rest unescaped (inner braces kept), per item ONE token over its whole form with the fields the tokenizer gives it
   ([item_kind]: RepeaterNumber size reverse base, RepeaterPlaceholder, Field name index).
   [nested_value reps P]: the node value -- runs unescaped, counters replaced by the counter in force under the
   repeater stack [reps] zero-padded (C02_numbering_value), `$#` by nothing (no wrap text), neighbouring strings
   glued into one string, fields kept as fields. *)
From Emmet Require Import proofs.NumberingProofs proofs.ConvertProofs proofs.TextNested proofs.AttrNested proofs.ExpandNested.

(* text_nested.  For EVERY such payload and every element name, the front end (tokenize, parse, convert) turns
   `name{P}` into the single node `name` whose value is the payload: literal runs verbatim with escapes resolved
   and inner braces kept, every counter replaced by its value (1 outside repeaters), fields as fields. *)
Theorem C04_text_nested :
  forall (jsx : bool) (env : cenv) (max_repeat : option N) (name : str) (P : payload),
    name_ok name -> payload_ok P = true -> ce_text env = WNone ->
    parse_abbr jsx env max_repeat (name ++ c_lbrace :: payload_text P ++ [c_rbrace]) =
      Ok [ANode (Some name) (nested_value [] P) None None [] false].
Proof. exact text_nested. Qed.
Print Assumptions C04_text_nested.

(* its stages.  (1) the tokens: name, `{`, the payload's tokens, `}` ... *)
Theorem C04_tokenize_nested :
  forall (name : str) (P : payload), name_ok name -> payload_ok P = true ->
    tokenize (name ++ c_lbrace :: payload_text P ++ [c_rbrace]) = TOk (nested_abbr_tokens name P).
Proof. exact tokenize_nested. Qed.
Print Assumptions C04_tokenize_nested.

(* ... so the text bracket opened after the name is closed by exactly the LAST `}`: the closing Bracket token is
   the last token, it spans the last character, and no token between the two is a brace token *)
Theorem C04_nested_closing_brace :
  forall (name : str) (P : payload), name_ok name -> payload_ok P = true ->
    let s := name ++ c_lbrace :: payload_text P ++ [c_rbrace] in
    exists inner,
      tokenize s = TOk (mkTok (TLiteral name) 0 (length name)
                        :: mkTok (TBracket true BExpr) (length name) (length name + 1)
                        :: inner ++ [mkTok (TBracket false BExpr) (length s - 1) (length s)]) /\
      Forall not_expr_bracket inner.
Proof. exact nested_closing_brace. Qed.
Print Assumptions C04_nested_closing_brace.

(* (2) the parser: ONE element whose value is the list of the payload's tokens, in order *)
Theorem C04_parse_nested :
  forall (jsx : bool) (name : str) (P : payload), name_ok name -> payload_ok P = true ->
    exists toks, tokenize (name ++ c_lbrace :: payload_text P ++ [c_rbrace]) = TOk toks /\
      parse jsx toks =
        POk [TElem (Some [mkTok (TLiteral name) 0 (length name)]) None
                   (Some (payload_tokens (length name + 1) P)) None false []].
Proof. exact parse_nested. Qed.
Print Assumptions C04_parse_nested.

(* the literal scanner resumed [d] braces deep inside a text that began at depth [es]: it reads the whole run --
   inner `}` included -- up to the next `$` or, at depth 0, the brace that closes the text *)
Theorem C04_nested_scanner :
  forall (T : str) (d d' : nat) (es : Z) (prev : option char) (attr : Z) (rest : str),
    (0 < es)%Z -> walk d T = Some d' -> stops d' rest ->
    lit None attr es (es + Z.of_nat d) prev false (T ++ rest) = (unescape T, length T, (es + Z.of_nat d')%Z).
Proof. exact lit_run. Qed.
Print Assumptions C04_nested_scanner.

(* (3) the value, read as text: the payload with escapes resolved and every counter replaced by its value
   ([payload_out]; a field prints its placeholder) ... *)
Theorem C04_nested_value_text :
  forall (reps : list rep) (P : payload), value_text (nested_value reps P) = payload_out reps P.
Proof. exact nested_value_text. Qed.
Print Assumptions C04_nested_value_text.

(* ... and without `${n}` fields the value IS that one string *)
Theorem C04_nested_value_flat :
  forall (reps : list rep) (P : payload),
    forallb (fun kt => negb (is_field (fst kt))) (snd P) = true -> payload_text P <> [] ->
    nested_value reps P = Some [VStr (payload_out reps P)].
Proof. exact nested_value_flat. Qed.
Print Assumptions C04_nested_value_flat.

(* C04_text_literal is the case of a payload that is one run *)
Theorem C04_nested_extends_text_literal :
  forall (T : str) (reps : list rep),
    payload_ok (T, []) = bal 0 T /\ payload_text (T, []) = T /\ nested_value reps (T, []) = text_value T.
Proof. exact nested_extends_text_literal. Qed.
Print Assumptions C04_nested_extends_text_literal.

(* nested_repeated.  `name{P}*N`, N written as the digit string [ds] ([count_of ds] = int(ds), `*0` counting as 1)
   and a maxRepeat limit that does not cut it short: exactly N nodes, copy i (0-based) carrying the payload under the
   repeater stack [(N, i)]; by C04_nested_value_text its text is the literal runs, unescaped, with every counter --
   at whatever brace depth -- replaced by the value of copy i+1 (C02_counter_in_nested_text in props/C02.v).
   Every payload of the domain, `$#` included (it stands for nothing: no wrap text).  Stated for the element alone
   (attributes / children / siblings beside it: C01 spine + C02_limit_full on the token tree of C04_parse_nested). *)
Theorem C04_nested_repeated :
  forall (jsx : bool) (env : cenv) (max_repeat : option N) (name : str) (P : payload) (ds : str),
    name_ok name -> payload_ok P = true -> all_digits ds -> ds <> [] -> ce_text env = WNone ->
    let n := count_of ds in
    (Z.of_N n <= budget_of max_repeat)%Z ->
    parse_abbr jsx env max_repeat (name ++ c_lbrace :: payload_text P ++ c_rbrace :: c_star :: ds) =
      Ok (map (fun i => ANode (Some name) (nested_value [mkRep n i false] P) (Some (mkRep n i false)) None [] false)
              (nseq (N.to_nat n) 0%N)).
Proof. exact text_nested_repeated_full. Qed.
Print Assumptions C04_nested_repeated.

(* attr_expr_nested.  The same payloads as an `{expression}` ATTRIBUTE value, end to end (tokenize, parse, convert) on
   `name[n={P}]`: ONE node with the one attribute n whose value is the payload -- runs with escapes resolved and inner
   braces kept, counters replaced, fields kept as fields ([attr_nested_value reps P] = the strings and fields of
   [nested_value], an empty payload giving the empty value list) -- of type expression.  Extends the `n={e}` row of
   C04_attr_value_literal from payloads without `$` to payloads with numbering at any brace depth.
   (One attribute, written name; other value forms / several attributes with such values: correspondence + oracle.) *)
Theorem C04_attr_expr_nested :
  forall (jsx : bool) (env : cenv) (max_repeat : option N) (name n : str) (P : payload),
    word_ok name -> plain_attr_name n -> payload_ok P = true -> ce_text env = WNone ->
    parse_abbr jsx env max_repeat (name ++ c_lbrack :: n ++ c_eq :: c_lbrace :: payload_text P ++ [c_rbrace; c_rbrack]) =
      Ok [ANode (Some name) None None
                (Some [mkAAttr (Some n) (Some (attr_nested_value [] P)) VExpr false false false]) [] false].
Proof. exact attr_expr_nested. Qed.
Print Assumptions C04_attr_expr_nested.

(* its tokens: name, `[`, n, `=`, `{`, the payload's tokens, `}`, `]` *)
Theorem C04_tokenize_attr_nested :
  forall (name n : str) (P : payload),
    word_ok name -> n <> [] -> forallb asafe n = true -> payload_ok P = true ->
    tokenize (name ++ c_lbrack :: n ++ c_eq :: c_lbrace :: payload_text P ++ [c_rbrace; c_rbrack]) =
      TOk (attr_nested_tokens name n P).
Proof. exact tokenize_attr_nested. Qed.
Print Assumptions C04_tokenize_attr_nested.

(* ... and repeated: `name[n={P}]*N` gives N nodes, copy i (0-based) with the attribute value under the stack [(N, i)]
   -- every counter inside the expression, at whatever brace depth, prints the value of copy i+1 *)
Theorem C04_attr_expr_nested_repeated :
  forall (jsx : bool) (env : cenv) (max_repeat : option N) (name n : str) (P : payload) (ds : str),
    word_ok name -> plain_attr_name n -> payload_ok P = true -> all_digits ds -> ds <> [] -> ce_text env = WNone ->
    let N0 := count_of ds in
    (Z.of_N N0 <= budget_of max_repeat)%Z ->
    (* attr_nested_text name n P = name ++ "[" ++ n ++ "={" ++ payload_text P ++ "}]" *)
    parse_abbr jsx env max_repeat (attr_nested_text name n P ++ c_star :: ds) =
      Ok (map (fun i => ANode (Some name) None (Some (mkRep N0 i false))
                              (Some [mkAAttr (Some n) (Some (attr_nested_value [mkRep N0 i false] P)) VExpr false false false])
                              [] false)
              (nseq (N.to_nat N0) 0%N)).
Proof. exact attr_expr_nested_repeated. Qed.
Print Assumptions C04_attr_expr_nested_repeated.

(* expand_nested.  `name{P}` through the WHOLE pipeline (markup.parse: snippets, transform; HTML formatter): expand writes
   <name>TEXT</name>  with TEXT = [payload_out [] P] -- the payload with escapes resolved, inner braces kept, every counter
   replaced by its value (1: no repeater), a field by its placeholder -- and nothing else between the tags.
   Hypotheses as in C04_expand_text_element ([value_inline]: the text has no line break and does not start with a
   block-level tag). *)
Theorem C04_expand_nested :
  forall (x : xconfig) (name : str) (P : payload),
    let m := xc_m x in
    let c := xc_o x in
    name_ok name -> payload_ok P = true -> mc_text m = WNone ->
    assoc_str name (mc_snippets m) = None -> match_lorem name = LNo -> mc_bem m = false ->
    html_family (mc_syntax m) -> oc_comment_enabled c = false ->
    oc_format_leaf c = false -> mem_str name (oc_format_force c) = false ->
    value_inline c (nested_value [] P) ->
    expand_markup_str x (name ++ c_lbrace :: payload_text P ++ [c_rbrace]) =
      Ok (c_lt :: tag_name c name ++ [c_gt] ++ payload_out [] P ++ [c_lt; c_slash] ++ tag_name c name ++ [c_gt]).
Proof. exact expand_nested. Qed.
Print Assumptions C04_expand_nested.

(* non-vacuity: `p{a{$}b{{$$@-}c}${1:x{y}}}` -- counters one and two braces deep, a field whose placeholder holds
   braces; the hypotheses hold and the conclusion computes, alone and as `...*2` *)
Definition nested_example : payload :=
  (S "a{", [(INum 1 false false [], S "}b{{"); (INum 2 true true [], S "}c}"); (IField (S "1") (Some (S "x{y}")), [])]).
Example C04_nested_nonvacuous :
  name_ok (S "p") /\ payload_ok nested_example = true /\
  payload_text nested_example = S "a{$}b{{$$@-}c}${1:x{y}}" /\
  parse_abbr false (mkCenv WNone [] false) None (S "p{a{$}b{{$$@-}c}${1:x{y}}}") =
    Ok [ANode (Some (S "p")) (Some [VStr (S "a{1}b{{01}c}"); VField 1 (S "x{y}")]) None None [] false] /\
  parse_abbr false (mkCenv WNone [] false) None (S "p{a{$}b{{$$@-}c}${1:x{y}}}*2") =
    Ok [ANode (Some (S "p")) (Some [VStr (S "a{1}b{{02}c}"); VField 1 (S "x{y}")]) (Some (mkRep 2 0 false)) None [] false;
        ANode (Some (S "p")) (Some [VStr (S "a{2}b{{01}c}"); VField 1 (S "x{y}")]) (Some (mkRep 2 1 false)) None [] false].
Proof.
  split; [split; [discriminate|repeat constructor]|].
  split; [vm_compute; reflexivity|].
  split; [vm_compute; reflexivity|]. split; vm_compute; reflexivity.
Qed.

(* non-vacuity of attr_expr_nested: `p[t={x{$}y{{${2:q{r}}}}}]` *)
Example C04_attr_nested_nonvacuous :
  let P : payload := (S "x{", [(INum 1 false false [], S "}y{{"); (IField (S "2") (Some (S "q{r}")), S "}}")]) in
  word_ok (S "p") /\ plain_attr_name (S "t") /\ payload_ok P = true /\
  S "p[t={" ++ payload_text P ++ S "}]" = S "p[t={x{$}y{{${2:q{r}}}}}]" /\
  parse_abbr false (mkCenv WNone [] false) None (S "p[t={x{$}y{{${2:q{r}}}}}]") =
    Ok [ANode (Some (S "p")) None None
              (Some [mkAAttr (Some (S "t")) (Some [VStr (S "x{1}y{{"); VField 2 (S "q{r}"); VStr (S "}}")]) VExpr false false false])
              [] false].
Proof.
  cbv zeta. split; [split; [discriminate|repeat constructor]|].
  split; [split; [discriminate|repeat split; reflexivity]|].
  split; [vm_compute; reflexivity|]. split; vm_compute; reflexivity.
Qed.

(* non-vacuity of expand_nested and attr_expr_nested_repeated *)
Example C04_expand_nested_nonvacuous :
  let x := mkX (mkMConfig (S "html") [] [] WNone None None false None [] false false false [] [] None)
               (mkOconfig (mkOfmt [] [] []) [] [] (S "double") true false [] [] 0 false [] (S "html") [] false [] [] []
                          false None None) in
  value_inline (xc_o x) (nested_value [] nested_example) /\
  expand_markup_str x (S "p{a{$}b{{$$@-}c}${1:x{y}}}") = Ok (S "<p>a{1}b{{01}c}x{y}</p>") /\
  option_map (map an_attrs)
    (match parse_abbr false (mkCenv WNone [] false) None (S "p[t={x{$@-}y}]*2") with Ok l => Some l | _ => None end) =
    Some [Some [mkAAttr (Some (S "t")) (Some [VStr (S "x{2}y")]) VExpr false false false];
          Some [mkAAttr (Some (S "t")) (Some [VStr (S "x{1}y")]) VExpr false false false]].
Proof. cbv zeta. split; [vm_compute; repeat constructor|]. split; vm_compute; reflexivity. Qed.

(* the theorem was FALSE before repair 86fc68a: with the tokenizer as it was ([tokenize_old]: literal() takes the
   depth it is resumed at for the depth of the text) `p{{$}}` -- payload ("{", [($, "}")]), in the domain of
   C04_text_nested -- is rejected: the inner `}` closes the text and the outer one is left over *)
Example C04_nested_false_before_repair :
  payload_ok (S "{", [(INum 1 false false [], S "}")]) = true /\
  payload_text (S "{", [(INum 1 false false [], S "}")]) = S "{$}" /\
  parses_old false (S "p{{$}}") = false /\
  tokenize_old (S "p{{$}}") =
    TOk [mkTok (TLiteral (S "p")) 0 1; mkTok (TBracket true BExpr) 1 2; mkTok (TLiteral (S "{")) 2 3;
         mkTok (TRepeaterNumber 1 false 1 0) 3 4; mkTok (TBracket false BExpr) 4 5; mkTok (TBracket false BExpr) 5 6] /\
  parse_abbr false (mkCenv WNone [] false) None (S "p{{$}}") =
    Ok [ANode (Some (S "p")) (Some [VStr (S "{1}")]) None None [] false].
Proof. repeat split; vm_compute; reflexivity. Qed.
