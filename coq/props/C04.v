(* C04 -- Text content is placed verbatim: inline text and wrapped lines.
   Property theorems only; each closed by [exact] of a lemma proved in proofs/.

   Vocabulary (proofs/TextSpec.v): [unescape T] -- a backslash makes the next character literal;
   [bal 0 T] -- the braces of T balance modulo escapes, `$` occurs only escaped, no dangling backslash;
   [wrap_lines ls] -- the non-blank lines, trimmed, in order. *)
From Coq Require Import String.
From Emmet Require Import lib.Base lib.StrLit model.MarkupTokenizer model.MarkupParser model.MarkupConvert
     model.MarkupResolve proofs.ParserSpine proofs.TextSpec proofs.TextProofs proofs.TextParse proofs.TextLiteral
     proofs.TextConvert proofs.TextForest proofs.TextWrap.

(* text_literal.  For EVERY payload T whose braces balance modulo escapes and whose `$` are escaped --
   operators, brackets, quotes, `*`, white space, line breaks, unicode included -- the front end
   (tokenize, parse, convert) turns `name{T}` into the single node `name` whose value is the payload
   with escapes resolved, character for character. *)
Theorem C04_text_literal :
  forall (jsx : bool) (env : cenv) (max_repeat : option N) (name T : str),
    name_ok name -> bal 0 T = true -> ce_text env = WNone ->
    parse_abbr jsx env max_repeat (name ++ c_lbrace :: T ++ [c_rbrace]) =
      Ok [ANode (Some name) (text_value T) None None [] false].
Proof. exact text_literal. Qed.
Print Assumptions C04_text_literal.

(* its three stages, each for all inputs.  (1) the literal scanner inside `{...}` at any nesting depth *)
Theorem C04_literal_scanner :
  forall (T : str) (d : nat) (es : Z) (prev : option char) (attr : Z) (rest : str),
    (0 < es)%Z -> bal d T = true ->
    lit None attr es (es + Z.of_nat d) prev false (T ++ c_rbrace :: rest) = (unescape T, length T, es).
Proof. exact lit_text. Qed.
Print Assumptions C04_literal_scanner.

(* (2) the tokens of `name{T}`: name, `{`, leading white space, ONE literal holding the rest, `}` *)
Theorem C04_tokenize_text :
  forall (name T : str), name_ok name -> bal 0 T = true ->
    tokenize (name ++ c_lbrace :: T ++ [c_rbrace]) = TOk (text_abbr_tokens name T).
Proof. exact tokenize_text. Qed.
Print Assumptions C04_tokenize_text.

(* (3) the parser: `name{ inner }` is one element block with value [inner], so by the C01 spine theorem
   text may sit on any element of a flat statement (`a{..}>b{..}+c`) *)
Theorem C04_text_block :
  forall (jsx : bool) (nt open close : token) (v : str) (inner : list token),
    tk nt = TLiteral v -> tk open = TBracket true BExpr -> tk close = TBracket false BExpr ->
    Forall not_expr_bracket inner ->
    block_ok jsx (nt :: open :: inner ++ [close]) (mkLeaf (Some [nt]) None (Some inner) None false).
Proof. exact block_text. Qed.
Print Assumptions C04_text_block.

(* group_bracket_text: `(` and `)` inside a value are written back as themselves *)
Theorem C04_group_bracket_text :
  forall (env : cenv) (t : token) (st : cst) (op : bool),
    tk t = TBracket op BGroup -> stringify env t st = Ok ([if op then c_lparen else c_rparen], st).
Proof. exact group_bracket_text. Qed.
Print Assumptions C04_group_bracket_text.

(* placeholder_total: `$#` always yields a string -- the line of the closest implicit repeater, the
   whole text when there is none -- never None / an internal error *)
Theorem C04_placeholder_total :
  forall (env : cenv) (t : token) (st : cst),
    tk t = TRepeaterPlaceholder -> reps_in_range env st ->
    stringify env t st = Ok (placeholder_text env st, set_text_inserted (set_inserted st)).
Proof. exact placeholder_total. Qed.
Print Assumptions C04_placeholder_total.

(* wrap_implicit.  X* over ALL line lists: one copy of X per non-blank line, in order; copy j holds the
   j-th trimmed line at its `$#` placeholders ([ph = true]: see C04_placeholder_total for what `$#`
   yields), otherwise ([ph = false]) the line is appended once to the deepest last element of the copy.
   How X itself converts under counter j is a parameter ([copy j] may be ANY forest, [copy_spec] ties it
   to the converter); the guard hypothesis says maxRepeat does not cut the copies short (that is C02).
   _partial: [copy_spec] asks that converting X leaves the converter state alone apart from recording a
   `$#`; this holds for X without nested repeaters (which consume the repeat budget) -- the general
   case is covered by the correspondence and the oracle only. *)
Theorem C04_wrap_implicit_partial :
  forall (env : cenv) (mr : option N) (node : tnode) (r0 : rep) (lines : list str) (ph : bool)
         (copy : nat -> list anode),
    ce_text env = WList lines ->
    node_rep node = Some r0 -> rimplicit r0 = true ->
    let L := wrap_lines lines in
    copy_spec (once_of env node) (N.of_nat (length L)) ph copy ->
    (ph = true \/ forall j, copy j <> []) ->
    (Z.of_nat (length L) <= match mr with Some m => Z.of_N m | None => 1000000 end)%Z ->
    convert env mr [node] = Ok (concat (map (piece ph L copy) (seq 0 (length L)))).
Proof. exact wrap_implicit_convert. Qed.
Print Assumptions C04_wrap_implicit_partial.

(* wrap_plain.  If converting the abbreviation did not consume the text (no implicit repeater, no `$#`),
   the whole text, joined and stripped as the code does it, is inserted once into the deepest last element. *)
Theorem C04_wrap_plain :
  forall (env : cenv) (mr : option N) (root : list tnode) (children : list anode) (st : cst),
    ce_text env <> WNone ->
    conv_list env root
      (mkCst false (match mr with Some m => Z.of_N m | None => 1000000%Z end) [] false) = Ok (children, st) ->
    cs_text_inserted st = false ->
    convert env mr root = Ok (on_last_deepest (fun n => insert_text n (whole_text (ce_text env))) children).
Proof. exact wrap_plain. Qed.
Print Assumptions C04_wrap_plain.

(* "the deepest last element", for ALL forests: in document order every node keeps its depth and
   payload, except the node visited last, whose value receives the text at its end *)
Theorem C04_deepest_last_element :
  forall (text : str) (items : list anode) (d : nat),
    flatL d (on_last_deepest (fun n => insert_text n text) items) = map_last (pl_insert text) (flatL d items).
Proof. exact insert_into_deepest_last. Qed.
Print Assumptions C04_deepest_last_element.

(* non-vacuity: a payload full of syntax satisfies the hypotheses, and the theorem's conclusion computes *)
Example C04_nonvacuous :
  name_ok (S "p") /\ bal 0 (S "a>b*3 \{x\} {(y)} [""] \$") = true /\
  parse_abbr false (mkCenv WNone [] false) None (S "p{ *>\}{+}}") =
    Ok [ANode (Some (S "p")) (Some [VStr (S " *>}{+}")]) None None [] false].
Proof. split; [split; [discriminate|repeat constructor]|split; vm_compute; reflexivity]. Qed.
