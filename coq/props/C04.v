(* C04 -- Text content is placed verbatim: inline text and wrapped lines.
   Property theorems only; each closed by [exact] of a lemma proved in proofs/.

   Vocabulary (proofs/TextSpec.v): [unescape T] -- a backslash makes the next character literal;
   [bal 0 T] -- the braces of T balance modulo escapes, `$` occurs only escaped, no dangling backslash;
   [wrap_lines ls] -- the non-blank lines, trimmed, in order. *)
From Coq Require Import String.
From Emmet Require Import lib.Base lib.StrLit model.MarkupTokenizer model.MarkupParser model.MarkupConvert
     model.MarkupResolve proofs.ParserSpine proofs.TextSpec proofs.TextProofs proofs.TextParse proofs.TextLiteral
     proofs.TextConvert.

(* text_literal.  For EVERY payload T whose braces balance modulo escapes and whose `$` are escaped --
   operators, brackets, quotes, `*`, white space, line breaks, unicode included -- the front end
   (tokenize, parse, convert) turns `name{T}` into the single node `name` whose value is the payload
   with escapes resolved, character for character. *)
Theorem C04_text_literal :
  forall (jsx : bool) (env : cenv) (max_repeat : option N) (name T : str),
    name_ok name -> bal 0 T = true -> ce_text env = WNone ->
    parse_abbr jsx env max_repeat (name ++ c_lbrace :: T ++ [c_rbrace]) =
      Ok [ANode (Some name) (text_value T) None None [] false].
Proof. exact text_literal. Qed.
Print Assumptions C04_text_literal.

(* its three stages, each for all inputs.  (1) the literal scanner inside `{...}` at any nesting depth *)
Theorem C04_literal_scanner :
  forall (T : str) (d : nat) (es : Z) (prev : option char) (attr : Z) (rest : str),
    (0 < es)%Z -> bal d T = true ->
    lit None attr es (es + Z.of_nat d) prev false (T ++ c_rbrace :: rest) = (unescape T, length T, es).
Proof. exact lit_text. Qed.
Print Assumptions C04_literal_scanner.

(* (2) the tokens of `name{T}`: name, `{`, leading white space, ONE literal holding the rest, `}` *)
Theorem C04_tokenize_text :
  forall (name T : str), name_ok name -> bal 0 T = true ->
    tokenize (name ++ c_lbrace :: T ++ [c_rbrace]) = TOk (text_abbr_tokens name T).
Proof. exact tokenize_text. Qed.
Print Assumptions C04_tokenize_text.

(* (3) the parser: `name{ inner }` is one element block with value [inner], so by the C01 spine theorem
   text may sit on any element of a flat statement (`a{..}>b{..}+c`) *)
Theorem C04_text_block :
  forall (jsx : bool) (nt open close : token) (v : str) (inner : list token),
    tk nt = TLiteral v -> tk open = TBracket true BExpr -> tk close = TBracket false BExpr ->
    Forall not_expr_bracket inner ->
    block_ok jsx (nt :: open :: inner ++ [close]) (mkLeaf (Some [nt]) None (Some inner) None false).
Proof. exact block_text. Qed.
Print Assumptions C04_text_block.

(* group_bracket_text: `(` and `)` inside a value are written back as themselves *)
Theorem C04_group_bracket_text :
  forall (env : cenv) (t : token) (st : cst) (op : bool),
    tk t = TBracket op BGroup -> stringify env t st = Ok ([if op then c_lparen else c_rparen], st).
Proof. exact group_bracket_text. Qed.
Print Assumptions C04_group_bracket_text.

(* placeholder_total: `$#` always yields a string -- the line of the closest implicit repeater, the
   whole text when there is none -- never None / an internal error *)
Theorem C04_placeholder_total :
  forall (env : cenv) (t : token) (st : cst),
    tk t = TRepeaterPlaceholder -> reps_in_range env st ->
    stringify env t st = Ok (placeholder_text env st, set_text_inserted (set_inserted st)).
Proof. exact placeholder_total. Qed.
Print Assumptions C04_placeholder_total.

(* non-vacuity: a payload full of syntax satisfies the hypotheses, and the theorem's conclusion computes *)
Example C04_nonvacuous :
  name_ok (S "p") /\ bal 0 (S "a>b*3 \{x\} {(y)} [""] \$") = true /\
  parse_abbr false (mkCenv WNone [] false) None (S "p{ *>\}{+}}") =
    Ok [ANode (Some (S "p")) (Some [VStr (S " *>}{+}")]) None None [] false].
Proof. split; [split; [discriminate|repeat constructor]|split; vm_compute; reflexivity]. Qed.
