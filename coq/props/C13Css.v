(* C13, stylesheet side, the theorems that mention the configuration record of the whole stylesheet
   pipeline (model/CssResolve.sconfig, which holds the scorer's float threshold: Print Assumptions lists the
   kernel's primitive float/int types and operations for them, nothing else).
   Model: model/CssFormatStream.v (stream formatter), model/CssExpandStream.v (expand -> stream),
   model/CssFormat.v (string formatter of C05/C06/C07), model/CssResolve.v.
   Proofs: proofs/CssFormatStreamEq.v, proofs/CssExpandPositions.v, proofs/CssExpandFull.v, proofs/CssWrapFields.v,
   proofs/CssNamesTokenizer.v, proofs/CssNamesParser.v, proofs/CssNamesResolve.v. *)
From Coq Require PrimFloat.
From Emmet Require Import lib.Base lib.StyleLib model.CssTokenizer model.CssParser model.CssSnippets model.CssResolve
     model.CssFormat model.MarkupConvert model.OutStream model.CssFormatStream model.CssExpandStream
     proofs.OutStreamProofs proofs.CssFormatStream proofs.CssFormatFields proofs.CssFormatStreamEq
     proofs.CssExpandPositions proofs.CssWrapFields proofs.CssNamesResolve proofs.CssExpandFull.

(* The stream formatter writes exactly the string of the string formatter: for EVERY configuration and EVERY
   property list, so every theorem of C05 / C06 / C07 about CssFormat.stringify / expand_css is a theorem about
   the text of the stream whose callback positions C13 proves exact.
   fmt_of cfg = the options format.py and output_stream.py read from cfg, with the harness' field callback. *)
Theorem C13_css_stream_text cfg abbr :
  os_value (css_stream (fmt_of cfg) abbr) = CssFormat.stringify cfg abbr.
Proof. exact (css_stream_value cfg abbr). Qed.
Print Assumptions C13_css_stream_text.

(* expand(abbr, stylesheet config) with the stream as result succeeds and fails exactly like the string
   pipeline, and the returned string is the text of the stream *)
Theorem C13_css_expand_text cfg abbr :
  expand_css cfg abbr = match expand_css_stream cfg abbr with
                        | Ok o => Ok (os_value o)
                        | ParseErr k p => ParseErr k p
                        | Internal k => Internal k
                        | OutOfFuel => OutOfFuel
                        end.
Proof. exact (expand_css_stream_value cfg abbr). Qed.
Print Assumptions C13_css_expand_text.

(* END TO END, no hypothesis: ALL abbreviation strings, ALL configurations (css/scss/sass/less/sss/stylus are
   configurations), any newline / indent / baseIndent / between / after, any snippets and context.  Whenever the
   expansion succeeds, the string expand returns is the concatenation of what the callbacks returned, and each
   callback was given the offset at which its string sits in it; line = number of line ends the stream wrote
   before (newline pushes, line feeds of field texts), column = distance from the end of the last of them. *)
Theorem C13_css_expand_offsets_exact cfg abbr o a e b :
  expand_css_stream cfg abbr = Ok o -> chron o = a ++ e :: b ->
  expand_css cfg abbr = Ok (text_of a ++ ev_text e ++ text_of b) /\
  ev_off e = length (text_of a) /\
  ev_line e = count_nl (rev a) /\
  ev_col e = length (text_of a) - line_start (cf_fmt (fmt_of cfg)) (rev a).
Proof. exact (expand_css_offsets_lemma cfg abbr o a e b). Qed.
Print Assumptions C13_css_expand_offsets_exact.

(* END TO END, full statement of the position clause for stylesheet expansions: ALL abbreviation strings, ALL
   configurations whose newline option is an LF-free prefix followed by LF ("\n", "\r\n"), whose indent and
   baseIndent have no LF, and whose stylesheet.after has no LF (it is pushed raw).  Every output.text / output.field
   invocation of the run is given the offset, line and column at which the string it returns sits in the string
   expand returns (line = number of line feeds before it, column = characters after the last of them).
   The function names of the resolved properties need no hypothesis: they are Literal token values of the
   abbreviation or of a snippet definition, or "linear-gradient", and no Literal token of the tokenizer contains
   a line feed (proofs/CssNamesTokenizer.v, CssNamesParser.v, CssNamesResolve.v, for every input). *)
Theorem C13_css_expand_positions_exact cfg abbr o a e b :
  fmt_lf (cf_fmt (fmt_of cfg)) -> lf_count (c_after cfg) = 0 ->
  expand_css_stream cfg abbr = Ok o -> chron o = a ++ e :: b ->
  expand_css cfg abbr = Ok (text_of a ++ ev_text e ++ text_of b) /\
  ev_off e = length (text_of a) /\
  ev_line e = line_of (text_of a) /\
  ev_col e = column_of (text_of a).
Proof. exact (expand_css_positions_full cfg abbr o a e b). Qed.
Print Assumptions C13_css_expand_positions_exact.

(* (1) of the task, end to end: the stream of every stylesheet expansion is reachable *)
Theorem C13_css_expand_reachable cfg abbr o :
  lf_count (c_after cfg) = 0 -> expand_css_stream cfg abbr = Ok o -> reach (cf_fmt (fmt_of cfg)) o.
Proof. exact (expand_css_reach cfg abbr o). Qed.
Print Assumptions C13_css_expand_reachable.

(* the invariant behind it: stylesheet.parse never produces a FunctionCall whose name contains a line feed *)
Theorem C13_css_resolved_names_lf_free cfg sn abbr nodes :
  convert_snippets (c_snippets cfg) = Ok sn -> parse_with cfg sn abbr = Ok nodes ->
  lf_count (c_after cfg) = 0 -> css_raw_ok (fmt_of cfg) nodes.
Proof. exact (parse_with_raw_ok cfg sn abbr nodes). Qed.
Print Assumptions C13_css_resolved_names_lf_free.

(* Tabstops GENERATED for a property resolved from a snippet: resolve_as_property wraps the tokens of the
   snippet's default value with wrap_with_field, one fresh counter per comma-separated value.  For every value
   without fields of its own the generated fields are numbered exactly 1, 2, ..., k in document order (the
   formatter then emits them verbatim: C13_css_tabstops).  Consequence, confirmed on the code: the values of one
   property `prop:a, b|c` both start at 1 (`${1:a}, ${1:b}`), as in upstream Emmet. *)
Theorem C13_css_generated_tabstops cfg node :
  has_field node = false ->
  exists k, map fst (value_field_args (wrap_with_field cfg node)) = map Some (nseq 1 k).
Proof. exact (wrap_with_field_numbering cfg node). Qed.
Print Assumptions C13_css_generated_tabstops.

(* Non-vacuity: `border: 1px solid` wrapped gives ${1:1px} ${2:solid}; a run of the pipeline. *)
Example generated_nonvacuous :
  let cfg := mkCfg [] None [] [] true [58; 32]%N [59]%N [] [] [] false false false PrimFloat.zero true [10]%N [] [9]%N FieldPlaceholder in
  let node := [VTok (CLiteral [49; 112; 120]%N) (Some 0) (Some 3); VTok (CLiteral [115]%N) (Some 4) (Some 5)] in
  has_field node = false /\
  map fst (value_field_args (wrap_with_field cfg node)) = [Some 1%N; Some 2%N].
Proof. vm_compute. split; reflexivity. Qed.
