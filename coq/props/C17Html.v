(* C17, HTML half -- Editor action helpers select exactly the tag and attribute parts.
   Property theorems only; each closed by [exact] of a lemma proved in proofs/.
   All statements are for ALL strings, ALL positions in Z and ALL option sets.

   Reading guide (proofs/HtmlActionsProofs.v, HtmlC16Proofs.v, HtmlScanProofs.v):
     tag_range_wf code closing name r   r runs from `<` to `>` inside code, name right after `<` / `</`
     attrs_sorted code lo hi l          tokens inside [lo, hi], in order, disjoint, and the name / value
                                        strings are exactly the slices of CODE at the reported ranges
                                        (so ranges are shifted by the tag start exactly once)
     tok_in lo hi r                     lo <= fst r < snd r <= hi
     next_pred pos e / prev_pred pos e  open or self-closing tag with end > pos / start < pos
     select_target                      next: the FIRST tag with next_pred; previous: the LAST tag with prev_pred

   Proved for the ranges of select_item_html: the model spans the selected tag, the first range
   is the tag name, every range is non-empty and lies inside the tag after `<`; value_range never
   raises.  NOT proved as a theorem (covered by the ground-truth oracle on generated documents and
   by correspondence): that the range LIST is exactly name, then per attribute [name..value end),
   unquoted value, class tokens -- this is the definition of selection_ranges in model/HtmlActions.v,
   tied to the code by correspondence; and that token_list yields exactly the maximal runs of
   non-space characters (checked directly against an independent word splitter on every run). *)
From Coq Require Import List NArith ZArith.
From Emmet Require Import lib.Base gen.GenHtml model.HtmlScan model.HtmlMatch model.HtmlActions
  proofs.HtmlScanProofs proofs.HtmlFoldProofs proofs.HtmlC16Proofs proofs.HtmlActionsProofs.
Import ListNotations.
Local Open Scope Z_scope.

(* open_tag_hit over ALL ordered event lists: the result is a tag strictly containing the
   position, and a tag strictly containing the position is always found *)
Theorem C17_html_open_tag_sound :
  forall (pos : Z) (evs : list event) (e : event),
    open_tag_go pos evs = Some (Some e) -> In e evs /\ strictly_in (ev_start e) pos (ev_end e) = true.
Proof. exact open_tag_go_sound. Qed.
Print Assumptions C17_html_open_tag_sound.

Theorem C17_html_open_tag_complete :
  forall (pos : Z) (evs : list event) (lo : N) (e : event),
    events_ordered lo evs -> In e evs -> strictly_in (ev_start e) pos (ev_end e) = true ->
    open_tag_go pos evs = Some (Some e).
Proof. exact open_tag_go_complete. Qed.
Print Assumptions C17_html_open_tag_complete.

(* get_open_tag on every string: total; the tag strictly contains the position; open and
   self-closing tags carry attributes whose ranges slice the source *)
Theorem C17_html_get_open_tag :
  forall (code : str) (pos : Z),
    exists r, get_open_tag code pos = Ok r /\
      match r with
      | Some t =>
          strictly_in (ct_start t) pos (ct_end t) = true /\
          tag_range_wf code (match ct_type t with EClose => true | _ => false end) (ct_name t) (ct_start t, ct_end t) /\
          match ct_type t with
          | EClose => ct_attrs t = None
          | _ => exists attrs, ct_attrs t = Some attrs /\ attrs_sorted code (ct_start t) (ct_end t) attrs
          end
      | None =>
          forall e, In e (fst (scan (o_special default_opts) code)) ->
                    strictly_in (ev_start e) pos (ev_end e) = false
      end.
Proof. exact get_open_tag_wf. Qed.
Print Assumptions C17_html_get_open_tag.

(* next / previous chosen by the stated comparison, over ALL (ordered) event lists *)
Theorem C17_html_next_item :
  forall (pos : Z) (evs : list event), next_item_go pos evs = find (next_pred pos) evs.
Proof. exact next_item_go_spec. Qed.
Print Assumptions C17_html_next_item.

Theorem C17_html_previous_item :
  forall (pos : Z) (evs : list event) (lo : N) (last : option event),
    events_ordered lo evs ->
    snd (prev_item_go pos last evs) =
    match last_opt (filter (prev_pred pos) evs) with Some e => Some e | None => last end.
Proof. exact prev_item_go_spec. Qed.
Print Assumptions C17_html_previous_item.

(* select_html_ranges on every string *)
Theorem C17_html_select_item_partial :
  forall (o : opts) (code : str) (pos : Z) (is_prev : bool),
    exists r, select_item_html o code pos is_prev = Ok r /\
      match select_target pos is_prev (fst (scan (o_special o) code)) with
      | None => r = None
      | Some e =>
          exists m, r = Some m /\
            sel_start m = Z.of_N (ev_start e) /\ sel_end m = Z.of_N (ev_end e) /\
            hd_error (sel_ranges m) =
              Some (Z.of_N (ev_start e) + 1, Z.of_N (ev_start e) + 1 + Z.of_nat (length (ev_name e))) /\
            Forall (tok_in (Z.of_N (ev_start e) + 1) (Z.of_N (ev_end e))) (sel_ranges m)
      end.
Proof. exact select_item_html_wf. Qed.
Print Assumptions C17_html_select_item_partial.

(* class tokens lie inside the value they were split from *)
Theorem C17_html_token_list_bounds :
  forall (v : str) (off : Z), Forall (tok_in off (off + Z.of_nat (length v))) (token_list v off).
Proof. exact token_list_bounds. Qed.
Print Assumptions C17_html_token_list_bounds.

(* non-vacuity: `<li class="item item_1">` selects name, attribute, value and both class tokens
   (the first case of tests/action_utils/test_html.py, shifted to offset 0) *)
Example C17_html_nonvacuous :
  let s := [60;108;105;32;99;108;97;115;115;61;34;105;116;101;109;32;105;116;101;109;95;49;34;62]%N in
  exists m, select_item_html default_opts s 0 false = Ok (Some m) /\
    sel_ranges m = [(1, 3); (4, 23); (11, 22); (11, 15); (16, 22)].
Proof. eexists. vm_compute. split; reflexivity. Qed.
