(* C17, HTML half -- Editor action helpers select exactly the tag and attribute parts.
   Property theorems only; each closed by [exact] of a lemma proved in proofs/.
   All statements are for ALL strings, ALL positions in Z and ALL option sets.

   Reading guide (proofs/HtmlActionsProofs.v, HtmlC16Proofs.v, HtmlScanProofs.v, HtmlSelectFull.v):
     tag_range_wf code closing name r   r runs from `<` to `>` inside code, name right after `<` / `</`
     attrs_sorted code lo hi l          tokens inside [lo, hi], in order, disjoint, and the name / value
                                        strings are exactly the slices of CODE at the reported ranges
                                        (so ranges are shifted by the tag start exactly once)
     tok_in lo hi r                     lo <= fst r < snd r <= hi
     next_pred pos e / prev_pred pos e  open or self-closing tag with end > pos / start < pos
     select_target                      next: the FIRST tag with next_pred; previous: the LAST tag with prev_pred
     tag_sel code e                     THE SPEC of the selection model of tag event e (HtmlSelectFull.v, 40 lines):
                                        start, end, and the range list
                                          tag name :: squash (for each attribute token of get_attributes, in order:
                                            [name start, value end)   -- or [name start, name end) without value --
                                            unquoted value            (strip: one leading quote and the same quote at
                                                                       the end, or one `{`..`}` pair, left out)
                                            for `class`: words (unquoted value))
                                        squash = what push_range keeps: no empty range, no range equal to the one
                                        just before it (the value of class="a" and its only word)
     words s off                        ranges of the maximal runs of non-space characters of s (C17_html_words_spec
                                        and C17_html_words_unique pin this down independently of the recursion)

   C17_html_select_ranges is the full statement for select_item_html: an equation between the model and the
   spec, for every string, position, direction and option set.  The attribute tokens inside the spec are those of
   get_attributes; C17_html_get_open_tag says they slice the source to names and values as written
   (attrs_sorted).

   ON TEXT (C17_html_select_text, C17_html_get_open_tag_text; proofs/HtmlSelectText.v): for every document d of the
   C09 level-B grammar (proofs/HtmlRender.v, HtmlRenderScan.v: item, dattr, aname, aval, render, item_ok) the helpers
   run on the string `render d` return the tags of the document's own record:
     tags_of d                          the open / self-closing tags of d with their offsets, in document order
     select_tag pos is_prev tags        next: first tag that ends after pos; previous: last tag that starts before pos
     tag_items t                        (range, text) pairs computed from the attributes AS WRITTEN: tag name; per
                                        attribute [name start, value end) -> `name=value`, the unquoted value -> the body
                                        between the quotes / braces, for class the words of the body
     written_model t                    start, end, tag name :: squash (ranges of the attribute items)
     sliced src (r, txt)                src[r] = txt
     ctx_of_tag t / tag_tokens t        the ContextTag with the attribute tokens of the record (attr_tokens: names and
                                        values as written at their exact document offsets -- shifted exactly once) *)
From Coq Require Import List NArith ZArith.
From Emmet Require Import lib.Base gen.GenHtml model.HtmlScan model.HtmlMatch model.HtmlActions
  proofs.HtmlScanProofs proofs.HtmlFoldProofs proofs.HtmlC16Proofs proofs.HtmlActionsProofs proofs.HtmlSelectFull
  proofs.HtmlRender proofs.HtmlRenderScan proofs.HtmlRenderCompose proofs.HtmlSelectText
  proofs.XmlNames proofs.XmlNamesActions.
Import ListNotations.
Local Open Scope Z_scope.

(* open_tag_hit over ALL ordered event lists: the result is a tag strictly containing the
   position, and a tag strictly containing the position is always found *)
Theorem C17_html_open_tag_sound :
  forall (pos : Z) (evs : list event) (e : event),
    open_tag_go pos evs = Some (Some e) -> In e evs /\ strictly_in (ev_start e) pos (ev_end e) = true.
Proof. exact open_tag_go_sound. Qed.
Print Assumptions C17_html_open_tag_sound.

Theorem C17_html_open_tag_complete :
  forall (pos : Z) (evs : list event) (lo : N) (e : event),
    events_ordered lo evs -> In e evs -> strictly_in (ev_start e) pos (ev_end e) = true ->
    open_tag_go pos evs = Some (Some e).
Proof. exact open_tag_go_complete. Qed.
Print Assumptions C17_html_open_tag_complete.

(* get_open_tag on every string: total; the tag strictly contains the position; open and
   self-closing tags carry attributes whose ranges slice the source *)
Theorem C17_html_get_open_tag :
  forall (code : str) (pos : Z),
    exists r, get_open_tag code pos = Ok r /\
      match r with
      | Some t =>
          strictly_in (ct_start t) pos (ct_end t) = true /\
          tag_range_wf code (match ct_type t with EClose => true | _ => false end) (ct_name t) (ct_start t, ct_end t) /\
          match ct_type t with
          | EClose => ct_attrs t = None
          | _ => exists attrs, ct_attrs t = Some attrs /\ attrs_sorted code (ct_start t) (ct_end t) attrs
          end
      | None =>
          forall e, In e (fst (scan (o_special default_opts) code)) ->
                    strictly_in (ev_start e) pos (ev_end e) = false
      end.
Proof. exact get_open_tag_wf. Qed.
Print Assumptions C17_html_get_open_tag.

(* get_open_tag as an equation, on every string and over every ordered event list: the (first = only) tag event
   strictly containing the position, as ContextTag; open and self-closing tags with the tokens of get_attributes *)
Theorem C17_html_get_open_tag_eq :
  forall (code : str) (pos : Z),
    get_open_tag code pos =
    Ok (option_map (ctx_of_event code) (find (hits pos) (fst (scan (o_special default_opts) code)))).
Proof. exact get_open_tag_eq. Qed.
Print Assumptions C17_html_get_open_tag_eq.

Theorem C17_html_get_open_tag_events :
  forall (code : str) (evs : list event) (lo : N) (pos : Z),
    events_ordered lo evs ->
    get_open_tag_of code (evs, None) pos = Ok (option_map (ctx_of_event code) (find (hits pos) evs)).
Proof. exact get_open_tag_of_eq. Qed.
Print Assumptions C17_html_get_open_tag_events.

(* next / previous chosen by the stated comparison, over ALL (ordered) event lists *)
Theorem C17_html_next_item :
  forall (pos : Z) (evs : list event), next_item_go pos evs = find (next_pred pos) evs.
Proof. exact next_item_go_spec. Qed.
Print Assumptions C17_html_next_item.

Theorem C17_html_previous_item :
  forall (pos : Z) (evs : list event) (lo : N) (last : option event),
    events_ordered lo evs ->
    snd (prev_item_go pos last evs) =
    match last_opt (filter (prev_pred pos) evs) with Some e => Some e | None => last end.
Proof. exact prev_item_go_spec. Qed.
Print Assumptions C17_html_previous_item.

(* select_html_ranges on every string: bounds (kept; the equation below is the full statement) *)
Theorem C17_html_select_item :
  forall (o : opts) (code : str) (pos : Z) (is_prev : bool),
    exists r, select_item_html o code pos is_prev = Ok r /\
      match select_target pos is_prev (fst (scan (o_special o) code)) with
      | None => r = None
      | Some e =>
          exists m, r = Some m /\
            sel_start m = Z.of_N (ev_start e) /\ sel_end m = Z.of_N (ev_end e) /\
            hd_error (sel_ranges m) =
              Some (Z.of_N (ev_start e) + 1, Z.of_N (ev_start e) + 1 + Z.of_nat (length (ev_name e))) /\
            Forall (tok_in (Z.of_N (ev_start e) + 1) (Z.of_N (ev_end e))) (sel_ranges m)
      end.
Proof. exact select_item_html_wf. Qed.
Print Assumptions C17_html_select_item.

(* THE FULL STATEMENT: the selection model is exactly the spec [tag_sel] of the selected tag *)
Theorem C17_html_select_ranges :
  forall (o : opts) (code : str) (pos : Z) (is_prev : bool),
    select_item_html o code pos is_prev =
    Ok (option_map (tag_sel code) (select_target pos is_prev (fst (scan (o_special o) code)))).
Proof. exact select_item_html_eq. Qed.
Print Assumptions C17_html_select_ranges.

(* ... over ALL ordered event lists, not only scanner outputs *)
Theorem C17_html_select_ranges_events :
  forall (code : str) (evs : list event) (lo : N) (pos : Z) (is_prev : bool),
    events_ordered lo evs ->
    select_item_html_of code (evs, None) pos is_prev = Ok (option_map (tag_sel code) (select_target pos is_prev evs)).
Proof. exact select_item_html_of_eq. Qed.
Print Assumptions C17_html_select_ranges_events.

(* ... and the loop of get_tag_selection_model over ALL attribute token lists whose values are
   non-empty slices of the tag source: one push_range per spec entry, in order *)
Theorem C17_html_selection_loop :
  forall (tag_src : str) (st : Z) (attrs : list attr) (ranges : list range),
    Forall (tok_ok tag_src) attrs ->
    selection_ranges tag_src st attrs ranges = Ok (fold_left push_range (flat_map (attr_ranges st) attrs) ranges).
Proof. exact selection_ranges_eq. Qed.
Print Assumptions C17_html_selection_loop.

Theorem C17_html_push_range_squash :
  forall (l ranges : list range), fold_left push_range l ranges = ranges ++ squash (last_range ranges) l.
Proof. exact fold_push_squash. Qed.
Print Assumptions C17_html_push_range_squash.

(* class tokens: token_list is [words], and [words] is the list of maximal non-space runs *)
Theorem C17_html_token_list_words : forall (v : str) (off : Z), token_list v off = words v off.
Proof. exact token_list_words. Qed.
Print Assumptions C17_html_token_list_words.

Theorem C17_html_words_spec :
  forall (s : str) (off : Z),
    separated off (words s off) /\
    Forall (fun r => snd r <= off + Z.of_nat (length s)) (words s off) /\
    forall i c, nth_error s i = Some c -> (covers (words s off) (off + Z.of_nat i) <-> is_space c = false).
Proof. exact words_spec. Qed.
Print Assumptions C17_html_words_spec.

Theorem C17_html_words_unique :
  forall (l1 l2 : list range) (lo : Z),
    separated lo l1 -> separated lo l2 -> (forall i, covers l1 i <-> covers l2 i) -> l1 = l2.
Proof. exact separated_covers_unique. Qed.
Print Assumptions C17_html_words_unique.

(* class tokens lie inside the value they were split from *)
Theorem C17_html_token_list_bounds :
  forall (v : str) (off : Z), Forall (tok_in off (off + Z.of_nat (length v))) (token_list v off).
Proof. exact token_list_bounds. Qed.
Print Assumptions C17_html_token_list_bounds.

(* non-vacuity: `<li class="item item_1">` selects name, attribute, value and both class tokens
   (the first case of tests/action_utils/test_html.py, shifted to offset 0) *)
Example C17_html_nonvacuous :
  let s := [60;108;105;32;99;108;97;115;115;61;34;105;116;101;109;32;105;116;101;109;95;49;34;62]%N in
  exists m, select_item_html default_opts s 0 false = Ok (Some m) /\
    sel_ranges m = [(1, 3); (4, 23); (11, 22); (11, 15); (16, 22)].
Proof. eexists. vm_compute. split; reflexivity. Qed.

(* the spec on the same tag: the value range and the only class token coincide for class="item" and are
   reported once (squash); an empty value yields no value range *)
Example C17_html_spec_nonvacuous :
  let s := [60;97;32;99;108;97;115;115;61;34;120;34;32;98;61;34;34;32;99;62]%N in   (* <a class="x" b="" c> *)
  let e := mkEv [97]%N EOpen 0 20 in
  select_target 0 false (fst (scan (o_special default_opts) s)) = Some e /\
  sel_ranges (tag_sel s e) = [(1, 2); (3, 12); (10, 11); (13, 17); (18, 19)].
Proof. vm_compute. split; reflexivity. Qed.

(* ================================================================== on TEXT *)
(* select_item_html on the text of any document of the grammar, any position, both directions: the next / previous
   tag of the record with the ranges computed from the WRITTEN attributes; every item of every tag slices the
   text to exactly its part, and all ranges lie inside the tag *)
Theorem C17_html_select_text :
  forall (o : opts) (d : list item) (pos : Z) (is_prev : bool),
    forallb (item_ok (o_special o)) d = true ->
    select_item_html o (render d) pos is_prev = Ok (option_map written_model (select_tag pos is_prev (tags_of d))) /\
    forall t, In t (tags_of d) ->
      Forall (sliced (render d)) (tag_items t) /\
      Forall (tok_in (Z.of_N (tr_start t) + 1) (Z.of_N (tr_end t))) (written_ranges t).
Proof. exact select_text. Qed.
Print Assumptions C17_html_select_text.

(* get_open_tag on the text: exactly the open / self-closing tag of the record strictly containing the position,
   with the attribute tokens of the record, which slice the text to the names and values as written *)
Theorem C17_html_get_open_tag_text :
  forall (d : list item) (pos : Z),
    forallb (item_ok (o_special default_opts)) d = true ->
    (forall t, In t (tags_of d) -> Z.of_N (tr_start t) < pos -> pos < Z.of_N (tr_end t) ->
       get_open_tag (render d) pos = Ok (Some (ctx_of_tag t))) /\
    (forall c, get_open_tag (render d) pos = Ok (Some c) -> ct_type c <> EClose ->
       exists t, In t (tags_of d) /\ Z.of_N (tr_start t) < pos /\ pos < Z.of_N (tr_end t) /\ c = ctx_of_tag t) /\
    (forall t, In t (tags_of d) ->
       Forall (token_slices (render d)) (tag_tokens t) /\
       attrs_sorted (render d) (tr_start t) (tr_end t) (tag_tokens t)).
Proof. exact get_open_tag_text. Qed.
Print Assumptions C17_html_get_open_tag_text.

(* the written items are the ranges of the model before squash (definitional) *)
Theorem C17_html_written_ranges :
  forall t, written_ranges t =
    name_range (tr_start t) (tr_name t) ::
    squash (Some (name_range (tr_start t) (tr_name t))) (map fst (tl (tag_items t))).
Proof. exact written_ranges_items. Qed.
Print Assumptions C17_html_written_ranges.

(* non-vacuity on text: d = <p class="a b" id=x k={v}>t</p><br/> is a document of the grammar; at position 30
   (inside `</p>`) next selects <br/>, previous selects <p ...> with name, class
   attribute, its unquoted value, both class tokens, id attribute, its value, k attribute and the inside of {v} *)
Example C17_html_text_nonvacuous :
  let cls := [99;108;97;115;115]%N in
  let d := [IPaired [112]%N
              [mkDAttr [32]%N (NIdent cls) (VQuoted 34%N [97;32;98]%N);
               mkDAttr [32]%N (NIdent [105;100]%N) (VUnquoted [120]%N);
               mkDAttr [32]%N (NIdent [107]%N) (VExpr [EChar 118%N])] [] [IText [116]%N];
            ISelf [98;114]%N [] []] in
  forallb (item_ok (o_special default_opts)) d = true /\
  option_map written_model (select_tag 30 false (tags_of d)) = Some (mkSel 31 36 [(32, 34)]) /\
  option_map written_model (select_tag 30 true (tags_of d)) =
    Some (mkSel 0 26 [(1, 2); (3, 14); (10, 13); (10, 11); (12, 13); (15, 19); (18, 19); (20, 25); (23, 24)]).
Proof. vm_compute. repeat split; reflexivity. Qed.

(* ================================================================== tags named by ANY XML Name *)
(* The names of the grammar above are exactly the Names of XML 1.0 (5th ed.) sect. 2.3 over the complete NameStartChar /
   NameChar productions, all planes (props/C09.v: C09_grammar_names_are_xml_names, C09_name_char_is_xml).  Spelled out
   for the document `<n a="v">t</n>` = render (xdoc n a v t) (C09_xdoc_text), n and a ANY XML Names (xdoc_ok; CJK,
   Hangul, U+200C/U+200D, astral letters ...): [xtag n a v] is its open tag at offset 0 with the attribute as written *)
Theorem C17_html_select_xml_named_tag :
  forall (o : opts) (n a v t : str) (pos : Z) (is_prev : bool),
    xdoc_ok (o_special o) n a v t ->
    select_item_html o (render (xdoc n a v t)) pos is_prev =
    Ok (option_map written_model (select_tag pos is_prev [xtag n a v])).
Proof. exact select_xml_named_pair. Qed.
Print Assumptions C17_html_select_xml_named_tag.

Theorem C17_html_open_tag_xml_named_tag :
  forall (n a v t : str) (pos : Z),
    xdoc_ok (o_special default_opts) n a v t ->
    0 < pos < Z.of_N (x_oe n a v) ->
    get_open_tag (render (xdoc n a v t)) pos = Ok (Some (ctx_of_tag (xtag n a v))).
Proof. exact open_tag_xml_named_pair. Qed.
Print Assumptions C17_html_open_tag_xml_named_tag.

(* non-vacuity: the document of the defect report with both names beyond U+1FFF: tag name, attribute, value inside
   the quotes; get_open_tag inside the attribute name reports the attribute token at [4, 6) with value at [7, 10) *)
Example C17_html_xml_names_nonvacuous :
  let n := [0x65E5; 0x672C]%N in let a := [0x540D; 0x524D]%N in
  xml_name n = true /\ xml_name a = true /\
  select_item_html default_opts (render (xdoc n a [49] [120])%N) 0 false = Ok (Some (mkSel 0 11 [(1, 3); (4, 10); (8, 9)])) /\
  get_open_tag (render (xdoc n a [49] [120])%N) 5 =
    Ok (Some (mkCtxTag n EOpen 0 11 (Some [mkAttr a 4 6 (Some ([34; 49; 34], 7, 10))%N]))).
Proof. vm_compute. repeat split; reflexivity. Qed.
